//! C19 — outgoing datagrams go out the transport their address designates.
//!
//! Runs the REAL `IpTransports::bind` (sorting, default index), `ip::Config::is_valid_send_addr`
//! / `is_valid_default_addr`, `TransportsSender::poll_send` and `Sender::poll_send`
//! (iroh/src/socket/transports.rs, transports/ip.rs) through cfg(iroh_verif) hooks:
//! * variant `o`: every socket is really bound, but on the loopback address of its family
//!   (hook `ip::set_loopback_binds`), so arbitrary configurations can be exercised; which
//!   socket was handed a datagram is read from the hook's log of `IpSender::poll_send` calls;
//! * variant `r`: sockets are bound to real 127.x.y.z / ::1 addresses and the datagrams are
//!   received by loopback listeners owned by this harness; the observed source address must
//!   be the chosen socket's;
//! * relay senders end in harness-owned queues, custom senders are recording stubs;
//! * `Q` ops drive the `Sender` QUIC uses, built over a real `Endpoint`'s socket state
//!   (closed flag, mapped-address tables, per-endpoint actor map).
//!
//! * variant `b`: the sockets come from the real BUILDER: `Endpoint::builder(..)` +
//!   `bind_addr_with_opts` per request (C20's request alphabet plus an address), then the real
//!   `Transports::bind` (hook `Builder::verif_bind_transports`, loopback binds) — built-in
//!   wildcard sockets, their suppression by user default routes, sorting, default index.
//!   payload `b|<req;req..|->|<ok4><ok6>|-|<P i ops>` with
//!   req `<4|6>,<addr hex>,<prefix u8>,<scope>,<flag u|t|f>,<required 0|1>,<bindok 0|1>`;
//!   `ok4`/`ok6`: does the built-in wildcard bind; output `reject:<dup|prefix>@<i>` when the
//!   builder refuses request i; built-in sockets have tags 900 (v4) / 901 (v6).
//!
//! payload: `<o|r>|<cfg;cfg..|->|<relay states|->|<custom senders|->|<op;op..>`
//!   cfg    `<4|6>,<addr hex>,<prefix>,<scope>,<default 0|1>,<required 0|1>,<bindok 0|1>`  (tag = index)
//!   relay  one char per relay sender: `o` open, `f` full (answers Pending), `c` closed (answers Err)
//!   custom `;`-separated `<a|e|d>:<o|p|e>` accepts all/even/odd keys : answers ok/pending/err
//!   op     `P i <4|6>:<dst hex>:<scope> <src fam:hex|->`   TransportsSender::poll_send, FourTuple::Ip
//!          `P r <key>` / `P c <key> <local key|->`          FourTuple::Relay / Custom
//!          `Q <closed 0|1> <dst> <scope> <src|->`           Sender::poll_send; dst/src are `4:hex`, `6:hex`
//!             or symbolic `R<key>`/`C<key>`/`E<key>` (mapped address registered for key) —
//!             replaced by the concrete address in the model input
//! output: `L4:<tags>/d<idx|->,L6:..;<op out>;..` or `binderr:<failed|dup4|dup6|prefix>`
//!   op out `<handed,..|->/<res>`  handed `ip:<tag>` `relay:<i>:<key>` `custom:<i>:<key>:<loc|->` `state:<key>`
//!          res: P → `ok|err|pending` (`*` when an IP socket was asked: the OS decides), Q → `ok|closed`
use std::net::{IpAddr, Ipv4Addr, Ipv6Addr, SocketAddr, SocketAddrV6, UdpSocket};
use std::sync::{Arc, Mutex};
use std::task::{Context, Poll};

use iroh::endpoint::transports::{CustomSender, FourTuple, Transmit};
use iroh::endpoint::{BindOpts, Endpoint, presets};
use iroh::verif_hooks::transports::{self as hk, SendHarness, SendPoll, ip::IpCfg};
use iroh_base::{CustomAddr, EndpointId, RelayUrl, SecretKey};
use vcommon::*;

const ULA: [u8; 6] = [0xfd, 0x15, 0x07, 0x0a, 0x51, 0x0b];

struct C19 {
    rt: tokio::runtime::Runtime,
    open_ep: Endpoint,
    closed_ep: Endpoint,
    listeners: Vec<UdpSocket>,
}

#[derive(Clone, Copy, Debug, PartialEq, Eq)]
struct Cfg {
    v6: bool,
    addr: u128,
    prefix: u8,
    scope: u32,
    default: bool,
    required: bool,
    bindok: bool,
}

fn ip_of(v6: bool, val: u128) -> IpAddr {
    if v6 { IpAddr::V6(Ipv6Addr::from(val)) } else { IpAddr::V4(Ipv4Addr::from(val as u32)) }
}
fn val_of(ip: IpAddr) -> (bool, u128) {
    match ip {
        IpAddr::V4(a) => (false, u32::from(a) as u128),
        IpAddr::V6(a) => (true, u128::from(a)),
    }
}
fn hexval(v6: bool, val: u128) -> String {
    if v6 { format!("{val:032x}") } else { format!("{val:08x}") }
}
fn parse_famhex(s: &str) -> (bool, u128) {
    let (f, h) = s.split_once(':').expect("fam:hex");
    (f == "6", u128::from_str_radix(h, 16).expect("hex"))
}

fn relay_key(k: u64) -> (RelayUrl, EndpointId) {
    (
        format!("https://relay{k}.test.").parse().unwrap(),
        SecretKey::from_bytes(&[(k as u8).wrapping_add(1); 32]).public(),
    )
}
fn custom_key(k: u64) -> CustomAddr {
    CustomAddr::from_parts(7, &k.to_be_bytes())
}
fn endpoint_key(k: u64) -> EndpointId {
    SecretKey::from_bytes(&[(k as u8).wrapping_add(101); 32]).public()
}

#[derive(Debug)]
struct StubCustom {
    idx: usize,
    accepts: char,
    answer: char,
    log: Arc<Mutex<Vec<(usize, CustomAddr, Option<CustomAddr>)>>>,
}
impl CustomSender for StubCustom {
    fn is_valid_send_addr(&self, addr: &CustomAddr) -> bool {
        let k = u64::from_be_bytes(addr.data().try_into().unwrap_or([0; 8]));
        match self.accepts {
            'a' => true,
            'e' => k % 2 == 0,
            _ => k % 2 == 1,
        }
    }
    fn poll_send(&self, _cx: &mut Context, dst: &CustomAddr, src: Option<&CustomAddr>, _t: &Transmit<'_>) -> Poll<std::io::Result<()>> {
        self.log.lock().unwrap().push((self.idx, dst.clone(), src.cloned()));
        match self.answer {
            'o' => Poll::Ready(Ok(())),
            'p' => Poll::Pending,
            _ => Poll::Ready(Err(std::io::Error::other("stub error"))),
        }
    }
}

/// `IpvXNet::contains`, computed on numbers (independent of ipnet and of the model).
fn prefix_contains(c: &Cfg, d: u128) -> bool {
    let bits = if c.v6 { 128 } else { 32 };
    let sh = bits - c.prefix as u32;
    if sh >= 128 { true } else { (d >> sh) == (c.addr >> sh) }
}

impl C19 {
    fn gen_cfgs(rng: &mut Rng, real: bool) -> Vec<Cfg> {
        let n = rng.range(0, 5) as usize;
        let mut out: Vec<Cfg> = Vec::new();
        let mut used_real: Vec<(bool, u128)> = Vec::new();
        for _ in 0..n {
            let v6 = if real { rng.chance(1, 6) } else { rng.chance(2, 5) };
            let bits: u64 = if v6 { 128 } else { 32 };
            let addr: u128 = if real {
                if v6 {
                    *rng.pick(&[0u128, 1])
                } else {
                    *rng.pick(&[0u128, 0x7f000001, 0x7f000002, 0x7f000003, 0x7f000102, 0x7f010101])
                }
            } else if v6 {
                match rng.below(6) {
                    0 => 0,
                    1 => 0xfe80_0000_0000_0000_0000_0000_0000_0001 + rng.below(3) as u128,
                    2 => 0x2001_0db8_0000_0000_0000_0000_0000_0000 + ((rng.below(4) as u128) << 64) + rng.below(3) as u128,
                    3 => 0xfd15_070a_510b_0001_0000_0000_0000_0005, // inside iroh's reserved ULA range
                    _ => ((rng.u64() as u128) << 64) | rng.u64() as u128,
                }
            } else {
                match rng.below(6) {
                    0 => 0,
                    1 => 0x0a000001 + (rng.below(3) as u128) * 0x100,
                    2 => 0xc0a80001 + (rng.below(3) as u128) * 0x10000,
                    3 => 0x7f000001,
                    _ => rng.u64() as u32 as u128,
                }
            };
            if real && used_real.contains(&(v6, addr)) {
                // real sockets are identified by their configuration: keep addresses distinct
                continue;
            }
            used_real.push((v6, addr));
            let prefix = match rng.below(8) {
                0 => 0,
                1 => bits,
                2 => bits - 1,
                3 => 1,
                4 => *rng.pick(&[8u64, 16, 24]),
                5 => if v6 { *rng.pick(&[10u64, 64, 48]) } else { 24 },
                _ => rng.range(0, bits),
            } as u8;
            let default = match rng.below(4) {
                0 => true,
                1 => prefix == 0,
                _ => false,
            };
            out.push(Cfg {
                v6,
                addr,
                prefix,
                scope: if v6 && !real { *rng.pick(&[0u32, 0, 2, 3]) } else { 0 },
                default,
                required: rng.chance(3, 4),
                bindok: real || !rng.chance(1, 10),
            });
        }
        out
    }

    fn gen_dst(rng: &mut Rng, cfgs: &[Cfg], v6: bool) -> (u128, u32) {
        // mostly near a configured subnet: same address with low / high bits flipped
        let same: Vec<&Cfg> = cfgs.iter().filter(|c| c.v6 == v6).collect();
        let bits = if v6 { 128 } else { 32 };
        let mut val = if !same.is_empty() && rng.chance(3, 4) {
            let c = *rng.pick(&same);
            let mut v = c.addr;
            match rng.below(4) {
                0 => {}
                1 => v ^= 1u128 << rng.below(bits.min(8)),
                2 => {
                    // flip the bit just inside / just outside the prefix
                    let p = c.prefix as u64;
                    let pos = if rng.bool() { p } else { p.saturating_sub(1) };
                    if pos < bits {
                        v ^= 1u128 << (bits - 1 - pos);
                    }
                }
                _ => v ^= (rng.u64() as u128) & 0xffff,
            }
            v
        } else if v6 {
            ((rng.u64() as u128) << 64) | rng.u64() as u128
        } else {
            rng.u64() as u32 as u128
        };
        let mut scope = 0;
        if v6 && rng.chance(1, 3) {
            val = 0xfe80_0000_0000_0000_0000_0000_0000_0000 | (val & 0xffff_ffff);
            if rng.chance(1, 8) {
                val ^= 1u128 << *rng.pick(&[118u32, 119, 127, 117]); // just outside fe80::/10
            }
            scope = *rng.pick(&[0u32, 2, 3, 9]);
        }
        (val, scope)
    }

    fn gen_builder_case(rng: &mut Rng) -> String {
        let n = rng.range(0, 5) as usize;
        let mut reqs: Vec<String> = Vec::new();
        let mut cfgs: Vec<Cfg> = Vec::new();
        for _ in 0..n {
            let v6 = rng.chance(2, 5);
            let bits: u64 = if v6 { 128 } else { 32 };
            let addr: u128 = if v6 {
                match rng.below(4) {
                    0 => 0,
                    1 => 0xfe80_0000_0000_0000_0000_0000_0000_0001 + rng.below(3) as u128,
                    _ => 0x2001_0db8_0000_0000_0000_0000_0000_0000 + ((rng.below(4) as u128) << 64) + rng.below(3) as u128,
                }
            } else {
                match rng.below(4) {
                    0 => 0,
                    1 => 0x0a000001 + (rng.below(3) as u128) * 0x100,
                    _ => 0xc0a80001 + (rng.below(3) as u128) * 0x10000,
                }
            };
            // C20's alphabet: prefix incl. the limits, flag unset / true / false, required
            let prefix = match rng.below(10) {
                0..=2 => 0,
                3 => bits,
                4 => bits + 1,
                5 => 255,
                6 => *rng.pick(&[8u64, 16, 24]),
                _ => rng.range(0, bits),
            };
            let flag = *rng.pick(&['u', 'u', 'f', 'f', 't']);
            let scope = if v6 { *rng.pick(&[0u32, 0, 2, 3]) } else { 0 };
            let required = rng.chance(3, 4);
            let bindok = !rng.chance(1, 10);
            reqs.push(format!("{},{},{},{},{},{},{}", if v6 { 6 } else { 4 }, hexval(v6, addr), prefix, scope, flag, required as u8, bindok as u8));
            cfgs.push(Cfg { v6, addr, prefix: prefix.min(bits) as u8, scope, default: false, required, bindok });
        }
        let ok = format!("{}{}", !rng.chance(1, 12) as u8, !rng.chance(1, 6) as u8);
        let mut ops: Vec<String> = Vec::new();
        for _ in 0..rng.range(1, 8) {
            let v6 = rng.chance(2, 5);
            let (dst, scope) = Self::gen_dst(rng, &cfgs, v6);
            let src = if rng.chance(2, 3) {
                "-".to_string()
            } else {
                let same: Vec<&Cfg> = cfgs.iter().filter(|c| c.v6 == v6).collect();
                let s = if !same.is_empty() && rng.chance(2, 3) { rng.pick(&same).addr } else { Self::gen_dst(rng, &cfgs, v6).0 };
                format!("{}:{}", if v6 { 6 } else { 4 }, hexval(v6, s))
            };
            ops.push(format!("P i {}:{}:{} {}", if v6 { 6 } else { 4 }, hexval(v6, dst), scope, src));
        }
        format!("b|{}|{}|-|{}", if reqs.is_empty() { "-".to_string() } else { reqs.join(";") }, ok, ops.join(";"))
    }

    fn gen_case(&self, rng: &mut Rng) -> String {
        if rng.chance(1, 3) {
            return Self::gen_builder_case(rng);
        }
        let real = rng.chance(1, 4);
        let cfgs = Self::gen_cfgs(rng, real);
        let cfg_s = if cfgs.is_empty() {
            "-".to_string()
        } else {
            cfgs.iter()
                .map(|c| format!("{},{},{},{},{},{},{}", if c.v6 { 6 } else { 4 }, hexval(c.v6, c.addr), c.prefix, c.scope, c.default as u8, c.required as u8, c.bindok as u8))
                .collect::<Vec<_>>()
                .join(";")
        };
        let relay: String = (0..rng.below(3)).map(|_| *rng.pick(&['o', 'o', 'f', 'c'])).collect();
        let custom: Vec<String> = (0..rng.below(4)).map(|_| format!("{}:{}", rng.pick(&['a', 'e', 'd']), rng.pick(&['o', 'p', 'e']))).collect();
        let mut ops: Vec<String> = Vec::new();
        for _ in 0..rng.range(1, 10) {
            let v6 = if real { rng.chance(1, 6) } else { rng.chance(2, 5) };
            let src = if rng.chance(1, 2) {
                "-".to_string()
            } else if real {
                let s = if v6 { 1u128 } else { *rng.pick(&[0x7f000001u128, 0x7f000002, 0x7f000003, 0x7f000102, 0x7f000009]) };
                format!("{}:{}", if v6 { 6 } else { 4 }, hexval(v6, s))
            } else {
                let sv6 = if rng.chance(1, 8) { !v6 } else { v6 };
                let same: Vec<&Cfg> = cfgs.iter().filter(|c| c.v6 == sv6).collect();
                let s = if !same.is_empty() && rng.chance(2, 3) { rng.pick(&same).addr } else { Self::gen_dst(rng, &cfgs, sv6).0 };
                format!("{}:{}", if sv6 { 6 } else { 4 }, hexval(sv6, s))
            };
            let (dst, scope) = if real {
                if v6 { (1u128, 0) } else { (*rng.pick(&[0x7f000009u128, 0x7f000109, 0x7f010109]), 0) }
            } else {
                Self::gen_dst(rng, &cfgs, v6)
            };
            match rng.below(10) {
                0..=4 => ops.push(format!("P i {}:{}:{} {}", if v6 { 6 } else { 4 }, hexval(v6, dst), scope, src)),
                5 => ops.push(format!("P r {}", rng.below(4))),
                6 => ops.push(format!("P c {} {}", rng.below(6), if rng.bool() { "-".to_string() } else { rng.below(6).to_string() })),
                _ => {
                    let closed = rng.chance(1, 8) as u8;
                    let d = match rng.below(12) {
                        0 => format!("R{}", rng.below(4)),
                        1 => format!("C{}", rng.below(6)),
                        2 => format!("E{}", rng.below(4)),
                        3 => {
                            // unknown mapped address of a random kind
                            let mut a = [0u8; 16];
                            a[..6].copy_from_slice(&ULA);
                            let sub: [u8; 2] = *rng.pick(&[[0u8, 0], [0, 1], [0, 3], [0, 2]]);
                            a[6..8].copy_from_slice(&sub);
                            a[8..].copy_from_slice(&rng.u64().to_be_bytes());
                            format!("6:{}", hex(&a))
                        }
                        4 if !v6 => format!("6:{:032x}", 0xffff_0000_0000u128 | dst), // v4-mapped
                        _ => format!("{}:{}", if v6 { 6 } else { 4 }, hexval(v6, dst)),
                    };
                    let s = if d.starts_with('C') && rng.bool() { format!("C{}", rng.below(6)) } else { src.clone() };
                    ops.push(format!("Q {closed} {d} {scope} {s}"));
                }
            }
        }
        format!("{}|{}|{}|{}|{}", if real { 'r' } else { 'o' }, cfg_s, if relay.is_empty() { "-".into() } else { relay }, if custom.is_empty() { "-".into() } else { custom.join(";") }, ops.join(";"))
    }

    /// Resolves a (possibly symbolic) address token into a concrete `fam:hex`.
    fn resolve(&self, ep: &Endpoint, tok: &str) -> String {
        let (kind, rest) = tok.split_at(1);
        let sa = match kind {
            "R" => {
                let (u, i) = relay_key(rest.parse().unwrap());
                hk::map_relay(ep, u, i)
            }
            "C" => hk::map_custom(ep, custom_key(rest.parse().unwrap())),
            "E" => hk::map_endpoint(ep, endpoint_key(rest.parse().unwrap())),
            _ => return tok.to_string(),
        };
        let (v6, val) = val_of(sa.ip());
        format!("{}:{}", if v6 { 6 } else { 4 }, hexval(v6, val))
    }
}

fn show_poll(p: SendPoll) -> &'static str {
    match p {
        SendPoll::Ok => "ok",
        SendPoll::Err(_) => "err",
        SendPoll::Pending => "pending",
    }
}

impl Prop for C19 {
    fn id(&self) -> &'static str {
        "C19"
    }

    fn generate(&mut self, rng: &mut Rng, _tier: Tier, n: usize, out: &mut Vec<String>) {
        // the repo's own sorting example (test_bind_sorting) + a destination per subnet
        out.push("o|4,7f000001,8,0,0,1,1;4,7f000001,24,0,1,1,1;4,7f000001,0,0,0,1,1|-|-|P i 4:7f000005:0 -;P i 4:7f010005:0 -;P i 4:0a000001:0 -;P i 4:0a000001:0 4:7f000001;P i 4:0a000001:0 4:0a000009".into());
        // link-local scope rule at the TransportsSender level and through Sender::poll_send
        out.push("o|6,20010db8000000000000000000000001,64,3,0,1,1;6,20010db8000100000000000000000001,64,2,0,1,1;6,00000000000000000000000000000000,0,0,1,1,1|-|-|P i 6:fe800000000000000000000000000001:3 -;P i 6:fe800000000000000000000000000001:2 -;P i 6:fe800000000000000000000000000001:9 -;Q 0 6:fe800000000000000000000000000001 3 -;Q 0 6:fe800000000000000000000000000001 2 -".into());
        // duplicate default, failing required / optional binds
        out.push("o|4,0a000001,24,0,1,1,1;4,0a000101,24,0,1,1,1|-|-|P i 4:0a000005:0 -".into());
        out.push("o|4,0a000001,24,0,0,1,0;4,0a000101,24,0,1,1,1|-|-|P i 4:0a000005:0 -".into());
        out.push("o|4,0a000001,24,0,0,0,0;4,0a000101,16,0,1,1,1|-|-|P i 4:0a000005:0 -;P i 4:0b000005:0 -".into());
        // mapped addresses: known / unknown / closed
        out.push("o|4,00000000,0,0,0,1,1|of|a:o;e:p|Q 0 R1 0 -;Q 0 C2 0 -;Q 0 C2 0 C4;Q 0 C3 0 -;Q 0 E1 0 -;Q 0 6:fd15070a510b00010000000000000042 0 -;Q 0 6:fd15070a510b00000000000000000042 0 -;Q 0 6:fd15070a510b00030000000000000042 0 -;Q 1 R1 0 -;Q 1 4:7f000001 0 -;Q 0 6:00000000000000000000ffff7f000001 0 -".into());
        // builder: no request (both wildcards), user default suppresses the wildcard of its family,
        // user /0 non-default next to the wildcard, optional default that fails to bind, rejections
        out.push("b|-|11|-|P i 4:0a000005:0 -;P i 6:20010db8000000000000000000000005:0 -".into());
        out.push("b|4,0a000001,24,0,u,1,1;4,c0a80001,16,0,t,1,1|11|-|P i 4:0a000005:0 -;P i 4:c0a80505:0 -;P i 4:08080808:0 -;P i 6:20010db8000000000000000000000005:0 -".into());
        out.push("b|4,0a000001,0,0,f,1,1;4,0a000101,24,0,u,1,1|11|-|P i 4:0a000105:0 -;P i 4:08080808:0 -;P i 4:08080808:0 4:0a000001".into());
        out.push("b|4,0a000001,0,0,u,0,0;6,20010db8000000000000000000000001,64,0,u,1,1|10|-|P i 4:08080808:0 -;P i 6:20010db8000000000000000000000005:0 -;P i 6:20010db9000000000000000000000005:0 -".into());
        out.push("b|4,0a000001,0,0,u,1,1;4,0a000101,24,0,t,1,1|11|-|P i 4:08080808:0 -".into());
        out.push("b|4,0a000001,33,0,f,1,1|11|-|P i 4:08080808:0 -".into());
        out.push("b|4,0a000001,24,0,f,1,1|01|-|P i 4:08080808:0 -".into());
        // real sockets
        out.push("r|4,7f000002,24,0,0,1,1;4,7f000003,16,0,0,1,1;4,00000000,0,0,1,1,1|-|-|P i 4:7f000009:0 -;P i 4:7f000109:0 -;P i 4:7f010109:0 -;P i 4:7f010109:0 4:7f000002;P i 4:7f000009:0 4:7f000009".into());
        while out.len() < n {
            let c = self.gen_case(rng);
            out.push(c);
        }
    }

    fn execute(&mut self, payload: &str) -> Exec {
        let _g = self.rt.enter();
        let mut ex = Exec::default();
        let parts: Vec<&str> = payload.split('|').collect();
        assert_eq!(parts.len(), 5, "payload sections");
        let real = parts[0] == "r";
        let builder_variant = parts[0] == "b";
        #[derive(Clone, Copy)]
        struct BReq {
            v6: bool,
            addr: u128,
            prefix: u8,
            scope: u32,
            flag: Option<bool>,
            required: bool,
            bindok: bool,
        }
        let breqs: Vec<BReq> = if !builder_variant || parts[1] == "-" {
            Vec::new()
        } else {
            parts[1]
                .split(';')
                .map(|c| {
                    let f: Vec<&str> = c.split(',').collect();
                    BReq {
                        v6: f[0] == "6",
                        addr: u128::from_str_radix(f[1], 16).unwrap(),
                        prefix: f[2].parse().unwrap(),
                        scope: f[3].parse().unwrap(),
                        flag: match f[4] {
                            "t" => Some(true),
                            "f" => Some(false),
                            _ => None,
                        },
                        required: f[5] == "1",
                        bindok: f[6] == "1",
                    }
                })
                .collect()
        };
        let cfgs: Vec<Cfg> = if builder_variant {
            // What the documentation of `bind_addr_with_opts` promises, as the oracle reads it:
            // user sockets as requested (default route = flag, or prefix 0 when unset), plus
            // the built-in wildcard of a family unless the user asked for a default route of
            // that family.  Slots 900 / 901 hold the wildcards; unused slots never bind.
            let absent = Cfg { v6: false, addr: 0, prefix: 0, scope: 0, default: false, required: false, bindok: false };
            let mut v = vec![absent; 902];
            let mut user_default = [false, false];
            for (i, r) in breqs.iter().enumerate() {
                let default = r.flag.unwrap_or(r.prefix == 0);
                user_default[r.v6 as usize] |= default;
                v[i] = Cfg { v6: r.v6, addr: r.addr, prefix: r.prefix, scope: r.scope, default, required: r.required, bindok: r.bindok };
            }
            let ok = parts[2].as_bytes();
            if !user_default[0] {
                v[900] = Cfg { v6: false, addr: 0, prefix: 0, scope: 0, default: false, required: true, bindok: ok[0] == b'1' };
            }
            if !user_default[1] {
                v[901] = Cfg { v6: true, addr: 0, prefix: 0, scope: 0, default: false, required: false, bindok: ok[1] == b'1' };
            }
            v
        } else if parts[1] == "-" {
            Vec::new()
        } else {
            parts[1]
                .split(';')
                .map(|c| {
                    let f: Vec<&str> = c.split(',').collect();
                    Cfg {
                        v6: f[0] == "6",
                        addr: u128::from_str_radix(f[1], 16).unwrap(),
                        prefix: f[2].parse().unwrap(),
                        scope: f[3].parse().unwrap(),
                        default: f[4] == "1",
                        required: f[5] == "1",
                        bindok: f[6] == "1",
                    }
                })
                .collect()
        };
        // resolve symbolic addresses first: the model input carries concrete addresses + the maps
        let mut maps: Vec<String> = Vec::new();
        let mut model_ops: Vec<String> = Vec::new();
        for op in parts[4].split(';') {
            let t: Vec<&str> = op.split_whitespace().collect();
            if t[0] == "Q" {
                let ep = if t[1] == "1" { &self.closed_ep } else { &self.open_ep };
                let mut t2: Vec<String> = t.iter().map(|s| s.to_string()).collect();
                for i in [2usize, 4] {
                    let tok = t[i];
                    let kind = &tok[..1];
                    if matches!(kind, "R" | "C" | "E") {
                        let conc = self.resolve(ep, tok);
                        let m = format!("{},{},{}", kind.to_lowercase(), &tok[1..], &conc[2..]);
                        if !maps.contains(&m) {
                            maps.push(m);
                        }
                        t2[i] = conc;
                    }
                }
                model_ops.push(t2.join(" "));
            } else {
                model_ops.push(op.to_string());
            }
        }
        ex.model_input = Some(format!(
            "{}|{}|{}|{}|{}|{}",
            parts[0],
            parts[1],
            parts[2],
            parts[3],
            if maps.is_empty() { "-".to_string() } else { maps.join(";") },
            model_ops.join(";")
        ));

        // --- bind ---
        let ipcfgs: Vec<IpCfg> = cfgs
            .iter()
            .enumerate()
            .map(|(i, c)| IpCfg {
                addr: if real && !c.bindok { IpAddr::V4(Ipv4Addr::new(192, 0, 2, 1)) } else { ip_of(c.v6, c.addr) },
                prefix_len: c.prefix,
                scope_id: c.scope,
                port: if real { 0 } else { 20000 + i as u16 },
                is_required: c.required,
                is_default: c.default,
            })
            .collect();
        let failing: Vec<u16> = cfgs.iter().enumerate().filter(|(_, c)| !c.bindok).map(|(i, _)| 20000 + i as u16).collect();
        hk::ip::set_loopback_binds(!real, &failing);
        let mut relay_handles = Vec::new();
        let mut relay_queues = Vec::new();
        if parts[2] != "-" {
            for ch in parts[2].chars() {
                let (h, mut q) = SendHarness::relay_sender(1);
                let (fu, fi) = relay_key(99);
                match ch {
                    'f' => {
                        q.fill(fu, fi);
                    }
                    'c' => q.close(),
                    _ => {}
                }
                relay_handles.push(h);
                relay_queues.push((ch, q));
            }
        }
        let custom_log = Arc::new(Mutex::new(Vec::new()));
        let mut customs: Vec<Arc<dyn CustomSender>> = Vec::new();
        if parts[3] != "-" {
            for (i, c) in parts[3].split(';').enumerate() {
                let b = c.as_bytes();
                customs.push(Arc::new(StubCustom { idx: i, accepts: b[0] as char, answer: b[2] as char, log: custom_log.clone() }));
            }
        }
        let bound = if builder_variant {
            // the real builder, request by request
            let mut builder = Some(Endpoint::builder(presets::Minimal));
            let mut rejected = None;
            for (i, r) in breqs.iter().enumerate() {
                let addr = match ip_of(r.v6, r.addr) {
                    IpAddr::V6(a) => SocketAddr::V6(SocketAddrV6::new(a, 20000 + i as u16, 0, r.scope)),
                    a => SocketAddr::new(a, 20000 + i as u16),
                };
                let mut opts = BindOpts::default().set_prefix_len(r.prefix).set_is_required(r.required);
                if let Some(f) = r.flag {
                    opts = opts.set_is_default_route(f);
                }
                match builder.take().unwrap().bind_addr_with_opts(addr, opts) {
                    Ok(b) => builder = Some(b),
                    Err(e) => {
                        let class = match e {
                            iroh::endpoint::InvalidSocketAddr::DuplicateDefaultAddr { .. } => "dup",
                            iroh::endpoint::InvalidSocketAddr::InvalidPrefixLength { .. } => "prefix",
                            _ => "other",
                        };
                        rejected = Some((class, i));
                        break;
                    }
                }
            }
            if let Some((class, i)) = rejected {
                hk::ip::set_loopback_binds(false, &[]);
                // oracle (C20's statement): rejected only for a second default route of a family
                // or an invalid prefix length
                let defaults = |v6: bool| breqs[..=i].iter().filter(|r| r.v6 == v6 && r.flag.unwrap_or(r.prefix == 0)).count();
                let legit = defaults(false) > 1 || defaults(true) > 1 || breqs[..=i].iter().any(|r| r.prefix as u32 > if r.v6 { 128 } else { 32 });
                if !legit {
                    ex.violation("spurious-reject", format!("request {i} rejected ({class})"));
                }
                ex.tags.push(format!("builder-reject-{class}"));
                ex.tags.push("variant-builder".into());
                ex.out = format!("reject:{class}@{i}");
                return ex;
            }
            let failing: Vec<u16> = breqs.iter().enumerate().filter(|(_, r)| !r.bindok).map(|(i, _)| 20000 + i as u16).collect();
            hk::ip::set_loopback_binds(true, &failing);
            let ok = parts[2].as_bytes();
            hk::ip::set_failing_wildcards(ok[0] != b'1', ok[1] != b'1');
            let res = builder.as_ref().unwrap().verif_bind_transports(&self.open_ep);
            hk::ip::set_failing_wildcards(false, false);
            res
        } else {
            SendHarness::bind(&ipcfgs, relay_handles, customs)
        };
        hk::ip::set_loopback_binds(false, &[]);
        let mut h = match bound {
            Ok(h) => h,
            Err(e) => {
                let msg = e.to_string();
                let class = if msg.contains("single IPv4") {
                    "dup4"
                } else if msg.contains("single IPv6") {
                    "dup6"
                } else if msg.contains("prefix") {
                    "prefix"
                } else {
                    "failed"
                };
                ex.tags.push(format!("binderr-{class}"));
                // oracle: an error is only legitimate for a duplicate default or a failing required bind
                let dup = |v6: bool| cfgs.iter().filter(|c| c.v6 == v6 && c.default && c.bindok).count() > 1;
                let legit = cfgs.iter().any(|c| !c.bindok && c.required) || dup(false) || dup(true) || cfgs.iter().any(|c| c.prefix as u32 > if c.v6 { 128 } else { 32 });
                if !legit {
                    ex.violation("spurious-bind-error", msg);
                }
                ex.out = format!("binderr:{class}");
                return ex;
            }
        };
        let (l4, l6) = h.layout();
        let tag_of = |cfg: &IpCfg| -> usize {
            if real {
                cfgs.iter().position(|c| c.bindok && ip_of(c.v6, c.addr) == cfg.addr && c.prefix == cfg.prefix_len && c.default == cfg.is_default && c.scope == cfg.scope_id).expect("socket of no config")
            } else if cfg.port == 0 {
                // the builder's built-in wildcard sockets
                if cfg.addr.is_ipv4() { 900 } else { 901 }
            } else {
                (cfg.port - 20000) as usize
            }
        };
        let mut outs: Vec<String> = Vec::new();
        let mut lay = Vec::new();
        for (name, l) in [("L4", &l4), ("L6", &l6)] {
            let tags: Vec<usize> = l.sockets.iter().map(|(c, _)| tag_of(c)).collect();
            // oracle: all successfully bound sockets of the family, prefix descending, stable, first default
            let want: Vec<usize> = {
                let mut v: Vec<usize> = cfgs.iter().enumerate().filter(|(_, c)| c.bindok && c.v6 == (name == "L6")).map(|(i, _)| i).collect();
                // the built-in wildcards are configured before every user socket
                v.sort_by_key(|i| *i < 900);
                v.sort_by_key(|i| std::cmp::Reverse(cfgs[*i].prefix)); // std's stable sort as reference
                v
            };
            if tags != want {
                ex.violation("bind-order", format!("{name}: {tags:?}, expected {want:?}"));
            }
            let want_def = tags.iter().position(|t| cfgs[*t].default);
            if l.default_index != want_def {
                ex.violation("default-index", format!("{name}: {:?}, expected {want_def:?}", l.default_index));
            }
            lay.push(format!(
                "{name}:{}/d{}",
                if tags.is_empty() { "-".to_string() } else { tags.iter().map(|t| t.to_string()).collect::<Vec<_>>().join(".") },
                l.default_index.map_or("-".to_string(), |i| i.to_string())
            ));
        }
        outs.push(lay.join(","));
        let order: Vec<usize> = l4.sockets.iter().chain(l6.sockets.iter()).map(|(c, _)| tag_of(c)).collect();
        let local_of = |tag: usize| -> SocketAddr { l4.sockets.iter().chain(l6.sockets.iter()).find(|(c, _)| tag_of(c) == tag).unwrap().1 };

        // --- ops ---
        let _ = hk::ip::take_send_log();
        let _ = hk::take_remote_state_log();
        for l in &self.listeners {
            let mut buf = [0u8; 64];
            while l.recv_from(&mut buf).is_ok() {}
        }
        let mut nontrivial = false;
        for (opi, op) in model_ops.iter().enumerate() {
            let t: Vec<&str> = op.split_whitespace().collect();
            let marker = [0xC1u8, 0x9, opi as u8, 0x55];
            let mut handed: Vec<String> = Vec::new();
            let res: String;
            // expectation of the property for an IP datagram, computed here
            let check_ip = |ex: &mut Exec, dst: (bool, u128), scope: u32, src: Option<(bool, u128)>, got: Option<usize>| {
                let fam: Vec<usize> = order.iter().copied().filter(|t| cfgs[*t].v6 == dst.0).collect();
                let default = fam.iter().copied().find(|t| cfgs[*t].default);
                match src {
                    Some(s) => {
                        let ok = |t: usize| cfgs[t].v6 == s.0 && (cfgs[t].addr == 0 || cfgs[t].addr == s.1);
                        let first = fam.iter().copied().find(|t| ok(*t));
                        let want = first.or(if s.0 == dst.0 { default } else { None });
                        if got != want {
                            ex.violation("src-route", format!("src {s:?} dst {dst:?}: socket {got:?}, expected {want:?}"));
                        }
                    }
                    None => {
                        let valid = |t: usize| {
                            let c = &cfgs[t];
                            prefix_contains(c, dst.1) || (c.v6 && (dst.1 >> 118) == 0x3fa && c.scope == scope)
                        };
                        let best = fam.iter().copied().filter(|t| valid(*t)).map(|t| cfgs[t].prefix).max();
                        match (best, got) {
                            (Some(p), Some(g)) => {
                                if !valid(g) || cfgs[g].prefix != p {
                                    ex.violation("nosrc-route", format!("dst {dst:?}%{scope}: socket {g} (prefix {}), longest valid prefix {p}", cfgs[g].prefix));
                                }
                            }
                            (Some(p), None) => ex.violation("nosrc-route", format!("dst {dst:?}: dropped although a /{p} socket contains it")),
                            (None, g) => {
                                if g != default {
                                    ex.violation("default-route", format!("dst {dst:?}: socket {g:?}, expected default {default:?}"));
                                }
                            }
                        }
                    }
                }
            };
            match (t[0], t[1]) {
                ("P", "i") => {
                    let f: Vec<&str> = t[2].split(':').collect();
                    let v6 = f[0] == "6";
                    let dval = u128::from_str_radix(f[1], 16).unwrap();
                    let scope: u32 = f[2].parse().unwrap();
                    let src = if t[3] == "-" { None } else { Some(parse_famhex(t[3])) };
                    let port = if real { self.listeners[0].local_addr().unwrap().port() } else { 9 };
                    let dst = match ip_of(v6, dval) {
                        IpAddr::V6(a) => SocketAddr::V6(SocketAddrV6::new(a, port, 0, scope)),
                        a => SocketAddr::new(a, port),
                    };
                    let path = FourTuple::Ip { remote: dst, local: src.map(|(f, v)| ip_of(f, v)) };
                    let r = h.poll_send_path(&path, &marker);
                    let log = hk::ip::take_send_log();
                    if log.len() > 1 {
                        ex.violation("multi-send", format!("{} sockets were handed one datagram", log.len()));
                    }
                    let got = log.first().map(|rec| tag_of(&rec.socket));
                    if let Some(rec) = log.first() {
                        handed.push(format!("ip:{}", tag_of(&rec.socket)));
                        if rec.dst != dst || rec.src != src.map(|(f, v)| ip_of(f, v)) {
                            ex.violation("ip-args", format!("socket was asked to send to {} from {:?}", rec.dst, rec.src));
                        }
                        nontrivial = true;
                    }
                    check_ip(&mut ex, (v6, dval), scope, src, got);
                    res = if got.is_some() { "*".into() } else { show_poll(r).into() };
                    ex.tags.push(match (got, src.is_some()) {
                        (Some(_), true) => "ip-src-routed",
                        (Some(_), false) => "ip-dst-routed",
                        (None, _) => "ip-dropped",
                    }.into());
                    if real && r == SendPoll::Ok {
                        if let Some(g) = got {
                            // which socket's datagram arrives at the listener?
                            let mut seen = None;
                            for _ in 0..200 {
                                for l in &self.listeners {
                                    let mut buf = [0u8; 64];
                                    if let Ok((n, from)) = l.recv_from(&mut buf) {
                                        if buf[..n] == marker {
                                            seen = Some(from);
                                        }
                                    }
                                }
                                if seen.is_some() {
                                    break;
                                }
                                std::thread::sleep(std::time::Duration::from_micros(200));
                            }
                            match seen {
                                Some(from) => {
                                    ex.tags.push("observed-on-listener".into());
                                    let la = local_of(g);
                                    // with an explicit source address the kernel uses that address
                                    // (IP_PKTINFO); the port still identifies the socket
                                    if from.port() != la.port() || (src.is_none() && !la.ip().is_unspecified() && from.ip() != la.ip()) {
                                        ex.violation("observed-source", format!("datagram arrived from {from}, chosen socket is bound to {la}"));
                                    }
                                }
                                None => ex.tags.push("not-observed".into()),
                            }
                        }
                    }
                }
                ("P", "r") => {
                    let key: u64 = t[2].parse().unwrap();
                    let (url, id) = relay_key(key);
                    let r = h.poll_send_path(&FourTuple::Relay { url: url.clone(), endpoint_id: id }, &marker);
                    for (i, (ch, q)) in relay_queues.iter_mut().enumerate() {
                        if *ch == 'o' {
                            for (u, d, c) in q.drain() {
                                handed.push(format!("relay:{i}:{key}"));
                                if u != url || d != id || c != marker {
                                    ex.violation("relay-exact", format!("relay sender {i} was given ({u}, {d}) instead of ({url}, {id})"));
                                }
                            }
                        } else if *ch == 'f' && q.len() != 1 {
                            ex.violation("relay-full", "a full relay queue changed".to_string());
                        }
                    }
                    if !hk::ip::take_send_log().is_empty() || !custom_log.lock().unwrap().is_empty() {
                        ex.violation("relay-exact", "a relay datagram reached another transport".to_string());
                    }
                    res = show_poll(r).into();
                    ex.tags.push("relay-path".into());
                    nontrivial |= !handed.is_empty();
                }
                ("P", "c") => {
                    let key: u64 = t[2].parse().unwrap();
                    let loc: Option<u64> = if t[3] == "-" { None } else { Some(t[3].parse().unwrap()) };
                    let r = h.poll_send_path(&FourTuple::Custom { remote: custom_key(key), local: loc.map(custom_key) }, &marker);
                    for (i, d, s) in custom_log.lock().unwrap().drain(..) {
                        handed.push(format!("custom:{i}:{key}:{}", loc.map_or("-".to_string(), |l| l.to_string())));
                        if d != custom_key(key) || s != loc.map(custom_key) {
                            ex.violation("custom-exact", format!("custom sender {i} was given {d} / {s:?}"));
                        }
                    }
                    if !hk::ip::take_send_log().is_empty() || relay_queues.iter().any(|(ch, q)| *ch == 'o' && !q.is_empty()) {
                        ex.violation("custom-exact", "a custom datagram reached another transport".to_string());
                    }
                    res = show_poll(r).into();
                    ex.tags.push("custom-path".into());
                    nontrivial |= !handed.is_empty();
                }
                ("Q", _) => {
                    let closed = t[1] == "1";
                    let ep = if closed { &self.closed_ep } else { &self.open_ep };
                    let (dv6, dval) = parse_famhex(t[2]);
                    let scope: u32 = t[3].parse().unwrap();
                    let src = if t[4] == "-" { None } else { Some(parse_famhex(t[4])) };
                    let dst = match ip_of(dv6, dval) {
                        IpAddr::V6(a) => SocketAddr::V6(SocketAddrV6::new(a, 9, 0, scope)),
                        a => SocketAddr::new(a, 9),
                    };
                    let r = h.poll_send_quic(ep, dst, src.map(|(f, v)| ip_of(f, v)), &marker);
                    let iplog = hk::ip::take_send_log();
                    for rec in &iplog {
                        handed.push(format!("ip:{}", tag_of(&rec.socket)));
                    }
                    let mut relay_got = Vec::new();
                    for (i, (ch, q)) in relay_queues.iter_mut().enumerate() {
                        if *ch == 'o' {
                            for (u, d, _) in q.drain() {
                                let key = (0..8u64).find(|k| relay_key(*k) == (u.clone(), d));
                                handed.push(format!("relay:{i}:{}", key.map_or("?".to_string(), |k| k.to_string())));
                                relay_got.push(key);
                            }
                        }
                    }
                    let mut custom_got = Vec::new();
                    for (i, d, s) in custom_log.lock().unwrap().drain(..) {
                        let key = (0..8u64).find(|k| custom_key(*k) == d);
                        let loc = s.as_ref().and_then(|s| (0..8u64).find(|k| custom_key(*k) == *s));
                        handed.push(format!("custom:{i}:{}:{}", key.map_or("?".to_string(), |k| k.to_string()), loc.map_or("-".to_string(), |l| l.to_string())));
                        custom_got.push(key);
                    }
                    let state = hk::take_remote_state_log();
                    for (id, _) in &state {
                        let key = (0..8u64).find(|k| endpoint_key(*k) == *id);
                        handed.push(format!("state:{}", key.map_or("?".to_string(), |k| k.to_string())));
                    }
                    res = match r {
                        SendPoll::Ok => "ok".into(),
                        SendPoll::Err(std::io::ErrorKind::NotConnected) => "closed".into(),
                        other => format!("{other:?}"),
                    };
                    // oracle, from the property text: what does the destination designate?
                    let sym = payload.split('|').nth(4).unwrap().split(';').nth(opi).unwrap().split_whitespace().nth(2).unwrap().to_string();
                    let o = Ipv6Addr::from(dval).octets();
                    let reserved = dv6 && o[..6] == ULA && matches!([o[6], o[7]], [0, 0] | [0, 1] | [0, 3]);
                    if closed {
                        if res != "closed" || !handed.is_empty() {
                            ex.violation("closed", format!("closed endpoint: {res}, handed {handed:?}"));
                        }
                        ex.tags.push("quic-closed".into());
                    } else if res != "ok" {
                        ex.violation("fatal-error", format!("open endpoint reported {res} for {dst}"));
                    } else if let Some(k) = sym.strip_prefix('R') {
                        let k: u64 = k.parse().unwrap();
                        if !iplog.is_empty() || !custom_got.is_empty() || !state.is_empty() || relay_got.iter().any(|g| *g != Some(k)) {
                            ex.violation("relay-exact", format!("relay path {k}: handed {handed:?}"));
                        }
                        ex.tags.push("quic-relay".into());
                    } else if let Some(k) = sym.strip_prefix('C') {
                        let k: u64 = k.parse().unwrap();
                        if !iplog.is_empty() || !relay_got.is_empty() || !state.is_empty() || custom_got.iter().any(|g| *g != Some(k)) {
                            ex.violation("custom-exact", format!("custom address {k}: handed {handed:?}"));
                        }
                        ex.tags.push("quic-custom".into());
                    } else if let Some(k) = sym.strip_prefix('E') {
                        let k: u64 = k.parse().unwrap();
                        if handed != vec![format!("state:{k}")] {
                            ex.violation("endpoint-state", format!("endpoint {k}: handed {handed:?}"));
                        }
                        ex.tags.push("quic-endpoint".into());
                    } else if reserved {
                        if !handed.is_empty() {
                            ex.violation("unknown-not-dropped", format!("unknown synthetic address {dst}: handed {handed:?}"));
                        }
                        ex.tags.push("quic-unknown-dropped".into());
                    } else {
                        // plain IP: same routing as above, on the canonical destination
                        let (cv6, cval) = val_of(ip_of(dv6, dval).to_canonical());
                        if iplog.len() > 1 || !relay_got.is_empty() || !custom_got.is_empty() || !state.is_empty() {
                            ex.violation("ip-exact", format!("ip destination {dst}: handed {handed:?}"));
                        }
                        check_ip(&mut ex, (cv6, cval), scope, src, iplog.first().map(|rec| tag_of(&rec.socket)));
                        ex.tags.push("quic-ip".into());
                    }
                    nontrivial |= !handed.is_empty();
                }
                other => panic!("bad op {other:?}"),
            }
            outs.push(format!("{}/{}", if handed.is_empty() { "-".to_string() } else { handed.join(",") }, res));
        }
        ex.out = outs.join(";");
        ex.nontrivial = nontrivial;
        ex.tags.push(if builder_variant { "variant-builder".into() } else if real { "variant-real-sockets".into() } else { "variant-loopback-override".into() });
        if builder_variant {
            let t4 = order.contains(&900);
            let t6 = order.contains(&901);
            ex.tags.push(format!("builder-wildcards-{}{}", t4 as u8, t6 as u8));
        }
        ex
    }
}

fn main() {
    let rt = tokio::runtime::Builder::new_multi_thread().worker_threads(2).enable_all().build().unwrap();
    let (open_ep, closed_ep) = rt.block_on(async {
        let a = Endpoint::builder(presets::Minimal).bind().await.expect("bind endpoint");
        let b = Endpoint::builder(presets::Minimal).bind().await.expect("bind endpoint");
        b.close().await;
        (a, b)
    });
    let mut listeners = Vec::new();
    let port = {
        let l = UdpSocket::bind("127.0.0.9:0").expect("listener");
        let p = l.local_addr().unwrap().port();
        l.set_nonblocking(true).unwrap();
        listeners.push(l);
        p
    };
    for a in ["127.0.1.9", "127.1.1.9", "::1"] {
        let addr: SocketAddr = if a.contains(':') { format!("[{a}]:{port}") } else { format!("{a}:{port}") }.parse().unwrap();
        if let Ok(l) = UdpSocket::bind(addr) {
            l.set_nonblocking(true).unwrap();
            listeners.push(l);
        }
    }
    run(C19 { rt, open_ep, closed_ep, listeners });
}
