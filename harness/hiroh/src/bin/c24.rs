//! C24 — path selection prefers primary paths and resists flapping.
//!
//! payload: `cur=<addr|-> <addr>:<rtt> <addr>:<rtt> …`   (paths in iteration order, maybe none)
//!          addr  `<kind><id>`: kind `f` IPv4 | `s` IPv6 | `r` relay | `c` custom transport,
//!                id decimal — distinct tokens are distinct network paths (FourTuples)
//!          rtt   round-trip time of the path's statistics in ns, or `x` = statistics unreadable
//! output : `none` (empty selection: the current path is kept) | `sel=<addr>`
//!
//! composed with pruning (C24 ∘ C23):
//! payload: `world cur=<addr|-> | <addr>:<status> … | <addr>:<rtt> …`  (sections may be `-`)
//!          second section: the remote's path set, status `o` open | `k` unknown | `u` unusable |
//!          `i<t>` inactive closed at t µs (addresses with id < 1000; an id ≥ 1000 in the third
//!          section is the same remote address seen from another local address)
//!          third section: the selector's candidates (paths of live connections)
//! model input: the same with the path set in the real map's iteration order
//! output : `selA=<addr|none> selB=<addr|none> kept=<key>,<key>,…|-`
//!          selA: selection on the candidates whose remote is in the path set, before pruning;
//!          selB: the same after the real `prune_paths`; kept: surviving path-set keys
//!          (kind index · 1000 + id), ascending
//!
//! Runs the real `BiasedRttPathSelector::default().select(..)` on a synthetic
//! `PathSelectionContext` through `iroh::verif_hooks::path_selector::select_default`.
use std::{
    net::{IpAddr, Ipv4Addr, Ipv6Addr, SocketAddr},
    time::Duration,
};

use iroh::{
    endpoint::transports::{Addr, FourTuple},
    verif_hooks::{
        path_selector::select_default,
        path_state::{PathSet, Status},
    },
};
use iroh_base::{CustomAddr, EndpointId, RelayUrl, SecretKey};
use vcommon::*;

struct C24 {
    relay_peer: EndpointId,
}

#[derive(Clone, Copy, Debug, PartialEq, Eq, Hash, PartialOrd, Ord)]
enum Kind {
    V4,
    V6,
    Relay,
    Custom,
}

#[derive(Clone, Copy, Debug, PartialEq, Eq, Hash, PartialOrd, Ord)]
struct A {
    kind: Kind,
    id: u32,
}

fn parse_addr(s: &str) -> A {
    let kind = match &s[..1] {
        "f" => Kind::V4,
        "s" => Kind::V6,
        "r" => Kind::Relay,
        "c" => Kind::Custom,
        _ => panic!("bad kind in {s}"),
    };
    A { kind, id: s[1..].parse().expect("id") }
}

fn show_addr(a: &A) -> String {
    let k = match a.kind {
        Kind::V4 => "f",
        Kind::V6 => "s",
        Kind::Relay => "r",
        Kind::Custom => "c",
    };
    format!("{k}{}", a.id)
}

fn parse(payload: &str) -> (Option<A>, Vec<(A, Option<u64>)>) {
    let mut toks = payload.split(' ');
    let cur = toks.next().expect("cur").strip_prefix("cur=").expect("cur=");
    let cur = if cur == "-" { None } else { Some(parse_addr(cur)) };
    let paths = toks
        .map(|t| {
            let (a, r) = t.split_once(':').expect("addr:rtt");
            (parse_addr(a), if r == "x" { None } else { Some(r.parse().expect("rtt")) })
        })
        .collect();
    (cur, paths)
}

fn show(cur: Option<A>, paths: &[(A, Option<u64>)]) -> String {
    let mut s = format!("cur={}", cur.map(|a| show_addr(&a)).unwrap_or("-".into()));
    for (a, r) in paths {
        s.push(' ');
        s.push_str(&show_addr(a));
        s.push(':');
        match r {
            Some(r) => s.push_str(&r.to_string()),
            None => s.push('x'),
        }
    }
    s
}

impl C24 {
    /// Injective map from tokens to network paths.  Ids ≥ 1000 of the IP kinds reuse the
    /// remote address of id − 1000 with a known local address (a different FourTuple).
    fn tuple(&self, a: A) -> FourTuple {
        let port = (a.id % 1000) as u16 + 1;
        match a.kind {
            Kind::V4 => {
                let remote = SocketAddr::new(Ipv4Addr::new(10, 0, 0, 1).into(), port);
                if a.id >= 1000 {
                    FourTuple::Ip { remote, local: Some(IpAddr::V4(Ipv4Addr::new(10, 9, (a.id / 1000) as u8, 9))) }
                } else {
                    FourTuple::from_remote(Addr::Ip(remote))
                }
            }
            Kind::V6 => {
                let remote = SocketAddr::new(Ipv6Addr::new(0xfd00, 0, 0, 0, 0, 0, 0, 1).into(), port);
                if a.id >= 1000 {
                    FourTuple::Ip {
                        remote,
                        local: Some(IpAddr::V6(Ipv6Addr::new(0xfd00, 0, 0, 0, 0, 0, (a.id / 1000) as u16, 9))),
                    }
                } else {
                    FourTuple::from_remote(Addr::Ip(remote))
                }
            }
            Kind::Relay => {
                let url: RelayUrl = format!("https://relay{}.iroh.test", a.id).parse().expect("url");
                FourTuple::from_remote(Addr::Relay(url, self.relay_peer))
            }
            Kind::Custom => {
                // transport id varies with the address id: every custom kind is unconfigured
                let s = format!("{:x}_{:08x}", 7 + (a.id % 3), a.id);
                FourTuple::from_remote(Addr::Custom(s.parse::<CustomAddr>().expect("custom")))
            }
        }
    }
}

const MS: i128 = 1_000_000;

/// The statement's notion of the biased RTT: IPv6 is credited 3 ms.
fn biased(a: &A, rtt: u64) -> i128 {
    rtt as i128 - if a.kind == Kind::V6 { 3 * MS } else { 0 }
}
fn is_primary(a: &A) -> bool {
    a.kind != Kind::Relay
}

fn pick_kind(rng: &mut Rng) -> Kind {
    match rng.below(10) {
        0..=3 => Kind::V4,
        4..=6 => Kind::V6,
        7..=8 => Kind::Relay,
        _ => Kind::Custom,
    }
}


#[derive(Clone, Copy, Debug, PartialEq, Eq)]
enum St {
    Open,
    Unknown,
    Unusable,
    Inactive(u64),
}

fn show_st(st: &St) -> String {
    match st {
        St::Open => "o".into(),
        St::Unknown => "k".into(),
        St::Unusable => "u".into(),
        St::Inactive(t) => format!("i{t}"),
    }
}

fn parse_st(s: &str) -> St {
    match s {
        "o" => St::Open,
        "k" => St::Unknown,
        "u" => St::Unusable,
        s if s.starts_with('i') => St::Inactive(s[1..].parse().expect("time")),
        _ => panic!("bad status {s}"),
    }
}

/// Key of a network path's remote address in the path set.
fn remote_key(a: &A) -> u32 {
    (match a.kind {
        Kind::V4 => 0,
        Kind::V6 => 1,
        Kind::Relay => 2,
        Kind::Custom => 3,
    }) * 1000
        + a.id % 1000
}

struct World {
    cur: Option<A>,
    paths: Vec<(A, St)>,
    cands: Vec<(A, Option<u64>)>,
}

fn parse_world(payload: &str) -> World {
    let secs: Vec<&str> = payload.split(" | ").collect();
    assert_eq!(secs.len(), 3, "world needs three sections");
    let cur = secs[0].strip_prefix("world cur=").expect("world cur=");
    let cur = if cur == "-" { None } else { Some(parse_addr(cur)) };
    let paths = if secs[1] == "-" {
        Vec::new()
    } else {
        secs[1]
            .split(' ')
            .map(|t| {
                let (a, st) = t.split_once(':').expect("addr:status");
                (parse_addr(a), parse_st(st))
            })
            .collect()
    };
    let cands = if secs[2] == "-" {
        Vec::new()
    } else {
        secs[2]
            .split(' ')
            .map(|t| {
                let (a, r) = t.split_once(':').expect("addr:rtt");
                (parse_addr(a), if r == "x" { None } else { Some(r.parse().expect("rtt")) })
            })
            .collect()
    };
    World { cur, paths, cands }
}

fn show_world(w: &World) -> String {
    let ps = if w.paths.is_empty() {
        "-".to_string()
    } else {
        w.paths.iter().map(|(a, st)| format!("{}:{}", show_addr(a), show_st(st))).collect::<Vec<_>>().join(" ")
    };
    let cs = show(None, &w.cands);
    let cs = cs.strip_prefix("cur=-").unwrap().trim_start();
    format!(
        "world cur={} | {} | {}",
        w.cur.map(|a| show_addr(&a)).unwrap_or("-".into()),
        ps,
        if cs.is_empty() { "-" } else { cs }
    )
}

/// A world around the pruning threshold: `failed`/`inactive`/`unknown` non-relay entries plus
/// the candidates' own entries (open when `linked`).
fn gen_world(rng: &mut Rng, failed: usize, inactive: usize, unknown: usize, n_cands: usize, linked: bool) -> String {
    let ms = 1_000_000u64;
    let mut paths: Vec<(A, St)> = Vec::new();
    let mut id = 10u32;
    let mut fresh = |rng: &mut Rng| {
        id += 1;
        let kind = match rng.below(6) {
            0 => Kind::V6,
            1 => Kind::Custom,
            _ => Kind::V4,
        };
        A { kind, id }
    };
    for _ in 0..failed {
        let a = fresh(rng);
        paths.push((a, St::Unusable));
    }
    let tie = rng.chance(1, 3);
    for _ in 0..inactive {
        let a = fresh(rng);
        paths.push((a, St::Inactive(if tie { rng.below(3) } else { rng.below(1_000_000) })));
    }
    for _ in 0..unknown {
        let a = fresh(rng);
        paths.push((a, St::Unknown));
    }
    // candidates: a few addresses (ids 0..3), possibly seen from a second local address, a relay
    let mut cand_addrs: Vec<A> = Vec::new();
    for i in 0..n_cands {
        let kind = if i == 0 && rng.chance(1, 3) { Kind::Relay } else { pick_kind(rng) };
        let a = A { kind, id: i as u32 % 4 };
        if !cand_addrs.iter().any(|b| remote_key(b) == remote_key(&a)) {
            cand_addrs.push(a);
        }
    }
    for a in &cand_addrs {
        let st = if linked {
            St::Open
        } else {
            match rng.below(4) {
                0 => St::Inactive(rng.below(1_000_000)),
                1 => St::Unusable,
                2 => St::Unknown,
                _ => St::Open,
            }
        };
        // an unlinked candidate may also be missing from the path set altogether
        if linked || !rng.chance(1, 5) {
            paths.push((*a, st));
        }
    }
    rng.shuffle(&mut paths);
    let base = rng.range(ms, 100 * ms);
    let mut cands: Vec<(A, Option<u64>)> = Vec::new();
    for a in &cand_addrs {
        let copies = 1 + rng.below(2);
        for c in 0..copies {
            let mut b = *a;
            if c == 1 && matches!(b.kind, Kind::V4 | Kind::V6) {
                b.id += 1000; // same remote, other local address
            }
            let rtt = if rng.chance(1, 8) {
                None
            } else {
                Some((base as i64 + *rng.pick(&[0i64, 1, -1, 3, -3, 5, -5, 8, -8]) * ms as i64 + *rng.pick(&[0i64, 1, -1])).max(0) as u64)
            };
            cands.push((b, rtt));
        }
    }
    rng.shuffle(&mut cands);
    let cur = match rng.below(4) {
        0 => None,
        1 => Some(A { kind: Kind::V4, id: 77 }),
        _ if !cands.is_empty() => Some(rng.pick(&cands).0),
        _ => None,
    };
    show_world(&World { cur, paths, cands })
}

impl C24 {
    fn select_tokens(&self, cur: Option<A>, cands: &[(A, Option<u64>)]) -> Option<A> {
        let cur_t = cur.map(|a| self.tuple(a));
        let data: Vec<(FourTuple, Option<Duration>)> =
            cands.iter().map(|(a, r)| (self.tuple(*a), r.map(Duration::from_nanos))).collect();
        let sel_t = select_default(cur_t.as_ref(), &data);
        sel_t.as_ref().map(|t| *cands.iter().map(|c| &c.0).find(|a| self.tuple(**a) == *t).expect("selected token"))
    }

    fn build_set(&self, paths: &[(A, St)]) -> PathSet {
        let mut set = PathSet::new();
        for (a, st) in paths {
            let status = match st {
                St::Open => Status::Open,
                St::Unknown => Status::Unknown,
                St::Unusable => Status::Unusable,
                St::Inactive(t) => Status::Inactive(Duration::from_micros(*t)),
            };
            set.set_path(self.tuple(*a).remote(), status);
        }
        set
    }

    fn execute_world(&mut self, payload: &str) -> Exec {
        let w = parse_world(payload);
        // path-set addresses must be plain remotes with pairwise distinct keys
        let mut keys: Vec<u32> = w.paths.iter().map(|(a, _)| remote_key(a)).collect();
        keys.sort();
        keys.dedup();
        if keys.len() != w.paths.len() || w.paths.iter().any(|(a, _)| a.id >= 1000) {
            return Exec::new("bad-input").tag("bad-input");
        }
        let token_of = |addr: &Addr| -> A {
            w.paths.iter().map(|p| p.0).find(|a| self.tuple(*a).remote() == *addr).expect("path-set entry without token")
        };
        let st_of = |s: Status| match s {
            Status::Open => St::Open,
            Status::Unknown => St::Unknown,
            Status::Unusable => St::Unusable,
            Status::Inactive(d) => St::Inactive(d.as_micros() as u64),
        };
        let visible = |set: &PathSet| -> Vec<(A, Option<u64>)> {
            let known: Vec<Addr> = set.paths().into_iter().map(|p| p.0).collect();
            w.cands.iter().filter(|(a, _)| known.contains(&self.tuple(*a).remote())).cloned().collect()
        };
        // order A: select, then prune
        let mut set_a = self.build_set(&w.paths);
        let before: Vec<(A, St)> = set_a.paths().into_iter().map(|(addr, s)| (token_of(&addr), st_of(s))).collect();
        let sel_a = self.select_tokens(w.cur, &visible(&set_a));
        set_a.prune();
        let mut kept_a: Vec<u32> = set_a.paths().iter().map(|(addr, _)| remote_key(&token_of(addr))).collect();
        kept_a.sort();
        // order B: prune, then select
        let mut set_b = self.build_set(&w.paths);
        set_b.prune();
        let sel_b = self.select_tokens(w.cur, &visible(&set_b));
        let mut kept_b: Vec<u32> = set_b.paths().iter().map(|(addr, _)| remote_key(&token_of(addr))).collect();
        kept_b.sort();

        let show_sel = |s: &Option<A>| s.map(|a| show_addr(&a)).unwrap_or("none".into());
        let kept_s = if kept_a.is_empty() { "-".to_string() } else { kept_a.iter().map(|k| k.to_string()).collect::<Vec<_>>().join(",") };
        let mut ex = Exec::new(format!("selA={} selB={} kept={}", show_sel(&sel_a), show_sel(&sel_b), kept_s));
        ex.model_input = Some(show_world(&World { cur: w.cur, paths: before.clone(), cands: w.cands.clone() }));

        // ---------------- oracle ----------------
        if kept_a != kept_b {
            ex.violation("prune-not-deterministic", "two identical path sets pruned differently");
        }
        let open_keys: Vec<u32> = w.paths.iter().filter(|(_, st)| *st == St::Open).map(|(a, _)| remote_key(a)).collect();
        let linked = w.cands.iter().all(|(a, _)| open_keys.contains(&remote_key(a)));
        for k in &open_keys {
            if !kept_a.contains(k) {
                ex.violation("open-path-pruned", format!("open entry {k} removed"));
                break;
            }
        }
        if linked {
            if sel_a != sel_b {
                ex.violation("prune-changed-selection", format!("before {} after {}", show_sel(&sel_a), show_sel(&sel_b)));
            }
            if sel_a != self.select_tokens(w.cur, &w.cands) {
                ex.violation("visible-differs-from-candidates", "a linked candidate is not visible");
            }
            if let Some(a) = &sel_a {
                if !kept_a.contains(&remote_key(a)) {
                    ex.violation("selected-pruned", format!("{} selected but its entry was pruned", show_addr(a)));
                }
            }
            if !w.cands.is_empty() && kept_a.is_empty() {
                ex.violation("emptied-with-candidates", "path set emptied although connections have open paths");
            }
        }
        let non_relay = w.paths.iter().filter(|(a, _)| a.kind != Kind::Relay).count();
        let n_inactive = w.paths.iter().filter(|(a, st)| a.kind != Kind::Relay && matches!(st, St::Inactive(_))).count();
        ex.nontrivial = non_relay >= 30 && !w.cands.is_empty();
        ex.tags.push("world".into());
        ex.tags.push(if linked { "world-linked".into() } else { "world-unlinked".into() });
        if non_relay >= 30 {
            ex.tags.push("world-pruning".into());
            if (1..=10).contains(&n_inactive) && w.paths.iter().all(|(a, st)| *st == St::Open || (a.kind != Kind::Relay && matches!(st, St::Unusable | St::Inactive(_)))) {
                ex.tags.push("world-everything-else-pruned".into());
            }
        }
        if sel_a != sel_b {
            ex.tags.push("world-selection-changed".into());
        }
        ex
    }
}

impl Prop for C24 {
    fn id(&self) -> &'static str {
        "C24"
    }

    fn generate(&mut self, rng: &mut Rng, _tier: Tier, n: usize, out: &mut Vec<String>) {
        let ms = 1_000_000u64;
        let f1 = A { kind: Kind::V4, id: 1 };
        let f2 = A { kind: Kind::V4, id: 2 };
        let s1 = A { kind: Kind::V6, id: 1 };
        let r1 = A { kind: Kind::Relay, id: 1 };
        // the repo's own unit tests
        out.push(show(None, &[]));
        out.push(show(Some(f1), &[]));
        out.push(show(None, &[(f1, Some(10 * ms)), (s1, Some(10 * ms))]));
        out.push(show(None, &[(f1, Some(10 * ms)), (s1, Some(12 * ms))]));
        out.push(show(None, &[(f1, Some(10 * ms)), (s1, Some(20 * ms))]));
        out.push(show(None, &[(f1, Some(100 * ms)), (r1, Some(10 * ms))]));
        out.push(show(None, &[(f1, Some(1000 * ms)), (r1, Some(ms))]));
        for d in [18, 16, 15, 14] {
            out.push(show(Some(f1), &[(f1, Some(20 * ms)), (f2, Some(d * ms))]));
        }
        out.push(show(None, &[(f1, Some(20 * ms)), (f2, Some(10 * ms))]));
        // exact boundaries of the 5 ms hysteresis and the 3 ms IPv6 credit, ±1 ns, both orders,
        // every kind pair
        let kinds = [Kind::V4, Kind::V6, Kind::Relay, Kind::Custom];
        for &ka in &kinds {
            for &kb in &kinds {
                let a = A { kind: ka, id: 1 };
                let b = A { kind: kb, id: 2 };
                for base in [20 * ms, 3 * ms, 0] {
                    for off in [0i64, 2, 3, 5, 8] {
                        for eps in [-1i64, 0, 1] {
                            for sign in [-1i64, 1] {
                                let rb = base as i64 + sign * (off * ms as i64) + eps;
                                if rb < 0 {
                                    continue;
                                }
                                let pa = (a, Some(base));
                                let pb = (b, Some(rb as u64));
                                out.push(show(Some(a), &[pa, pb]));
                                out.push(show(Some(a), &[pb, pa]));
                                out.push(show(None, &[pa, pb]));
                            }
                        }
                    }
                }
            }
        }
        // extremes of the RTT range
        out.push(show(Some(f1), &[(f1, Some(u64::MAX)), (f2, Some(0)), (s1, Some(0))]));
        out.push(show(Some(s1), &[(s1, Some(0)), (f2, Some(0)), (r1, Some(u64::MAX))]));
        // composed with pruning: the C23 finding class (everything but the open paths is pruned),
        // the thresholds, and unlinked candidates
        for inactive in [0usize, 1, 5, 10, 11, 15, 20, 25] {
            for failed in [0usize, 19, 29, 30] {
                for n_cands in [1usize, 2, 4] {
                    out.push(gen_world(rng, failed, inactive, 0, n_cands, true));
                }
                out.push(gen_world(rng, failed, inactive, 3, 2, true));
                out.push(gen_world(rng, failed, inactive, 0, 3, false));
            }
        }
        out.push("world cur=- | - | -".into());
        out.push("world cur=f1 | - | f1:1000000".into());
        let n_worlds = n / 3;
        let target = out.len() + n_worlds;
        while out.len() < target.min(n) {
            let failed = rng.range(0, 35) as usize;
            let inactive = match rng.below(3) {
                0 => rng.range(0, 10) as usize,
                _ => rng.range(0, 30) as usize,
            };
            let unknown = if rng.chance(1, 3) { rng.range(0, 6) as usize } else { 0 };
            let n_cands = rng.range(0, 4) as usize;
            let linked = !rng.chance(1, 5);
            out.push(gen_world(rng, failed, inactive, unknown, n_cands, linked));
        }
        // random lists ≤ 8 with duplicates across connections, missing stats, clustered RTTs
        while out.len() < n {
            let len = rng.range(0, 8) as usize;
            let n_addrs = rng.range(1, 5) as usize;
            let addrs: Vec<A> = (0..n_addrs)
                .map(|i| {
                    let kind = pick_kind(rng);
                    let id = if rng.chance(1, 8) && kind != Kind::Relay && kind != Kind::Custom {
                        1000 + (i as u32 % 2)
                    } else {
                        i as u32 % 3
                    };
                    A { kind, id }
                })
                .collect();
            let base = match rng.below(4) {
                0 => rng.range(0, 6 * ms),
                _ => rng.range(ms, 200 * ms),
            };
            let mut paths = Vec::new();
            for _ in 0..len {
                let a = *rng.pick(&addrs);
                let rtt = if rng.chance(1, 6) {
                    None
                } else {
                    let off = *rng.pick(&[0i64, 0, 1, 2, 3, 3, 5, 5, 8, 10, 13]) * ms as i64;
                    let eps = *rng.pick(&[0i64, 0, 1, -1, 2, -2]);
                    let sign = if rng.bool() { 1 } else { -1 };
                    let v = if rng.chance(1, 10) {
                        rng.range(0, 400 * ms) as i64
                    } else {
                        base as i64 + sign * off + eps
                    };
                    Some(v.max(0) as u64)
                };
                paths.push((a, rtt));
            }
            let cur = match rng.below(6) {
                0 => None,
                1 => Some(A { kind: pick_kind(rng), id: 77 }), // not among the paths
                _ => Some(*rng.pick(&addrs)),
            };
            out.push(show(cur, &paths));
        }
    }

    fn execute(&mut self, payload: &str) -> Exec {
        if payload.starts_with("world ") {
            return self.execute_world(payload);
        }
        let (cur, paths) = parse(payload);
        let cur_t = cur.map(|a| self.tuple(a));
        let data: Vec<(FourTuple, Option<Duration>)> =
            paths.iter().map(|(a, r)| (self.tuple(*a), r.map(Duration::from_nanos))).collect();
        let sel_t = select_default(cur_t.as_ref(), &data);
        // map the selected FourTuple back to its token
        let mut all: Vec<A> = paths.iter().map(|p| p.0).collect();
        all.extend(cur);
        let sel: Option<A> = sel_t.as_ref().map(|t| {
            *all.iter().find(|a| self.tuple(**a) == *t).expect("selected path is not one of the tokens")
        });
        let out = match &sel {
            None => "none".to_string(),
            Some(a) => format!("sel={}", show_addr(a)),
        };
        let mut ex = Exec::new(out);

        // ---------------- oracle: the statement of C24 ----------------
        let with_stats: Vec<(A, u64)> = paths.iter().filter_map(|(a, r)| r.map(|r| (*a, r))).collect();
        let key = |a: &A, r: u64| (if is_primary(a) { 0u8 } else { 1u8 }, biased(a, r));
        let best_of = |a: &A| with_stats.iter().filter(|(b, _)| b == a).map(|(b, r)| key(b, *r)).min();
        match &sel {
            Some(a) => {
                if !with_stats.iter().any(|(b, _)| b == a) {
                    ex.violation("picked-path-without-stats", format!("{} is not a live path with readable statistics", show_addr(a)));
                }
            }
            None => {}
        }
        if with_stats.is_empty() && sel.is_some() {
            ex.violation("selected-with-no-stats", "no path has statistics but something was selected");
        }
        let primary_available = with_stats.iter().any(|(a, _)| is_primary(a));
        let cur_key = cur.as_ref().and_then(|c| best_of(c));
        // the path in use after the selection was applied (empty selection keeps the current one)
        let after = sel.or(cur);
        if primary_available {
            if let Some(a) = &sel {
                if !is_primary(a) {
                    ex.violation("backup-over-primary", format!("{} picked although a primary path has statistics", show_addr(a)));
                }
            }
            // a live primary exists: what is in use afterwards is never a backup, and a current
            // path without statistics is left
            if let Some(a) = &after {
                if !is_primary(a) {
                    ex.violation("stays-on-backup", format!("{} stays in use although a primary path has statistics", show_addr(a)));
                }
            }
        }
        if let (Some(a), Some(c), Some((ct, cb))) = (&sel, &cur, cur_key) {
            let (at, ab) = best_of(a).unwrap_or((9, 0));
            if a == c {
                ex.violation("reselected-current", "the selection is the current path");
            }
            if at == ct && !(ab + 5 * MS <= cb) {
                ex.violation("flap", format!("moved within tier to biased {ab} from biased {cb} (< 5 ms better)"));
            }
        }
        // the other direction: a same-tier path at least 5 ms better is taken, and whatever is
        // taken has the minimal (tier, biased RTT) of all live paths
        let best_key = with_stats.iter().map(|(a, r)| key(a, *r)).min();
        if let (Some((bt, bb)), Some((ct, cb))) = (best_key, cur_key) {
            if (bt != ct || bb + 5 * MS <= cb) && sel.is_none() {
                ex.violation("stuck", format!("best ({bt},{bb}) vs current ({ct},{cb}) but nothing selected"));
            }
        }
        if let (Some(a), Some(bk)) = (&sel, best_key) {
            if best_of(a) != Some(bk) {
                ex.violation("not-best", format!("{} does not have the minimal key {bk:?}", show_addr(a)));
            }
        }
        if cur_key.is_none() && !with_stats.is_empty() && sel.is_none() {
            ex.violation("no-selection-with-dead-current", "current has no statistics but nothing was selected");
        }

        ex.nontrivial = with_stats.len() >= 2;
        ex.tags.push(match (&sel, cur_key) {
            (None, _) if with_stats.is_empty() => "no-stats".into(),
            (None, _) => "keep-current".into(),
            (Some(_), None) => "select-fresh".into(),
            (Some(a), Some((ct, _))) => {
                if (if is_primary(a) { 0 } else { 1 }) != ct { "switch-tier".into() } else { "switch-same-tier".into() }
            }
        });
        ex.tags.push(format!("paths{}", paths.len()));
        ex
    }
}

fn main() {
    let relay_peer = SecretKey::from_bytes(&[9u8; 32]).public();
    run(C24 { relay_peer });
}
