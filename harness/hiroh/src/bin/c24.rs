//! C24 — path selection prefers primary paths and resists flapping.
//!
//! payload: `cur=<addr|-> <addr>:<rtt> <addr>:<rtt> …`   (paths in iteration order, maybe none)
//!          addr  `<kind><id>`: kind `f` IPv4 | `s` IPv6 | `r` relay | `c` custom transport,
//!                id decimal — distinct tokens are distinct network paths (FourTuples)
//!          rtt   round-trip time of the path's statistics in ns, or `x` = statistics unreadable
//! output : `none` (empty selection: the current path is kept) | `sel=<addr>`
//!
//! Runs the real `BiasedRttPathSelector::default().select(..)` on a synthetic
//! `PathSelectionContext` through `iroh::verif_hooks::path_selector::select_default`.
use std::{
    net::{IpAddr, Ipv4Addr, Ipv6Addr, SocketAddr},
    time::Duration,
};

use iroh::{
    endpoint::transports::{Addr, FourTuple},
    verif_hooks::path_selector::select_default,
};
use iroh_base::{CustomAddr, EndpointId, RelayUrl, SecretKey};
use vcommon::*;

struct C24 {
    relay_peer: EndpointId,
}

#[derive(Clone, Copy, Debug, PartialEq, Eq, Hash, PartialOrd, Ord)]
enum Kind {
    V4,
    V6,
    Relay,
    Custom,
}

#[derive(Clone, Copy, Debug, PartialEq, Eq, Hash, PartialOrd, Ord)]
struct A {
    kind: Kind,
    id: u32,
}

fn parse_addr(s: &str) -> A {
    let kind = match &s[..1] {
        "f" => Kind::V4,
        "s" => Kind::V6,
        "r" => Kind::Relay,
        "c" => Kind::Custom,
        _ => panic!("bad kind in {s}"),
    };
    A { kind, id: s[1..].parse().expect("id") }
}

fn show_addr(a: &A) -> String {
    let k = match a.kind {
        Kind::V4 => "f",
        Kind::V6 => "s",
        Kind::Relay => "r",
        Kind::Custom => "c",
    };
    format!("{k}{}", a.id)
}

fn parse(payload: &str) -> (Option<A>, Vec<(A, Option<u64>)>) {
    let mut toks = payload.split(' ');
    let cur = toks.next().expect("cur").strip_prefix("cur=").expect("cur=");
    let cur = if cur == "-" { None } else { Some(parse_addr(cur)) };
    let paths = toks
        .map(|t| {
            let (a, r) = t.split_once(':').expect("addr:rtt");
            (parse_addr(a), if r == "x" { None } else { Some(r.parse().expect("rtt")) })
        })
        .collect();
    (cur, paths)
}

fn show(cur: Option<A>, paths: &[(A, Option<u64>)]) -> String {
    let mut s = format!("cur={}", cur.map(|a| show_addr(&a)).unwrap_or("-".into()));
    for (a, r) in paths {
        s.push(' ');
        s.push_str(&show_addr(a));
        s.push(':');
        match r {
            Some(r) => s.push_str(&r.to_string()),
            None => s.push('x'),
        }
    }
    s
}

impl C24 {
    /// Injective map from tokens to network paths.  Ids ≥ 1000 of the IP kinds reuse the
    /// remote address of id − 1000 with a known local address (a different FourTuple).
    fn tuple(&self, a: A) -> FourTuple {
        let port = (a.id % 1000) as u16 + 1;
        match a.kind {
            Kind::V4 => {
                let remote = SocketAddr::new(Ipv4Addr::new(10, 0, 0, 1).into(), port);
                if a.id >= 1000 {
                    FourTuple::Ip { remote, local: Some(IpAddr::V4(Ipv4Addr::new(10, 9, (a.id / 1000) as u8, 9))) }
                } else {
                    FourTuple::from_remote(Addr::Ip(remote))
                }
            }
            Kind::V6 => {
                let remote = SocketAddr::new(Ipv6Addr::new(0xfd00, 0, 0, 0, 0, 0, 0, 1).into(), port);
                if a.id >= 1000 {
                    FourTuple::Ip {
                        remote,
                        local: Some(IpAddr::V6(Ipv6Addr::new(0xfd00, 0, 0, 0, 0, 0, (a.id / 1000) as u16, 9))),
                    }
                } else {
                    FourTuple::from_remote(Addr::Ip(remote))
                }
            }
            Kind::Relay => {
                let url: RelayUrl = format!("https://relay{}.iroh.test", a.id).parse().expect("url");
                FourTuple::from_remote(Addr::Relay(url, self.relay_peer))
            }
            Kind::Custom => {
                // transport id varies with the address id: every custom kind is unconfigured
                let s = format!("{:x}_{:08x}", 7 + (a.id % 3), a.id);
                FourTuple::from_remote(Addr::Custom(s.parse::<CustomAddr>().expect("custom")))
            }
        }
    }
}

const MS: i128 = 1_000_000;

/// The statement's notion of the biased RTT: IPv6 is credited 3 ms.
fn biased(a: &A, rtt: u64) -> i128 {
    rtt as i128 - if a.kind == Kind::V6 { 3 * MS } else { 0 }
}
fn is_primary(a: &A) -> bool {
    a.kind != Kind::Relay
}

fn pick_kind(rng: &mut Rng) -> Kind {
    match rng.below(10) {
        0..=3 => Kind::V4,
        4..=6 => Kind::V6,
        7..=8 => Kind::Relay,
        _ => Kind::Custom,
    }
}

impl Prop for C24 {
    fn id(&self) -> &'static str {
        "C24"
    }

    fn generate(&mut self, rng: &mut Rng, _tier: Tier, n: usize, out: &mut Vec<String>) {
        let ms = 1_000_000u64;
        let f1 = A { kind: Kind::V4, id: 1 };
        let f2 = A { kind: Kind::V4, id: 2 };
        let s1 = A { kind: Kind::V6, id: 1 };
        let r1 = A { kind: Kind::Relay, id: 1 };
        // the repo's own unit tests
        out.push(show(None, &[]));
        out.push(show(Some(f1), &[]));
        out.push(show(None, &[(f1, Some(10 * ms)), (s1, Some(10 * ms))]));
        out.push(show(None, &[(f1, Some(10 * ms)), (s1, Some(12 * ms))]));
        out.push(show(None, &[(f1, Some(10 * ms)), (s1, Some(20 * ms))]));
        out.push(show(None, &[(f1, Some(100 * ms)), (r1, Some(10 * ms))]));
        out.push(show(None, &[(f1, Some(1000 * ms)), (r1, Some(ms))]));
        for d in [18, 16, 15, 14] {
            out.push(show(Some(f1), &[(f1, Some(20 * ms)), (f2, Some(d * ms))]));
        }
        out.push(show(None, &[(f1, Some(20 * ms)), (f2, Some(10 * ms))]));
        // exact boundaries of the 5 ms hysteresis and the 3 ms IPv6 credit, ±1 ns, both orders,
        // every kind pair
        let kinds = [Kind::V4, Kind::V6, Kind::Relay, Kind::Custom];
        for &ka in &kinds {
            for &kb in &kinds {
                let a = A { kind: ka, id: 1 };
                let b = A { kind: kb, id: 2 };
                for base in [20 * ms, 3 * ms, 0] {
                    for off in [0i64, 2, 3, 5, 8] {
                        for eps in [-1i64, 0, 1] {
                            for sign in [-1i64, 1] {
                                let rb = base as i64 + sign * (off * ms as i64) + eps;
                                if rb < 0 {
                                    continue;
                                }
                                let pa = (a, Some(base));
                                let pb = (b, Some(rb as u64));
                                out.push(show(Some(a), &[pa, pb]));
                                out.push(show(Some(a), &[pb, pa]));
                                out.push(show(None, &[pa, pb]));
                            }
                        }
                    }
                }
            }
        }
        // extremes of the RTT range
        out.push(show(Some(f1), &[(f1, Some(u64::MAX)), (f2, Some(0)), (s1, Some(0))]));
        out.push(show(Some(s1), &[(s1, Some(0)), (f2, Some(0)), (r1, Some(u64::MAX))]));
        // random lists ≤ 8 with duplicates across connections, missing stats, clustered RTTs
        while out.len() < n {
            let len = rng.range(0, 8) as usize;
            let n_addrs = rng.range(1, 5) as usize;
            let addrs: Vec<A> = (0..n_addrs)
                .map(|i| {
                    let kind = pick_kind(rng);
                    let id = if rng.chance(1, 8) && kind != Kind::Relay && kind != Kind::Custom {
                        1000 + (i as u32 % 2)
                    } else {
                        i as u32 % 3
                    };
                    A { kind, id }
                })
                .collect();
            let base = match rng.below(4) {
                0 => rng.range(0, 6 * ms),
                _ => rng.range(ms, 200 * ms),
            };
            let mut paths = Vec::new();
            for _ in 0..len {
                let a = *rng.pick(&addrs);
                let rtt = if rng.chance(1, 6) {
                    None
                } else {
                    let off = *rng.pick(&[0i64, 0, 1, 2, 3, 3, 5, 5, 8, 10, 13]) * ms as i64;
                    let eps = *rng.pick(&[0i64, 0, 1, -1, 2, -2]);
                    let sign = if rng.bool() { 1 } else { -1 };
                    let v = if rng.chance(1, 10) {
                        rng.range(0, 400 * ms) as i64
                    } else {
                        base as i64 + sign * off + eps
                    };
                    Some(v.max(0) as u64)
                };
                paths.push((a, rtt));
            }
            let cur = match rng.below(6) {
                0 => None,
                1 => Some(A { kind: pick_kind(rng), id: 77 }), // not among the paths
                _ => Some(*rng.pick(&addrs)),
            };
            out.push(show(cur, &paths));
        }
    }

    fn execute(&mut self, payload: &str) -> Exec {
        let (cur, paths) = parse(payload);
        let cur_t = cur.map(|a| self.tuple(a));
        let data: Vec<(FourTuple, Option<Duration>)> =
            paths.iter().map(|(a, r)| (self.tuple(*a), r.map(Duration::from_nanos))).collect();
        let sel_t = select_default(cur_t.as_ref(), &data);
        // map the selected FourTuple back to its token
        let mut all: Vec<A> = paths.iter().map(|p| p.0).collect();
        all.extend(cur);
        let sel: Option<A> = sel_t.as_ref().map(|t| {
            *all.iter().find(|a| self.tuple(**a) == *t).expect("selected path is not one of the tokens")
        });
        let out = match &sel {
            None => "none".to_string(),
            Some(a) => format!("sel={}", show_addr(a)),
        };
        let mut ex = Exec::new(out);

        // ---------------- oracle: the statement of C24 ----------------
        let with_stats: Vec<(A, u64)> = paths.iter().filter_map(|(a, r)| r.map(|r| (*a, r))).collect();
        let key = |a: &A, r: u64| (if is_primary(a) { 0u8 } else { 1u8 }, biased(a, r));
        let best_of = |a: &A| with_stats.iter().filter(|(b, _)| b == a).map(|(b, r)| key(b, *r)).min();
        match &sel {
            Some(a) => {
                if !with_stats.iter().any(|(b, _)| b == a) {
                    ex.violation("picked-path-without-stats", format!("{} is not a live path with readable statistics", show_addr(a)));
                }
            }
            None => {}
        }
        if with_stats.is_empty() && sel.is_some() {
            ex.violation("selected-with-no-stats", "no path has statistics but something was selected");
        }
        let primary_available = with_stats.iter().any(|(a, _)| is_primary(a));
        let cur_key = cur.as_ref().and_then(|c| best_of(c));
        // the path in use after the selection was applied (empty selection keeps the current one)
        let after = sel.or(cur);
        if primary_available {
            if let Some(a) = &sel {
                if !is_primary(a) {
                    ex.violation("backup-over-primary", format!("{} picked although a primary path has statistics", show_addr(a)));
                }
            }
            // a live primary exists: what is in use afterwards is never a backup, and a current
            // path without statistics is left
            if let Some(a) = &after {
                if !is_primary(a) {
                    ex.violation("stays-on-backup", format!("{} stays in use although a primary path has statistics", show_addr(a)));
                }
            }
        }
        if let (Some(a), Some(c), Some((ct, cb))) = (&sel, &cur, cur_key) {
            let (at, ab) = best_of(a).unwrap_or((9, 0));
            if a == c {
                ex.violation("reselected-current", "the selection is the current path");
            }
            if at == ct && !(ab + 5 * MS <= cb) {
                ex.violation("flap", format!("moved within tier to biased {ab} from biased {cb} (< 5 ms better)"));
            }
        }
        // the other direction: a same-tier path at least 5 ms better is taken, and whatever is
        // taken has the minimal (tier, biased RTT) of all live paths
        let best_key = with_stats.iter().map(|(a, r)| key(a, *r)).min();
        if let (Some((bt, bb)), Some((ct, cb))) = (best_key, cur_key) {
            if (bt != ct || bb + 5 * MS <= cb) && sel.is_none() {
                ex.violation("stuck", format!("best ({bt},{bb}) vs current ({ct},{cb}) but nothing selected"));
            }
        }
        if let (Some(a), Some(bk)) = (&sel, best_key) {
            if best_of(a) != Some(bk) {
                ex.violation("not-best", format!("{} does not have the minimal key {bk:?}", show_addr(a)));
            }
        }
        if cur_key.is_none() && !with_stats.is_empty() && sel.is_none() {
            ex.violation("no-selection-with-dead-current", "current has no statistics but nothing was selected");
        }

        ex.nontrivial = with_stats.len() >= 2;
        ex.tags.push(match (&sel, cur_key) {
            (None, _) if with_stats.is_empty() => "no-stats".into(),
            (None, _) => "keep-current".into(),
            (Some(_), None) => "select-fresh".into(),
            (Some(a), Some((ct, _))) => {
                if (if is_primary(a) { 0 } else { 1 }) != ct { "switch-tier".into() } else { "switch-same-tier".into() }
            }
        });
        ex.tags.push(format!("paths{}", paths.len()));
        ex
    }
}

fn main() {
    let relay_peer = SecretKey::from_bytes(&[9u8; 32]).public();
    run(C24 { relay_peer });
}
