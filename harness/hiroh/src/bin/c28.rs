//! C28 — preferred relay choice is current and sticky.
//!
//! payload: `<step> | <step> | …`   one history of reports, oldest first, starting from a fresh
//!          client (no previous preferred relay)
//!     step = `<after_ms> <upd>;<upd>;…`  or  `<after_ms> -` (a report without measurements)
//!     upd  = `<h|4|6> <u> <lat>`         `update_relay(url(u), lat ns, kind)` on the new report
//!   The virtual clock is advanced by `after_ms` (u32) before the report is added with
//!   `Client::add_report_history_and_set_preferred_relay`.  `<u>` is a relay index `0..=999`
//!   (url `https://rNNN.iroh.test/`, index order = url order), `<lat>` nanoseconds (u64).
//!   `P <step> | <step> | …`  the same, but every step lists raw **probe reports** (grammar of C27:
//!     `h <u> <lat>` | `4 <u> <lat> <addr>` | `6 <u> <lat> <addr>`, addr `4:<ip>:<port>` |
//!     `6:<ip>:<port>`), which are folded into the report by the real `Report::update` before the
//!     report is handed to the history function (composition C27 ∘ C28).  The oracle works on the
//!     raw probe latencies, and the history is run a second time with the probes of every run in
//!     reverse order: any difference is an `order-dependent` violation.
//!   `G <step> | <step> | …`  histories mixing full and incremental runs through the real
//!     `Client::get_report` (its bookkeeping: `next_full`, `last_full`, `last`, `prev`), with
//!     step = `<after_ms> <flags> <upd>;…` (or `-`), flags = `-` or letters of `m` (is_major),
//!     `c` (the finished report has captive_portal = Some(true)), `u` (it has udp_v4 = true).
//!     The finished report is injected right before the history function (hook); the client has
//!     no relays and no probes, so the run takes no virtual time.  Output token per step:
//!     `<preferred|none>,<history length>,<F|I>` (full / incremental run).
//! output : one token per step: `<preferred|none>,<history length after the step>`
//!          `bad-input` for anything unparsable.
use std::collections::BTreeMap;
use std::net::{Ipv4Addr, Ipv6Addr, SocketAddr, SocketAddrV4, SocketAddrV6};
use std::time::Duration;

use iroh::RelayUrl;
use iroh::unstable_net_report::{NetReport, Probe};
use iroh::verif_hooks::net_report as hooks;
use vcommon::*;

struct C28 {
    rt: tokio::runtime::Runtime,
}

const MAX_URL: u64 = 999;
/// The property's window ("the last five minutes") and threshold ("two thirds"), as stated.
const WINDOW_MS: u64 = 5 * 60 * 1000;

fn url(i: u64) -> RelayUrl {
    format!("https://r{i:03}.iroh.test/").parse().expect("relay url")
}

fn url_index(u: &RelayUrl) -> u64 {
    let s = u.to_string();
    s["https://r".len().."https://r".len() + 3].parse().expect("index")
}

#[derive(Clone, Copy, Debug, PartialEq, Eq)]
enum Kind {
    Https,
    V4,
    V6,
}

#[derive(Clone, Debug)]
struct Step {
    after_ms: u64,
    upds: Vec<(Kind, u64, u64)>,
    /// probe mode: the address each probe report carries (None for https)
    addrs: Option<Vec<Option<SocketAddr>>>,
    /// caller mode: is_major / captive portal / udp flags
    flags: Option<(bool, bool, bool)>,
}

fn parse_addr(s: &str) -> Option<SocketAddr> {
    let f: Vec<&str> = s.split(':').collect();
    if f.len() != 3 {
        return None;
    }
    match f[0] {
        "4" => Some(SocketAddr::V4(SocketAddrV4::new(
            Ipv4Addr::from(parse_dec::<u32>(f[1])?),
            parse_dec::<u16>(f[2])?,
        ))),
        "6" => Some(SocketAddr::V6(SocketAddrV6::new(
            Ipv6Addr::from(parse_dec::<u128>(f[1])?),
            parse_dec::<u16>(f[2])?,
            0,
            0,
        ))),
        _ => None,
    }
}

fn parse_dec<T: std::str::FromStr>(s: &str) -> Option<T> {
    if s.is_empty() || !s.bytes().all(|b| b.is_ascii_digit()) {
        return None;
    }
    s.parse().ok()
}

fn parse_step(s: &str, probes: bool) -> Option<Step> {
    let s = s.trim();
    let (after, rest) = match s.split_once(' ') {
        Some((a, r)) => (a, r.trim()),
        None => return None,
    };
    let after_ms = parse_dec::<u32>(after)? as u64;
    let mut upds = Vec::new();
    let mut addrs = Vec::new();
    if rest != "-" {
        for item in rest.split(';') {
            let t: Vec<&str> = item.split(' ').filter(|x| !x.is_empty()).collect();
            if t.len() < 3 {
                return None;
            }
            let want = if probes && t[0] != "h" { 4 } else { 3 };
            if t.len() != want {
                return None;
            }
            let k = match t[0] {
                "h" => Kind::Https,
                "4" => Kind::V4,
                "6" => Kind::V6,
                _ => return None,
            };
            let u = parse_dec::<u64>(t[1]).filter(|u| *u <= MAX_URL)?;
            let lat = parse_dec::<u64>(t[2])?;
            upds.push((k, u, lat));
            addrs.push(if want == 4 { Some(parse_addr(t[3])?) } else { None });
        }
    }
    Some(Step { after_ms, upds, addrs: probes.then_some(addrs), flags: None })
}

/// `<after_ms> <flags> <upd>;…`
fn parse_step_caller(s: &str) -> Option<Step> {
    let s = s.trim();
    let (after, rest) = s.split_once(' ')?;
    let rest = rest.trim();
    let (flags, rest) = rest.split_once(' ')?;
    let mut f = (false, false, false);
    if flags != "-" {
        if flags.is_empty() {
            return None;
        }
        for ch in flags.chars() {
            match ch {
                'm' if !f.0 => f.0 = true,
                'c' if !f.1 => f.1 = true,
                'u' if !f.2 => f.2 = true,
                _ => return None,
            }
        }
    }
    let mut st = parse_step(&format!("{after} {}", rest.trim()), false)?;
    st.flags = Some(f);
    Some(st)
}

fn parse(payload: &str) -> Option<Vec<Step>> {
    let p = payload.trim();
    if p.is_empty() {
        return None;
    }
    if let Some(rest) = p.strip_prefix("G ") {
        return rest.split('|').map(parse_step_caller).collect();
    }
    if let Some(rest) = p.strip_prefix("P ") {
        return rest.split('|').map(|s| parse_step(s, true)).collect();
    }
    p.split('|').map(|s| parse_step(s, false)).collect()
}

fn probe_of(k: Kind) -> Probe {
    match k {
        Kind::Https => Probe::Https,
        Kind::V4 => Probe::QadIpv4,
        Kind::V6 => Probe::QadIpv6,
    }
}

/// Lowest latency per relay in one report, computed from the payload (not from the report).
fn lowest(upds: &[(Kind, u64, u64)]) -> BTreeMap<u64, u64> {
    let mut m = BTreeMap::new();
    for (_, u, l) in upds {
        m.entry(*u).and_modify(|x: &mut u64| *x = (*x).min(*l)).or_insert(*l);
    }
    m
}

/// Builds the report of one step with the real code: `update_relay` calls, or (probe mode)
/// `Report::update` with real probe reports, optionally in reverse arrival order.
fn build_report(st: &Step, reversed: bool) -> NetReport {
    let mut r = NetReport::default();
    let mut idx: Vec<usize> = (0..st.upds.len()).collect();
    if reversed {
        idx.reverse();
    }
    for i in idx {
        let (k, u, l) = st.upds[i];
        let lat = Duration::from_nanos(l);
        match &st.addrs {
            None => hooks::latencies_update_relay(&mut r.relay_latency, url(u), lat, probe_of(k)),
            Some(addrs) => match k {
                Kind::Https => hooks::report_update_https(&mut r, url(u), lat),
                Kind::V4 => hooks::report_update_qad_v4(&mut r, url(u), lat, addrs[i].unwrap()),
                Kind::V6 => hooks::report_update_qad_v6(&mut r, url(u), lat, addrs[i].unwrap()),
            },
        }
    }
    r
}

impl C28 {
    /// Only the implementation: the outputs of a history, probes optionally reversed.
    fn replay_outs(&self, steps: &[Step], reversed: bool) -> Vec<String> {
        let mut outs = Vec::new();
        self.rt.block_on(async {
            let mut hist = hooks::ReportHistory::new();
            for st in steps {
                tokio::time::advance(Duration::from_millis(st.after_ms)).await;
                let mut r = build_report(st, reversed);
                hist.add(&mut r);
                let got = r.preferred_relay.as_ref().map(url_index);
                outs.push(format!(
                    "{},{}",
                    got.map(|u| u.to_string()).unwrap_or_else(|| "none".into()),
                    hist.prev_len()
                ));
            }
        });
        outs
    }

    /// Caller mode: the real `Client::get_report` around injected finished reports.
    fn run_caller(&self, steps: &[Step]) -> Exec {
        let mut outs: Vec<String> = Vec::new();
        let mut violations: Vec<(String, String)> = Vec::new();
        let mut tags: Vec<String> = Vec::new();
        self.rt.block_on(async {
            let mut hist = hooks::ReportHistory::new_without_probes();
            let t0 = tokio::time::Instant::now();
            // oracle bookkeeping, from the raw inputs only
            let mut seen: BTreeMap<u64, BTreeMap<u64, u64>> = BTreeMap::new();
            let mut now_ms: u64 = 0;
            let mut last_full_ms: u64 = 0; // the client was created at t0
            let mut first = true;
            // previous run: (preferred, had udp, captive portal)
            let mut last: Option<(Option<u64>, bool, bool)> = None;
            for (si, st) in steps.iter().enumerate() {
                let (is_major, captive, udp) = st.flags.expect("caller mode");
                tokio::time::advance(Duration::from_millis(st.after_ms)).await;
                now_ms += st.after_ms;
                let mut r = build_report(st, false);
                if captive {
                    r.captive_portal = Some(true);
                }
                if udp {
                    r.udp_v4 = true;
                }
                let full_before = hist.reports_full();
                let res = hist.get_report(is_major, r).await;
                assert_eq!(
                    tokio::time::Instant::now().duration_since(t0),
                    Duration::from_millis(now_ms),
                    "get_report must not consume virtual time"
                );
                let was_full = hist.reports_full() - full_before == 1;
                let got = res.preferred_relay.as_ref().map(url_index);
                let n = hist.prev_len();
                outs.push(format!(
                    "{},{n},{}",
                    got.map(|u| u.to_string()).unwrap_or_else(|| "none".into()),
                    if was_full { "F" } else { "I" }
                ));

                // ---------------- oracle ----------------
                // which runs are full: major change, the very first run, more than five minutes
                // since the last full run, or the last report saw a captive portal and no UDP
                let want_full = is_major
                    || first
                    || now_ms - last_full_ms > WINDOW_MS
                    || matches!(last, Some((_, false, true)));
                if was_full != want_full {
                    violations.push((
                        "full-bookkeeping".into(),
                        format!("step {si}: run was full={was_full}, expected full={want_full}"),
                    ));
                }
                if hist.reports_total() != si as u64 + 1 || hist.next_full() {
                    violations.push(("full-bookkeeping".into(), format!("step {si}: counters")));
                }
                if want_full {
                    last_full_ms = now_ms;
                }
                if hist.since_last_full() != Duration::from_millis(now_ms - last_full_ms) {
                    violations.push((
                        "full-bookkeeping".into(),
                        format!("step {si}: last_full is {:?} ago", hist.since_last_full()),
                    ));
                }
                first = false;
                // the history the choice must be based on: every run of the last five minutes,
                // full or not
                let cur = lowest(&st.upds);
                seen.retain(|t, _| now_ms - *t <= WINDOW_MS);
                let window: Vec<BTreeMap<u64, u64>> =
                    seen.values().cloned().chain([cur.clone()]).collect();
                let best = |u: u64| -> Option<u64> {
                    window.iter().filter_map(|m| m.get(&u).copied()).min()
                };
                seen.insert(now_ms, cur.clone());
                let lost = if was_full { "history-lost-on-full-report" } else { "history-length" };
                if n != seen.len() {
                    violations.push((
                        lost.into(),
                        format!("step {si}: kept {n} reports, {} runs are within five minutes", seen.len()),
                    ));
                }
                match got {
                    None if !cur.is_empty() => {
                        violations.push(("none-but-measured".into(), format!("step {si}")))
                    }
                    Some(c) if !cur.contains_key(&c) => {
                        violations.push(("not-measured".into(), format!("step {si}: {c}")))
                    }
                    _ => {}
                }
                // the previous preferred relay as the history function sees it: a full run
                // starts from scratch (`reports.last = None`), an incremental one continues
                let prev: Option<u64> = if was_full { None } else { last.and_then(|l| l.0) };
                if let Some(c) = got {
                    let bc = best(c);
                    if Some(c) != prev || !cur.contains_key(&c) {
                        if let Some(v) = cur.keys().find(|v| best(**v) < bc) {
                            violations.push((
                                if was_full { "history-lost-on-full-report" } else { "not-best" }.into(),
                                format!(
                                    "step {si}: chose {c} (best {bc:?}) but {v} has {:?} within five minutes",
                                    best(*v)
                                ),
                            ));
                        }
                    }
                    if let Some(p) = prev
                        && let Some(old) = cur.get(&p)
                        && c != p
                    {
                        let b = bc.unwrap_or(u64::MAX) as u128;
                        if 3 * b > 2 * (*old as u128) {
                            violations.push((
                                "sticky".into(),
                                format!("step {si}: switched {p} -> {c}: best {b} ns > 2/3 of {old} ns"),
                            ));
                        }
                    }
                    // observation (not a violation of the core): a full run forgets the
                    // previous preferred relay, so it may switch without hysteresis
                    if was_full
                        && let Some(Some(p)) = last.map(|l| l.0)
                        && let Some(old) = cur.get(&p)
                        && c != p
                        && 3 * (bc.unwrap_or(u64::MAX) as u128) > 2 * (*old as u128)
                    {
                        tags.push("full-run-switched-without-hysteresis".into());
                    }
                    if was_full && window.len() > 1 && cur.keys().any(|v| best(*v) < cur.get(v).copied()) {
                        tags.push("full-run-decided-by-history".into());
                    }
                }
                last = Some((got, res.udp_v4 || res.udp_v6, res.captive_portal == Some(true)));
                tags.push(if was_full { "full-run".into() } else { "incremental-run".into() });
            }
        });
        let mut ex = Exec::new(outs.join(" "));
        ex.violations = violations;
        tags.sort();
        tags.dedup();
        ex.tags = tags;
        ex.tags.push("caller-mode".into());
        ex.nontrivial = steps.len() >= 2;
        ex
    }

    fn run_history(&self, steps: &[Step]) -> Exec {
        let mut outs: Vec<String> = Vec::new();
        let mut violations: Vec<(String, String)> = Vec::new();
        let mut tags: Vec<String> = Vec::new();
        let mut nontrivial = false;

        self.rt.block_on(async {
            let mut hist = hooks::ReportHistory::new();
            // the oracle's own record of the history: instant (ms) -> lowest latency per relay
            let mut seen: BTreeMap<u64, BTreeMap<u64, u64>> = BTreeMap::new();
            let mut now_ms: u64 = 0;
            let mut prev: Option<u64> = None;
            let t0 = tokio::time::Instant::now();
            for (si, st) in steps.iter().enumerate() {
                tokio::time::advance(Duration::from_millis(st.after_ms)).await;
                now_ms += st.after_ms;
                assert_eq!(
                    tokio::time::Instant::now().duration_since(t0),
                    Duration::from_millis(now_ms),
                    "virtual clock"
                );
                let mut r = build_report(st, false);
                if r.preferred_relay.is_some() {
                    violations.push(("preferred-set-by-update".into(), format!("step {si}")));
                }
                hist.add(&mut r);
                let got = r.preferred_relay.as_ref().map(url_index);
                let n = hist.prev_len();
                outs.push(format!(
                    "{},{n}",
                    got.map(|u| u.to_string()).unwrap_or_else(|| "none".into())
                ));

                // ---------------- oracle: the statement of C28 ----------------
                let cur = lowest(&st.upds);
                seen.retain(|t, _| now_ms - *t <= WINDOW_MS);
                // best latency of a relay over the last five minutes (including this report)
                let window: Vec<BTreeMap<u64, u64>> =
                    seen.values().cloned().chain([cur.clone()]).collect();
                let best = |u: u64| -> Option<u64> {
                    window.iter().filter_map(|m| m.get(&u).copied()).min()
                };
                // a report added at the very same instant replaces the earlier one afterwards
                seen.insert(now_ms, cur.clone());
                // (1) one of the relays measured in this report, none iff nothing was measured
                match got {
                    None => {
                        if !cur.is_empty() {
                            violations.push((
                                "none-but-measured".into(),
                                format!("step {si}: no preferred relay, measured {cur:?}"),
                            ));
                        }
                    }
                    Some(c) => {
                        if !cur.contains_key(&c) {
                            violations.push((
                                "not-measured".into(),
                                format!("step {si}: preferred {c} is not measured in this report"),
                            ));
                        }
                    }
                }
                if let Some(c) = got {
                    let bc = best(c);
                    // (2) chosen by best latency over the window — unless it sticks to prev
                    if Some(c) != prev || !cur.contains_key(&c) {
                        for v in cur.keys() {
                            if best(*v) < bc {
                                violations.push((
                                    "not-best".into(),
                                    format!(
                                        "step {si}: chose {c} (best {bc:?}) but {v} has {:?}",
                                        best(*v)
                                    ),
                                ));
                                break;
                            }
                        }
                    }
                    // (3) sticky: prev still measured and the choice changed
                    //     => best(choice) <= 2/3 * lowest latency of prev in this report
                    if let Some(p) = prev
                        && let Some(old) = cur.get(&p)
                        && c != p
                    {
                        let bc = bc.unwrap_or(u64::MAX) as u128;
                        if 3 * bc > 2 * (*old as u128) {
                            violations.push((
                                "sticky".into(),
                                format!(
                                    "step {si}: switched {p} -> {c}: best {bc} ns > 2/3 of {old} ns"
                                ),
                            ));
                        }
                        tags.push("switched-while-prev-measured".into());
                        nontrivial = true;
                    }
                    if let Some(p) = prev
                        && c == p
                        && cur.keys().any(|v| best(*v) < bc)
                    {
                        tags.push("stuck-to-prev".into());
                        nontrivial = true;
                    }
                }
                // history length = reports not older than the window (same instant replaces)
                if n != seen.len() {
                    violations.push((
                        "history-length".into(),
                        format!("step {si}: kept {n} reports, {} are within five minutes", seen.len()),
                    ));
                }
                if hist.last().map(|l| &l.preferred_relay) != Some(&r.preferred_relay) {
                    violations.push(("last-not-updated".into(), format!("step {si}")));
                }
                prev = got;
            }
        });
        let probe_mode = steps.iter().any(|s| s.addrs.is_some());
        if probe_mode {
            let rev = self.replay_outs(steps, true);
            if rev != outs {
                violations.push((
                    "order-dependent".into(),
                    format!("probes reversed inside every run: {} instead of {}", rev.join(" "), outs.join(" ")),
                ));
            }
            tags.push("probe-mode".into());
        }
        let mut ex = Exec::new(outs.join(" "));
        ex.violations = violations;
        tags.sort();
        tags.dedup();
        ex.tags = tags;
        ex.tags.push(format!("steps-{}", steps.len().min(9)));
        ex.nontrivial = nontrivial || steps.len() >= 2;
        ex
    }
}

const KINDS: [&str; 3] = ["h", "4", "6"];
const URLS: [u64; 5] = [3, 17, 20, 101, 998];

fn gen_report(rng: &mut Rng, nurls: usize, prev_lat: &mut Vec<u64>) -> String {
    if rng.chance(1, 25) {
        return "-".into();
    }
    let mut items: Vec<String> = Vec::new();
    for &u in URLS.iter().take(nurls) {
        if rng.chance(1, 5) {
            continue; // relay not measured in this report
        }
        let nk = match rng.below(6) {
            0..=2 => 1,
            3..=4 => 2,
            _ => 3,
        };
        let mut kinds = KINDS.to_vec();
        rng.shuffle(&mut kinds);
        for k in kinds.into_iter().take(nk) {
            let lat: u64 = match rng.below(14) {
                0 => 0,
                1 => 1,
                2 => u64::MAX,
                3..=6 if !prev_lat.is_empty() => {
                    // around two thirds (and floor(x/3)*2) of something seen before
                    let old = *rng.pick(prev_lat);
                    let base = [old / 3 * 2, (old as u128 * 2 / 3) as u64, old, old / 2][rng.usize_below(4)];
                    base.saturating_add(rng.range(0, 4)).saturating_sub(2)
                }
                7..=10 => *rng.pick(&[20_000_000u64, 25_000_000, 30_000_000, 40_000_000, 60_000_000, 90_000_000]),
                _ => rng.range(1, 200) * 1_000_000 + rng.range(0, 3),
            };
            prev_lat.push(lat);
            items.push(format!("{k} {u} {lat}"));
        }
    }
    if items.is_empty() {
        return "-".into();
    }
    rng.shuffle(&mut items);
    items.join(";")
}

/// Turns a list of `update_relay` items into raw probe reports: QAD probes get an address
/// (sometimes of the wrong family), some probes are retried with another latency, and the
/// arrival order is shuffled.
fn to_probes(rng: &mut Rng, rep: &str) -> String {
    if rep == "-" {
        return rep.to_string();
    }
    let mut items: Vec<String> = Vec::new();
    for item in rep.split(';') {
        let t: Vec<&str> = item.split(' ').collect();
        let copies = if rng.chance(1, 4) { 2 } else { 1 };
        for c in 0..copies {
            let lat: u64 = t[2].parse().unwrap();
            let lat = if c == 0 { lat } else { lat.saturating_add(rng.range(0, 3)).saturating_sub(1) };
            if t[0] == "h" {
                items.push(format!("h {} {lat}", t[1]));
            } else {
                let want_v6 = t[0] == "6";
                let v6 = if rng.chance(1, 8) { !want_v6 } else { want_v6 };
                let addr = if v6 {
                    format!("6:{}:{}", rng.pick(&[1u128, 2, u128::MAX]), rng.pick(&[1u16, 65535]))
                } else {
                    format!("4:{}:{}", rng.pick(&[1u32, 2, u32::MAX]), rng.pick(&[1u16, 65535]))
                };
                items.push(format!("{} {} {lat} {addr}", t[0], t[1]));
            }
        }
    }
    rng.shuffle(&mut items);
    items.join(";")
}

fn gen_after(rng: &mut Rng) -> u64 {
    match rng.below(16) {
        0 => 0,
        1 => 1,
        2 => 299_999,
        3 => 300_000,
        4 => 300_001,
        5 => 600_000,
        6 => 150_000,
        7 => 149_999,
        8 => 150_001,
        9 => rng.range(0, 400_000),
        _ => *rng.pick(&[1_000u64, 5_000, 30_000, 60_000, 100_000]),
    }
}

impl Prop for C28 {
    fn id(&self) -> &'static str {
        "C28"
    }

    fn generate(&mut self, rng: &mut Rng, tier: Tier, n: usize, out: &mut Vec<String>) {
        for (a, b) in [(3u64, 17u64), (17, 20), (20, 101), (101, 998), (0, 999)] {
            assert!(url(a) < url(b), "url order");
        }
        for s in [
            // D11: previous relay measured by two probe kinds, the last iterated one is slower
            "0 h 3 30000000;6 3 90000000 | 1000 h 3 30000000;6 3 90000000;h 17 25000000",
            // the repo's own scripted histories (seconds -> ms, 4-probes only)
            "0 4 1 2000000000;4 2 3000000000",
            "0 4 1 2000000000;4 2 3000000000 | 1000 4 1 4000000000;4 2 3000000000",
            "0 4 1 2000000000;4 2 3000000000 | 1000 4 1 4000000000;4 2 3000000000 | 2000 4 2 3000000000",
            "0 4 1 1;4 2 2 | 1000 4 1 1;4 2 2 | 2000 4 1 1;4 2 2 | 3000 4 1 1;4 2 2 | 600000 4 3 3",
            "0 4 1 4000000000;4 2 5000000000 | 1000 4 1 4000000000;4 2 3000000000",
            "0 4 1 4000000000;4 2 5000000000 | 1000 4 1 4000000000;4 2 1000000000",
            // window boundary: exactly five minutes is still inside
            "0 h 3 10 | 300000 h 3 50;h 17 20",
            "0 h 3 10 | 300001 h 3 50;h 17 20",
            // same instant replaces
            "0 h 3 10 | 0 h 3 50;h 17 20 | 5 h 3 50;h 17 20",
            // empty reports, zero latencies
            "0 -",
            "0 h 3 5 | 10 -| 10 h 3 5",
            "0 h 3 0 | 10 h 3 0;h 17 0",
            "0 h 17 0 | 10 h 3 0;h 17 0",
            // probe mode (C27 ∘ C28): D11 from raw probes, retries of one probe kind, wrong-family
            // addresses, a run without probes
            "P 0 h 3 30000000;6 3 90000000 6:1:1 | 1000 6 3 90000000 6:1:1;h 17 25000000;h 3 30000000",
            "P 0 h 3 30000000;6 3 90000000 6:1:1 | 1000 6 3 90000000 6:1:1;h 17 20000000;h 3 30000000",
            "P 0 4 3 50 4:1:1;4 3 40 4:1:2;4 3 60 6:1:1 | 10 - | 20 6 17 30 4:9:9;4 3 100 4:1:1",
            "P 0 h 3 10 | 300000 h 3 50;h 17 20 | 1 h 3 50;h 17 20",
            // caller mode: a full run (major change) must still use the five-minute history
            "G 0 u h 3 10;h 17 20 | 1000 mu h 3 50;h 17 20",
            "G 0 u h 3 10;h 17 20 | 1000 u h 3 50;h 17 20 | 300001 u h 3 50;h 17 20",
            "G 0 c h 3 10;h 17 20 | 1000 - h 3 50;h 17 20 | 10 cu h 3 50 | 10 - h 3 1",
            "G 0 - h 3 30000000 | 1000 m h 3 30000000;h 17 25000000 | 1000 - h 3 30000000;h 17 25000000",
            "G 300001 - -",
            // malformed
            "G",
            "G 0 h 3 5",
            "G 0 x h 3 5",
            "G 0 mm h 3 5",
            "G 0 m",
            "P",
            "P 0 4 3 5",
            "P 0 h 3 5 4:1:1",
            "P 0 4 3 5 4:1",
            "P 0 4 3 5 4:4294967296:1",
            "",
            "x",
            "0",
            "0 h 3",
            "0 h 3 5;",
            "0 h 1000 5",
            "4294967296 h 3 5",
            "0 h 3 18446744073709551616",
            "0 h 3 5 |",
            "0 q 3 5",
            "-1 h 3 5",
        ] {
            out.push(s.to_string());
        }
        let max_steps = if tier == Tier::Thorough { 10 } else { 8 };
        while out.len() < n {
            if rng.chance(1, 40) {
                let mut s = format!("{} {}", gen_after(rng), gen_report(rng, 2, &mut Vec::new()));
                let junk = ["x", "-", "|", ";;", " 99999999999999999999999", "1000 "];
                let j: &str = junk[rng.usize_below(junk.len())];
                let pos = rng.usize_below(s.len() + 1);
                s.insert_str(pos, j);
                out.push(s.trim().to_string());
                continue;
            }
            let steps = rng.range(1, max_steps);
            let nurls = rng.range(1, 4) as usize;
            let mut prev_lat = Vec::new();
            if rng.chance(1, 3) {
                // caller mode
                let v: Vec<String> = (0..steps)
                    .map(|_| {
                        let after = match rng.below(8) {
                            0 => 300_001,
                            1 => 300_000,
                            _ => gen_after(rng),
                        };
                        let mut flags = String::new();
                        if rng.chance(1, 5) {
                            flags.push('m');
                        }
                        if rng.chance(1, 4) {
                            flags.push('c');
                        }
                        if rng.chance(1, 2) {
                            flags.push('u');
                        }
                        if flags.is_empty() {
                            flags.push('-');
                        }
                        format!("{after} {flags} {}", gen_report(rng, nurls, &mut prev_lat))
                    })
                    .collect();
                out.push(format!("G {}", v.join(" | ")));
                continue;
            }
            let probe_mode = rng.chance(1, 2);
            let v: Vec<String> = (0..steps)
                .map(|i| {
                    let after = if i == 0 && rng.bool() { 0 } else { gen_after(rng) };
                    let rep = gen_report(rng, nurls, &mut prev_lat);
                    let rep = if probe_mode { to_probes(rng, &rep) } else { rep };
                    format!("{after} {rep}")
                })
                .collect();
            out.push(format!("{}{}", if probe_mode { "P " } else { "" }, v.join(" | ")));
        }
    }

    fn execute(&mut self, payload: &str) -> Exec {
        match parse(payload) {
            Some(steps) if steps.iter().any(|s| s.flags.is_some()) => self.run_caller(&steps),
            Some(steps) => self.run_history(&steps),
            None => Exec::new("bad-input").tag("bad-input"),
        }
    }
}

fn main() {
    let rt = tokio::runtime::Builder::new_current_thread()
        .enable_all()
        .start_paused(true)
        .build()
        .expect("runtime");
    run(C28 { rt });
}
