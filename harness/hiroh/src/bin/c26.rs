//! C26 — the published home relay is the relay most recently chosen.
//!
//! payload:
//!   `sched <calls t0>|<calls t1>|… <schedule>`      lists are `a,b,c` or `-`
//!       calls: `c<u>` = `HomeRelayWatch::set(url u, Connecting)` (the relay actor chooses u),
//!              `cn`   = `HomeRelayWatch::clear()`,
//!              `s<u>.<st>` = `HomeRelayWatch::set_status(&url u, st)` (connection actor of u;
//!              st: 0 connecting 1 connected 2 disconnected 3 disconnected with a fresh error).
//!       Real OS threads call the real `HomeRelayWatch`; every thread is stopped at the hook pause
//!       points (before taking the writer lock, after taking it, between the url comparison and
//!       the write) and the scheduler lets exactly one thread take one atomic step per schedule
//!       entry.  A thread that is about to lock while the lock is held (probed with `try_lock`)
//!       is *blocked*: it is not released.  Afterwards the lock holder, then the threads in
//!       order, run to completion.
//!   `glue <op>,<op>,…`   ops: `h<u>` / `hn` = `RelayActorMessage::NetworkChange` whose report prefers
//!       relay u / no relay, `t<u>` = a datagram via relay u (opens a non-home connection), u ∈ {0,1}.
//!       The REAL `RelayActor` (hook `RelayActorDriver`) runs against two in-process relay servers;
//!       one message at a time, the harness waits (bounded) until the actor has handled it (hook
//!       trace), reads the watch at once, then waits (bounded) for the home relay to report
//!       `Connected`.  Output `glue` + after every op the advertised relay: `n`, `<u>C`, `<u>-`.
//!   `stress <urls> <updaters per url> <rounds>`
//!       free-running: one chooser thread (the only writer of urls, like the `RelayActor`) and
//!       `urls × updaters` threads hammering `set_status` for their url.  After every choice the
//!       chooser reads the watch repeatedly: it must keep showing the chosen url.
//! output:
//!   sched : one token `<t><code>:<watch>` per attempt — `i` call entered, `a` lock acquired,
//!           `m` url matched, `d` call returned, `b` blocked, `e` no call left, `T` timeout —
//!           where `<watch>` is the advertised value after the attempt (`n` or `<url>.<state>`);
//!           then `final=<watch> chosen=<latest choice>`
//!   stress: `stress stale=0 final=ok`
use std::{
    rc::Rc,
    sync::{
        Arc,
        atomic::{AtomicBool, AtomicU64, Ordering},
        mpsc::{Receiver, Sender, channel},
    },
    time::Duration,
};

use iroh::verif_hooks::{
    pause,
    transports::relay::home_relay::{HomeRelay, RelayActorDriver},
};
use iroh_base::RelayUrl;
use vcommon::*;

struct C26 {
    glue: Option<Result<GlueSession, String>>,
}

/// Two in-process relay servers and the runtime the real `RelayActor` runs on.
struct GlueSession {
    rt: tokio::runtime::Runtime,
    urls: Vec<RelayUrl>,
    map: iroh::RelayMap,
    _servers: Vec<iroh_relay::server::Server>,
}

impl GlueSession {
    fn new() -> Result<Self, String> {
        let rt = tokio::runtime::Builder::new_multi_thread()
            .worker_threads(4)
            .enable_all()
            .build()
            .map_err(|e| format!("runtime: {e}"))?;
        let (urls, map, servers) = rt.block_on(async {
            let (m0, u0, s0) = iroh::test_utils::run_relay_server().await.map_err(|e| format!("relay 0: {e:?}"))?;
            let (m1, u1, s1) = iroh::test_utils::run_relay_server().await.map_err(|e| format!("relay 1: {e:?}"))?;
            m0.extend(&m1);
            Ok::<_, String>((vec![u0, u1], m0, vec![s0, s1]))
        })?;
        Ok(GlueSession { rt, urls, map, _servers: servers })
    }
}

#[derive(Debug, Clone, Copy, PartialEq)]
enum GlueOp {
    Home(Option<usize>),
    Traffic(usize),
}

fn parse_glue_op(s: &str) -> Option<GlueOp> {
    if s == "hn" {
        return Some(GlueOp::Home(None));
    }
    let (k, r) = s.split_at_checked(1)?;
    let u = parse_nat(r)?;
    if u > 1 {
        return None;
    }
    match k {
        "h" => Some(GlueOp::Home(Some(u as usize))),
        "t" => Some(GlueOp::Traffic(u as usize)),
        _ => None,
    }
}

const HANDLED: &str = "relay-actor network-change handled";
const GLUE_WAIT: Duration = Duration::from_secs(10);

fn handled_count() -> usize {
    pause::trace::since(0).iter().filter(|e| e.starts_with(HANDLED)).count()
}

fn wait_until(limit: Duration, mut cond: impl FnMut() -> bool) -> bool {
    let deadline = std::time::Instant::now() + limit;
    loop {
        if cond() {
            return true;
        }
        if std::time::Instant::now() > deadline {
            return false;
        }
        std::thread::sleep(Duration::from_millis(2));
    }
}

fn run_glue(sess: &GlueSession, ops: &[GlueOp], seed: u64) -> Exec {
    pause::trace::enable(true);
    let key = iroh_base::SecretKey::from_bytes(&{
        let mut b = [7u8; 32];
        b[..8].copy_from_slice(&seed.to_le_bytes());
        b
    });
    let peer = iroh_base::SecretKey::from_bytes(&[9u8; 32]).public();
    let driver = {
        let _g = sess.rt.enter();
        RelayActorDriver::start(key, sess.map.clone(), iroh_relay::tls::make_dangerous_client_config())
    };
    let idx = |u: &RelayUrl| sess.urls.iter().position(|x| x == u);
    let render = |w: &Option<(RelayUrl, u8)>| match w {
        None => "n".to_string(),
        Some((u, st)) => format!("{}{}", idx(u).map_or("?".to_string(), |i| i.to_string()), if *st == 1 { "C" } else { "-" }),
    };
    let mut out = vec!["glue".to_string()];
    let mut ex = Exec::default();
    let mut changed = 0;
    let mut existing_actor_became_home = false;
    let mut has_actor = [false, false];
    let mut home: Option<usize> = None;
    for (i, op) in ops.iter().enumerate() {
        match *op {
            GlueOp::Home(r) => {
                let before = handled_count();
                let url = r.map(|u| sess.urls[u].clone());
                if !sess.rt.block_on(driver.network_change(url)) {
                    ex.infra = Some("relay actor inbox closed".into());
                    break;
                }
                if !wait_until(GLUE_WAIT, || handled_count() > before) {
                    ex.infra = Some(format!("op {i}: the relay actor did not handle the NetworkChange within {GLUE_WAIT:?}"));
                    break;
                }
                // --- the property: the watch shows the newly chosen relay at once ---
                let now = driver.get();
                let adv = now.as_ref().and_then(|(u, _)| idx(u));
                if adv != r {
                    ex.violation(
                        "stale-home-relay",
                        format!("op {i}: NetworkChange preferring relay {r:?} has been handled, the watch advertises {adv:?} (actors existed for {has_actor:?})"),
                    );
                }
                if r != home {
                    changed += 1;
                    if let Some(u) = r {
                        existing_actor_became_home |= has_actor[u];
                    }
                }
                home = r;
                if let Some(u) = r {
                    has_actor[u] = true;
                    // the new home's status updates are accepted: it reports Connected
                    let ok = wait_until(GLUE_WAIT, || matches!(driver.get(), Some((ref w, 1)) if idx(w) == Some(u)));
                    if !ok && adv == r {
                        ex.violation(
                            "home-status-missing",
                            format!("op {i}: relay {u} is home and its test relay is up, but the watch never showed it Connected: {:?}", driver.get().map(|(w, s)| (idx(&w), s))),
                        );
                    }
                }
            }
            GlueOp::Traffic(u) => {
                let started = |u: usize| {
                    let needle = format!("relay-actor started active relay {}", sess.urls[u]);
                    pause::trace::since(0).iter().filter(|e| **e == needle).count()
                };
                let before = started(u);
                if !sess.rt.block_on(driver.send_via(sess.urls[u].clone(), peer)) {
                    ex.infra = Some("relay actor send channel closed".into());
                    break;
                }
                if !has_actor[u] && !wait_until(GLUE_WAIT, || started(u) > before) {
                    ex.infra = Some(format!("op {i}: no connection to relay {u} was started within {GLUE_WAIT:?}"));
                    break;
                }
                has_actor[u] = true;
                // let the datagram reach the ActiveRelayActor
                std::thread::sleep(Duration::from_millis(20));
                let adv = driver.get().as_ref().and_then(|(w, _)| idx(w));
                if adv != home {
                    ex.violation("stale-home-relay", format!("op {i}: traffic via relay {u} changed the advertised relay to {adv:?}, home is {home:?}"));
                }
            }
        }
        out.push(render(&driver.get()));
    }
    driver.shutdown();
    ex.out = out.join(" ");
    ex.tags.push("glue".into());
    if existing_actor_became_home {
        ex.tags.push("glue-existing-actor-becomes-home".into());
    }
    ex.nontrivial = changed >= 2;
    ex
}

#[derive(Debug, Clone, Copy, PartialEq)]
enum Call {
    Choose(Option<u64>),
    Status(u64, u8),
}

#[derive(Debug, Clone, Copy, PartialEq)]
enum Report {
    At(&'static str),
    Done,
}

#[derive(Debug, Clone, Copy, PartialEq)]
enum Status {
    Idle,
    At(&'static str),
    Stuck,
}

fn url(u: u64) -> RelayUrl {
    format!("https://r{u}.example.com").parse().expect("url")
}

fn url_index(u: &RelayUrl) -> String {
    let s = u.to_string();
    s.strip_prefix("https://r")
        .and_then(|r| r.split('.').next())
        .unwrap_or("?")
        .to_string()
}

fn render_watch(w: &Option<(RelayUrl, u8)>) -> String {
    match w {
        None => "n".into(),
        Some((u, st)) => format!("{}.{}", url_index(u), st),
    }
}

fn parse_call(s: &str) -> Option<Call> {
    if s == "cn" {
        return Some(Call::Choose(None));
    }
    if let Some(r) = s.strip_prefix('c') {
        return Some(Call::Choose(Some(parse_nat(r)?)));
    }
    let r = s.strip_prefix('s')?;
    let (u, st) = r.split_once('.')?;
    let st = parse_nat(st)?;
    if st > 3 {
        return None;
    }
    Some(Call::Status(parse_nat(u)?, st as u8))
}

/// Decimal without sign, at most 6 digits (the Lean side parses the same language).
fn parse_nat(s: &str) -> Option<u64> {
    if s.is_empty() || s.len() > 6 || !s.bytes().all(|b| b.is_ascii_digit()) {
        return None;
    }
    s.parse().ok()
}

fn parse_list<T>(s: &str, f: impl Fn(&str) -> Option<T>) -> Option<Vec<T>> {
    if s == "-" {
        return Some(Vec::new());
    }
    s.split(',').map(f).collect()
}

fn fmt_call(c: &Call) -> String {
    match c {
        Call::Choose(None) => "cn".into(),
        Call::Choose(Some(u)) => format!("c{u}"),
        Call::Status(u, st) => format!("s{u}.{st}"),
    }
}

fn fmt_list<T>(v: &[T], f: impl Fn(&T) -> String) -> String {
    if v.is_empty() {
        "-".into()
    } else {
        v.iter().map(f).collect::<Vec<_>>().join(",")
    }
}

fn fmt_case(calls: &[Vec<Call>], sched: &[u64]) -> String {
    format!(
        "sched {} {}",
        calls.iter().map(|c| fmt_list(c, fmt_call)).collect::<Vec<_>>().join("|"),
        fmt_list(sched, |t| t.to_string())
    )
}

fn worker(w: HomeRelay, calls: Vec<Call>, go: Receiver<()>, report: Sender<Report>) {
    let go = Rc::new(go);
    let go2 = go.clone();
    let report2 = report.clone();
    pause::set(Some(Box::new(move |p| {
        let _ = report2.send(Report::At(p));
        let _ = go2.recv();
    })));
    for c in calls {
        if go.recv().is_err() {
            break;
        }
        match c {
            Call::Choose(Some(u)) => w.set(url(u)),
            Call::Choose(None) => w.clear(),
            Call::Status(u, st) => w.set_status(&url(u), st),
        }
        let _ = report.send(Report::Done);
    }
    pause::set(None);
}

struct Th {
    go: Sender<()>,
    report: Receiver<Report>,
    status: Status,
    calls: Vec<Call>,
    next: usize,
    /// the call currently being executed
    cur: Option<Call>,
}

struct Sched {
    w: HomeRelay,
    ths: Vec<Th>,
    out: Vec<String>,
    /// the relay most recently chosen: argument of the last `set`/`clear` that returned
    latest: Option<u64>,
    blocked_seen: bool,
    matched_seen: bool,
    rejected_seen: bool,
    violations: Vec<(String, String)>,
}

impl Sched {
    /// Lets thread `t` attempt one atomic step.  Returns whether it made progress.
    fn step(&mut self, t: usize, emit_idle: bool) -> bool {
        let Some(th) = self.ths.get_mut(t) else {
            if emit_idle {
                self.out.push(format!("{t}e:{}", render_watch(&self.w.get())));
            }
            return false;
        };
        match th.status {
            Status::Idle if th.next >= th.calls.len() => {
                if emit_idle {
                    self.out.push(format!("{t}e:{}", render_watch(&self.w.get())));
                }
                return false;
            }
            Status::At(p) if p.ends_with("-lock") && self.w.write_locked() => {
                self.blocked_seen = true;
                if emit_idle {
                    self.out.push(format!("{t}b:{}", render_watch(&self.w.get())));
                }
                return false;
            }
            Status::Stuck => {
                if emit_idle {
                    self.out.push(format!("{t}T:{}", render_watch(&self.w.get())));
                }
                return false;
            }
            _ => {}
        }
        if th.status == Status::Idle {
            th.cur = Some(th.calls[th.next]);
            th.next += 1;
        }
        let before = self.w.get();
        let was_locked_status = matches!(th.status, Status::At(p) if p == "home_relay:status-locked");
        th.go.send(()).expect("worker alive");
        let code = match th.report.recv_timeout(Duration::from_secs(5)) {
            Ok(Report::At(p)) => {
                th.status = Status::At(p);
                if p.ends_with("-locked") {
                    "a"
                } else if p.ends_with("-lock") {
                    "i"
                } else if p == "home_relay:status-checked" {
                    self.matched_seen = true;
                    "m"
                } else {
                    "?"
                }
            }
            Ok(Report::Done) => {
                th.status = Status::Idle;
                if was_locked_status {
                    self.rejected_seen = true;
                }
                "d"
            }
            Err(_) => {
                th.status = Status::Stuck;
                "T"
            }
        };
        let cur = th.cur;
        let after = self.w.get();
        if code == "d" {
            if let Some(Call::Choose(r)) = cur {
                self.latest = r;
            }
        }
        self.out.push(format!("{t}{code}:{}", render_watch(&after)));
        // --- the property, evaluated on the real watch after every atomic step ---
        let adv = after.as_ref().map(|(u, _)| url_index(u));
        let want = self.latest.map(|u| u.to_string());
        if adv != want {
            self.violations.push((
                "stale-home-relay".into(),
                format!("after step {} the watch advertises {:?} but the relay most recently chosen is {:?}", self.out.len(), adv, want),
            ));
        }
        if let Some(Call::Status(u, _)) = cur {
            if before != after && Some(u) != self.latest {
                self.violations.push((
                    "demoted-write".into(),
                    format!("set_status for relay {u} changed the watch while the home relay is {:?}", self.latest),
                ));
            }
        }
        let public = self.w.watched();
        if public != after {
            self.violations.push(("watcher-differs".into(), format!("watcher sees {public:?}, get sees {after:?}")));
        }
        code != "T"
    }
}

fn run_sched(calls: &[Vec<Call>], sched: &[u64]) -> Exec {
    let w = HomeRelay::new();
    let mut ths = Vec::new();
    let mut handles = Vec::new();
    for cl in calls {
        let (go_tx, go_rx) = channel();
        let (rep_tx, rep_rx) = channel();
        let (w2, cl2) = (w.clone(), cl.clone());
        handles.push(std::thread::spawn(move || worker(w2, cl2, go_rx, rep_tx)));
        ths.push(Th { go: go_tx, report: rep_rx, status: Status::Idle, calls: cl.clone(), next: 0, cur: None });
    }
    let mut s = Sched {
        w,
        ths,
        out: Vec::new(),
        latest: None,
        blocked_seen: false,
        matched_seen: false,
        rejected_seen: false,
        violations: Vec::new(),
    };
    for &t in sched {
        s.step(t as usize, true);
    }
    // drain: the lock holder first, then every thread in order
    let holder = s.ths.iter().position(|th| {
        matches!(th.status, Status::At(p) if p.ends_with("-locked") || p == "home_relay:status-checked")
    });
    let order: Vec<usize> = holder.into_iter().chain(0..s.ths.len()).collect();
    for t in order {
        while s.step(t, false) {}
    }
    let stuck: Vec<bool> = s.ths.iter().map(|th| th.status != Status::Idle).collect();
    let Sched { w, ths, mut out, latest, blocked_seen, matched_seen, rejected_seen, violations } = s;
    drop(ths);
    for (h, stuck) in handles.into_iter().zip(stuck) {
        if !stuck {
            h.join().expect("worker exits cleanly");
        }
    }
    out.push(format!("final={}", render_watch(&w.get())));
    out.push(format!("chosen={}", latest.map_or("n".to_string(), |u| u.to_string())));
    let mut ex = Exec::new(out.join(" "));
    ex.violations = violations;
    if stuck_any(&ex.out) {
        ex.violation("stuck", "a thread did not reach its next pause point within 5 s");
    }
    for (seen, tag) in [(blocked_seen, "blocked"), (matched_seen, "guard-matched"), (rejected_seen, "guard-rejected")] {
        if seen {
            ex.tags.push(tag.into());
        }
    }
    ex.tags.push(format!("threads-{}", calls.len()));
    ex.nontrivial = blocked_seen || rejected_seen;
    ex
}

fn stuck_any(out: &str) -> bool {
    out.split(' ').any(|tok| tok.split(':').next().is_some_and(|h| h.ends_with('T')))
}

fn run_stress(urls: u64, per: u64, rounds: u64) -> Exec {
    let w = HomeRelay::new();
    let stop = Arc::new(AtomicBool::new(false));
    let writes = Arc::new(AtomicU64::new(0));
    let mut handles = Vec::new();
    for u in 0..urls {
        for k in 0..per {
            let (w, stop, writes) = (w.clone(), stop.clone(), writes.clone());
            handles.push(std::thread::spawn(move || {
                let me = url(u);
                let mut i = k;
                while !stop.load(Ordering::Relaxed) {
                    w.set_status(&me, (i % 3) as u8);
                    i += 1;
                    writes.fetch_add(1, Ordering::Relaxed);
                }
            }));
        }
    }
    let mut stale = 0u64;
    let mut ex = Exec::default();
    let mut last: Option<u64> = None;
    for r in 0..rounds {
        let choice = if r % 17 == 16 { None } else { Some((r * 7 + r / 3) % urls.max(1)) };
        match choice {
            Some(u) => w.set(url(u)),
            None => w.clear(),
        }
        last = choice;
        // only this thread writes urls: until its next choice the watch must show `choice`
        for _ in 0..200 {
            let got = w.get().map(|(u, _)| url_index(&u));
            if got != choice.map(|u| u.to_string()) {
                stale += 1;
                if stale <= 3 {
                    ex.violation("stale-home-relay", format!("round {r}: chose {choice:?}, watch shows {got:?}"));
                }
            }
        }
    }
    stop.store(true, Ordering::Relaxed);
    for h in handles {
        h.join().expect("updater");
    }
    let fin = w.get().map(|(u, _)| url_index(&u));
    let ok = fin == last.map(|u| u.to_string());
    if !ok {
        ex.violation("stale-home-relay", format!("at the end: chose {last:?}, watch shows {fin:?}"));
    }
    ex.out = format!("stress stale={stale} final={}", if ok { "ok" } else { "stale" });
    ex.tags.push("stress".into());
    ex.nontrivial = writes.load(Ordering::Relaxed) > 0;
    ex
}

impl Prop for C26 {
    fn id(&self) -> &'static str {
        "C26"
    }

    fn generate(&mut self, rng: &mut Rng, tier: Tier, n: usize, out: &mut Vec<String>) {
        use Call::*;
        // the interleaving of defect D10 (blocked by the writer lock since the fix)
        out.push(fmt_case(&[vec![Status(0, 1)], vec![Choose(Some(0)), Choose(Some(1))]], &[1, 1, 1, 0, 0, 0, 1, 1, 1, 0]));
        // the caller: the real RelayActor, home changes with and without existing connections
        for g in [
            "h0,t1,h1",          // the new home already has a (non-home) connection
            "h0,h1,h0",          // back to a former home whose actor is still alive
            "h0,t1,h1,h0,hn,h1", // … and through "no home relay"
            "t1,t0,h1,h0,h0",
            "h1,hn,t0,h0,t1,h1",
        ] {
            out.push(format!("glue {g}"));
        }
        let n_glue = if tier == Tier::Thorough { 60 } else { 12 };
        for _ in 0..n_glue {
            let len = rng.range(2, 7);
            let ops: Vec<String> = (0..len)
                .map(|_| match rng.below(8) {
                    0 => "hn".to_string(),
                    1..=4 => format!("h{}", rng.below(2)),
                    _ => format!("t{}", rng.below(2)),
                })
                .collect();
            out.push(format!("glue {}", ops.join(",")));
        }
        // free-running
        out.push("stress 2 2 300".into());
        if tier == Tier::Thorough {
            out.push("stress 3 4 3000".into());
            out.push("stress 1 8 3000".into());
        }
        // every schedule prefix over the relay actor, the old home's actor and the new home's actor
        let progs: Vec<Vec<Vec<Call>>> = vec![
            vec![vec![Choose(Some(0)), Choose(Some(1))], vec![Status(0, 1)], vec![Status(1, 1)]],
            vec![vec![Choose(Some(0)), Choose(None)], vec![Status(0, 1), Status(0, 2)]],
            vec![vec![Choose(Some(0)), Choose(Some(1)), Choose(Some(0))], vec![Status(0, 3)]],
        ];
        for p in &progs {
            let k = p.len() as u64;
            let depth = match (tier, k) {
                (Tier::Thorough, 3) => 8,
                (Tier::Thorough, _) => 10,
                _ => 6,
            };
            let total = k.pow(depth);
            for code in 0..total {
                let mut c = code;
                let sched: Vec<u64> = (0..depth).map(|_| { let d = c % k; c /= k; d }).collect();
                // the relay actor first chooses relay 0 (3 steps), then the enumerated prefix
                let mut s = vec![0, 0, 0];
                s.extend(sched);
                out.push(fmt_case(p, &s));
            }
        }
        // malformed
        for bad in ["glue", "glue h2", "glue x0", "glue h0,,t1", "", "sched", "sched c0 x", "sched s0.9 0", "sched c-1 0", "stress 1", "sched c0|s0.1 0,,1", "nonsense 1 2 3"] {
            out.push(bad.to_string());
        }
        // seeded random scripts
        while out.len() < n {
            let nth = rng.range(1, 4) as usize;
            let nurl = rng.range(1, 3);
            let mut calls = Vec::new();
            let mut total = 0;
            for t in 0..nth {
                let k = rng.range(0, 3) as usize;
                total += k;
                let mut v = Vec::new();
                for _ in 0..k {
                    // thread 0 is mostly the chooser, the others mostly updaters
                    let choose = if t == 0 { rng.chance(3, 4) } else { rng.chance(1, 6) };
                    v.push(if choose {
                        Choose(if rng.chance(1, 6) { None } else { Some(rng.below(nurl)) })
                    } else {
                        Status(rng.below(nurl), rng.below(4) as u8)
                    });
                }
                calls.push(v);
            }
            let len = rng.range(0, 4 * total as u64 + 3) as usize;
            // schedule entries may name a thread that does not exist (→ `e`)
            let sched: Vec<u64> = (0..len)
                .map(|_| {
                    let extra = if rng.chance(1, 20) { 1 } else { 0 };
                    rng.below(nth as u64 + extra)
                })
                .collect();
            out.push(fmt_case(&calls, &sched));
        }
    }

    fn execute(&mut self, payload: &str) -> Exec {
        let toks: Vec<&str> = payload.split(' ').collect();
        match toks.as_slice() {
            ["sched", cl, sc] => {
                let calls: Option<Vec<Vec<Call>>> = cl.split('|').map(|l| parse_list(l, parse_call)).collect();
                let sched = parse_list(sc, parse_nat);
                match (calls, sched) {
                    (Some(calls), Some(sched)) if calls.len() <= 16 => run_sched(&calls, &sched),
                    _ => Exec::new("bad-input").tag("malformed"),
                }
            }
            ["glue", ops] => {
                let parsed: Option<Vec<GlueOp>> = ops.split(',').map(parse_glue_op).collect();
                match parsed {
                    Some(ops) if ops.len() <= 24 => {
                        let sess = self.glue.get_or_insert_with(GlueSession::new);
                        match sess {
                            Ok(sess) => {
                                let seed = ops.len() as u64;
                                run_glue(sess, &ops, seed)
                            }
                            Err(e) => {
                                let mut ex = Exec::new("glue");
                                ex.infra = Some(format!("glue session: {e}"));
                                ex
                            }
                        }
                    }
                    _ => Exec::new("bad-input").tag("malformed"),
                }
            }
            ["stress", u, p, r] => match (parse_nat(u), parse_nat(p), parse_nat(r)) {
                (Some(u), Some(p), Some(r)) if u >= 1 && u * p <= 64 => run_stress(u, p, r),
                _ => Exec::new("bad-input").tag("malformed"),
            },
            _ => Exec::new("bad-input").tag("malformed"),
        }
    }
}

fn main() {
    run(C26 { glue: None });
}
