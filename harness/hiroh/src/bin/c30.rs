//! C30 — every lookup service ends up with the latest published address data.
//!
//! Real code: `iroh::address_lookup::AddressLookupServices::{add, publish}` run in real threads
//! whose interleaving is forced at the `cfg(iroh_verif)` pause points
//! (`iroh::verif_hooks::pause`): each worker installs a callback that reports the pause point and
//! blocks until the harness lets it go on.  Whether a step that starts with a lock acquisition
//! can run is asked of the REAL locks (`verif_hooks::address_lookup::can_lock` = `try_read` /
//! `try_write`), not assumed: a thread whose lock is taken is reported `blocked` and stays put.
//!
//! payload: `f=<n|r|i> pre=<ops|-> T=<ops|-> S=<tids|->`
//!   f    registry-wide address filter: none / relay_only / ip_only
//!   ops  comma-separated: `p<id>[r][i]` publish data <id> containing a relay url / an ip address,
//!        `a<sid>` add logging service <sid>
//!   pre  operations run sequentially before the threads start
//!   T    one operation per thread (thread id = position); every thread first runs to its first
//!        pause point
//!   S    schedule: thread ids; each step lets that thread run to its next pause point (`blocked`,
//!        without moving, when the lock probe says its acquisition would block).  `!<tid>`: if the
//!        probe says the acquisition would block, the real thread is sent into the real lock call
//!        anyway and must still be inside it after a bounded wait (`stuck`; `passed:<point>` if it
//!        came through); a stuck thread goes on by itself as soon as the holder releases
//!        (`+<tid>:<point>` appended to the step that released).  At most one thread is stuck at a
//!        time.  After the schedule the harness drains: lowest-numbered runnable thread first.
//! output: `<tid>:<pause point reached | done | blocked | stuck | waiting | noop>[+<tid>:<point>],.. | <drain steps> | last=<d|none> n=<len> s<sid>=[d.d.d] ..`
//!
//! Publish TRIGGERS (`E` payloads): a real `Endpoint` with a logging lookup service, driven through
//! the public API.
//! payload: `E <ip|relay|dead> <ops|->`
//!   ip     one IP transport bound to 127.0.0.1, relay disabled
//!   relay  no IP transport, home relay = an in-process relay server
//!   dead   no IP transport, the only relay in the map is unreachable: the endpoint starts with
//!          nothing to publish
//!   ops    `+x<k>` add_external_addr(198.51.100.<k+1>:4433)  `-x<k>` remove_external_addr
//!          `u<k>` set_user_data_for_address_lookup(Some("u<k>"))  `u-` .. (None)
//! payload: `EC <cfg> <ops|-> <A> <B>`: after `ops`, trigger A (`u<k>` / `u-`, run on a thread of its own)
//!   is parked at the pause point between the snapshot and the publication inside
//!   `Socket::publish_my_addr`; trigger B (any op) is attempted meanwhile: a user-data change on
//!   another thread must still be inside the call after a bounded wait (`B:blocked`), an address
//!   change through the actor must not reach the service (`B:quiet`); then A goes on and the
//!   service's last data must be the endpoint's current data (`final=..`)
//! model input: the payload plus `L=<0|1>`: whether the endpoint has direct addresses of its own
//! output: per op (and first for the start) what the service was LAST given once things settled:
//!   `ips=<L?.x<k>..> relay=<0|1> ud=<k|->` or `none`, joined by `;`
use std::sync::mpsc::{Receiver, Sender, channel};
use std::sync::{Arc, Mutex};
use std::time::Duration;

use iroh::address_lookup::{AddrFilter, AddressLookup, AddressLookupServices, EndpointData, UserData};
use iroh::verif_hooks::address_lookup::{self as hk, Lock};
use iroh::verif_hooks::pause;
use iroh_base::{RelayUrl, TransportAddr};
use vcommon::*;

#[derive(Clone, Copy, Debug, PartialEq, Eq)]
struct Data {
    id: u64,
    relay: bool,
    ip: bool,
}

impl Data {
    fn tok(&self) -> String {
        format!("{}{}{}", self.id, if self.relay { "r" } else { "" }, if self.ip { "i" } else { "" })
    }
    fn to_endpoint_data(self) -> EndpointData {
        let mut addrs = Vec::new();
        if self.relay {
            let url: RelayUrl = format!("https://r{}.example.", self.id).parse().unwrap();
            addrs.push(TransportAddr::Relay(url));
        }
        if self.ip {
            addrs.push(TransportAddr::Ip(format!("10.1.2.3:{}", 1000 + self.id % 60000).parse().unwrap()));
        }
        EndpointData::new(addrs).with_user_data(UserData::try_from(format!("d{}", self.id)).unwrap())
    }
    fn from_endpoint_data(d: &EndpointData) -> Data {
        let id = d.user_data().and_then(|u| u.as_ref().strip_prefix('d').and_then(|x| x.parse().ok())).unwrap_or(u64::MAX);
        Data { id, relay: d.relay_urls().next().is_some(), ip: d.ip_addrs().next().is_some() }
    }
}

#[derive(Clone, Copy, Debug, PartialEq, Eq)]
enum Op {
    Publish(Data),
    Add(u64),
}

#[derive(Clone, Copy, Debug, PartialEq, Eq)]
enum Filter {
    None,
    RelayOnly,
    IpOnly,
}

impl Filter {
    /// The documented meaning of the filter (oracle side).
    fn apply(self, d: Data) -> Data {
        match self {
            Filter::None => d,
            Filter::RelayOnly => Data { ip: false, ..d },
            Filter::IpOnly => Data { relay: false, ..d },
        }
    }
}

#[derive(Debug)]
struct LogSvc {
    log: Arc<Mutex<Vec<Data>>>,
}

impl AddressLookup for LogSvc {
    fn publish(&self, data: &EndpointData) {
        self.log.lock().unwrap().push(Data::from_endpoint_data(data));
    }
}

enum Ev {
    Reached(&'static str),
    Done,
}

struct Worker {
    resume: Sender<()>,
    events: Receiver<Ev>,
    at: Option<&'static str>,
    done: bool,
    /// sent into a lock call that did not return within the bounded wait
    committed: bool,
    /// pause points passed since the start
    steps: usize,
    is_publish: bool,
    handle: Option<std::thread::JoinHandle<()>>,
}

fn parse_nat(s: &str) -> Option<u64> {
    if s.is_empty() || s.len() > 15 || !s.bytes().all(|b| b.is_ascii_digit()) {
        return None;
    }
    s.parse().ok()
}

fn parse_op(s: &str) -> Option<Op> {
    let (k, rest) = s.split_at_checked(1)?;
    match k {
        "a" => Some(Op::Add(parse_nat(rest)?)),
        "p" => {
            let digits: String = rest.chars().take_while(|c| c.is_ascii_digit()).collect();
            let flags = &rest[digits.len()..];
            let (relay, ip) = match flags {
                "" => (false, false),
                "r" => (true, false),
                "i" => (false, true),
                "ri" => (true, true),
                _ => return None,
            };
            Some(Op::Publish(Data { id: parse_nat(&digits)?, relay, ip }))
        }
        _ => None,
    }
}

fn parse_ops(s: &str) -> Option<Vec<Op>> {
    if s == "-" {
        return Some(vec![]);
    }
    s.split(',').map(parse_op).collect()
}

struct Case {
    filter: Filter,
    pre: Vec<Op>,
    threads: Vec<Op>,
    /// (thread, attempt even if the lock probe says the step would block)
    sched: Vec<(usize, bool)>,
}

fn parse_case(payload: &str) -> Option<Case> {
    let t: Vec<&str> = payload.split_whitespace().collect();
    let [f, pre, th, sc] = t[..] else { return None };
    let filter = match f.strip_prefix("f=")? {
        "n" => Filter::None,
        "r" => Filter::RelayOnly,
        "i" => Filter::IpOnly,
        _ => return None,
    };
    let pre = parse_ops(pre.strip_prefix("pre=")?)?;
    let threads = parse_ops(th.strip_prefix("T=")?)?;
    let sc = sc.strip_prefix("S=")?;
    let sched: Vec<(usize, bool)> = if sc == "-" {
        vec![]
    } else {
        sc.split(',')
            .map(|x| match x.strip_prefix('!') {
                Some(y) => parse_nat(y).map(|v| (v as usize, true)),
                None => parse_nat(x).map(|v| (v as usize, false)),
            })
            .collect::<Option<_>>()?
    };
    // service ids must be distinct
    let mut sids: Vec<u64> = pre.iter().chain(threads.iter()).filter_map(|o| if let Op::Add(s) = o { Some(*s) } else { None }).collect();
    sids.sort();
    if sids.windows(2).any(|w| w[0] == w[1]) {
        return None;
    }
    Some(Case { filter, pre, threads, sched })
}

fn lock_of(point: &str) -> Option<Lock> {
    if point.ends_with("lock-last-read") {
        Some(Lock::LastRead)
    } else if point.ends_with("lock-last-write") {
        Some(Lock::LastWrite)
    } else if point.ends_with("lock-services-read") {
        Some(Lock::ServicesRead)
    } else if point.ends_with("lock-services-write") {
        Some(Lock::ServicesWrite)
    } else {
        None
    }
}

/// The endpoint data a lookup service holds / the endpoint currently has, canonical.
#[derive(Clone, Debug, PartialEq, Eq)]
struct View {
    local: bool,
    ext: Vec<u64>,
    relay: bool,
    ud: Option<String>,
}

impl View {
    fn tok(&self) -> String {
        let mut ips: Vec<String> = Vec::new();
        if self.local {
            ips.push("L".into());
        }
        ips.extend(self.ext.iter().map(|k| format!("x{k}")));
        format!("ips={} relay={} ud={}", if ips.is_empty() { "-".into() } else { ips.join(".") }, self.relay as u8, self.ud.clone().unwrap_or("-".into()))
    }
    fn is_empty(&self) -> bool {
        !self.local && self.ext.is_empty() && !self.relay && self.ud.is_none()
    }
}

fn ext_addr(k: u64) -> std::net::SocketAddr {
    std::net::SocketAddr::from((std::net::Ipv4Addr::new(198, 51, 100, (k % 250) as u8 + 1), 4433))
}

fn view_of(ips: impl Iterator<Item = std::net::SocketAddr>, relay: bool, ud: Option<String>) -> View {
    let mut local = false;
    let mut ext = Vec::new();
    for a in ips {
        match a {
            std::net::SocketAddr::V4(v4) if v4.ip().octets()[..3] == [198, 51, 100] && v4.port() == 4433 => {
                ext.push(v4.ip().octets()[3] as u64 - 1)
            }
            _ => local = true,
        }
    }
    ext.sort();
    View { local, ext, relay, ud }
}

#[derive(Debug, Default, Clone)]
struct Recorder(Arc<Mutex<Vec<EndpointData>>>);

impl AddressLookup for Recorder {
    fn publish(&self, data: &EndpointData) {
        self.0.lock().unwrap().push(data.clone());
    }
}

impl Recorder {
    fn last(&self) -> Option<View> {
        self.0.lock().unwrap().last().map(|d| {
            view_of(d.ip_addrs().copied(), d.relay_urls().next().is_some(), d.user_data().map(|u| u.as_ref().to_string()))
        })
    }
}

#[derive(Clone, Debug, PartialEq, Eq)]
enum EOp {
    AddExt(u64),
    RemExt(u64),
    UserData(Option<u64>),
}

fn parse_eops(s: &str) -> Option<Vec<EOp>> {
    if s == "-" {
        return Some(vec![]);
    }
    s.split(',')
        .map(|t| {
            if let Some(k) = t.strip_prefix("+x") {
                Some(EOp::AddExt(parse_nat(k)?))
            } else if let Some(k) = t.strip_prefix("-x") {
                Some(EOp::RemExt(parse_nat(k)?))
            } else if t == "u-" {
                Some(EOp::UserData(None))
            } else if let Some(k) = t.strip_prefix('u') {
                Some(EOp::UserData(Some(parse_nat(k)?)))
            } else {
                None
            }
        })
        .collect()
}

/// The endpoint's own view of its data.
fn current_view(ep: &iroh::Endpoint, ud: &Option<String>) -> View {
    let a = ep.addr();
    view_of(a.ip_addrs().copied(), a.relay_urls().next().is_some(), ud.clone())
}

/// Polls `cond` until it holds or `max` has passed.
async fn until(mut cond: impl FnMut() -> bool, max: Duration) -> bool {
    let t0 = std::time::Instant::now();
    while t0.elapsed() < max {
        if cond() {
            return true;
        }
        tokio::time::sleep(STEP).await;
    }
    cond()
}

/// What the service holds once things settled: waits (bounded) for it to equal the endpoint's own
/// view; evaluates the oracle on what it holds then.
async fn observe(
    rec: &Recorder,
    ep: &iroh::Endpoint,
    ud: &Option<String>,
    prev: &Option<View>,
    what: &str,
    ex: &mut Exec,
    outs: &mut Vec<String>,
) -> Result<Option<View>, String> {
    // The endpoint's own background triggers (net report settling, interface changes) may still
    // change its data: read (endpoint view, service log, endpoint view) until the two views agree
    // and the service holds that view — or the bounded wait is over.
    let t0 = std::time::Instant::now();
    let (want, last) = loop {
        let w1 = current_view(ep, ud);
        let last = rec.last();
        let w2 = current_view(ep, ud);
        let stable = w1 == w2;
        let waited = t0.elapsed();
        if stable && (last.as_ref() == Some(&w1) || (w1.is_empty() && waited >= Duration::from_millis(150))) {
            break (w1, last);
        }
        if waited >= SETTLE {
            if !stable {
                return Err(format!("after {what}: the endpoint's own data kept changing during the bounded wait"));
            }
            break (w1, last);
        }
        tokio::time::sleep(STEP).await;
    };
    outs.push(last.as_ref().map_or("none".into(), |v| v.tok()));
    if want.is_empty() {
        // nothing to publish: the code keeps quiet; the service keeps what it had
        if last != *prev {
            ex.violation(
                "published-empty-data",
                format!("after {what}: endpoint data is empty, service went from {:?} to {:?}", prev.as_ref().map(|v| v.tok()), last.as_ref().map(|v| v.tok())),
            );
        }
    } else if last.as_ref() != Some(&want) {
        ex.violation(
            "service-stale-after-change",
            format!("after {what}: endpoint has `{}`, service was last given `{}`", want.tok(), last.as_ref().map_or("nothing".into(), |v| v.tok())),
        );
    }
    Ok(last)
}

/// Bounded waits (real time).
const STEP: Duration = Duration::from_millis(5);
const SETTLE: Duration = Duration::from_millis(1500);

impl C30 {
    /// `E` / `EC` payloads: publish triggers on a real endpoint.  `conc = Some((A, B))`: after
    /// `ops`, trigger A (a user-data change on a thread of its own) is parked at the pause point
    /// between its snapshot and its publication, trigger B is attempted meanwhile.
    fn run_endpoint(&self, cfg: &str, ops: &[EOp], conc: Option<(EOp, EOp)>, payload: &str) -> Exec {
        use iroh::endpoint::presets;
        use iroh::{Endpoint, RelayMode};
        let rt = match tokio::runtime::Builder::new_multi_thread().worker_threads(3).enable_all().build() {
            Ok(rt) => rt,
            Err(e) => return Exec { infra: Some(format!("runtime: {e}")), ..Default::default() },
        };
        let cfg = cfg.to_string();
        let ops = ops.to_vec();
        let payload = payload.to_string();
        let infra = |why: String| Exec { infra: Some(why), ..Default::default() };
        rt.block_on(async move {
            let mut ex = Exec::default();
            let rec = Recorder::default();
            let mut builder = Endpoint::builder(presets::Minimal).address_lookup(rec.clone());
            let mut relay_guard = None;
            match cfg.as_str() {
                "ip" => {
                    builder = match builder.clear_ip_transports().bind_addr("127.0.0.1:0") {
                        Ok(b) => b.relay_mode(RelayMode::Disabled),
                        Err(e) => return infra(format!("bind_addr: {e:?}")),
                    };
                }
                "dead" => {
                    // a relay nobody listens on: the endpoint never gets a home relay
                    let url: RelayUrl = "https://127.0.0.1:9".parse().unwrap();
                    builder = builder
                        .clear_ip_transports()
                        .relay_mode(RelayMode::Custom(iroh::RelayMap::from(url)))
                        .ca_tls_config(iroh::tls::CaTlsConfig::insecure_skip_verify());
                }
                _ => match iroh::test_utils::run_relay_server().await {
                    Ok((map, _url, guard)) => {
                        relay_guard = Some(guard);
                        builder = builder
                            .clear_ip_transports()
                            .relay_mode(RelayMode::Custom(map))
                            .ca_tls_config(iroh::tls::CaTlsConfig::insecure_skip_verify());
                    }
                    Err(e) => return infra(format!("relay server: {e:?}")),
                },
            }
            let ep = match tokio::time::timeout(Duration::from_secs(20), builder.bind()).await {
                Ok(Ok(ep)) => ep,
                Ok(Err(e)) => return infra(format!("bind: {e:?}")),
                Err(_) => return infra("bind timed out".into()),
            };
            if cfg == "relay" && tokio::time::timeout(Duration::from_secs(20), ep.online()).await.is_err() {
                return infra("endpoint never got online with the in-process relay".into());
            }
            let mut ud: Option<String> = None;
            let mut outs: Vec<String> = Vec::new();
            let mut published_before: Option<View>;
            macro_rules! observe_or_infra {
                ($what:expr) => {
                    match observe(&rec, &ep, &ud, &published_before.clone(), $what, &mut ex, &mut outs).await {
                        Ok(v) => v,
                        Err(why) => {
                            ep.close().await;
                            return infra(why);
                        }
                    }
                };
            }
            published_before = None;
            published_before = observe_or_infra!("start");
            let local = current_view(&ep, &ud).local;
            // an address operation through the actor; `false`: it did not show in `Endpoint::addr()`
            async fn addr_op(ep: &Endpoint, op: &EOp) -> bool {
                match op {
                    EOp::AddExt(k) => {
                        ep.add_external_addr(ext_addr(*k)).await;
                        until(|| ep.addr().ip_addrs().any(|a| *a == ext_addr(*k)), SETTLE).await
                    }
                    EOp::RemExt(k) => {
                        ep.remove_external_addr(&ext_addr(*k)).await;
                        until(|| !ep.addr().ip_addrs().any(|a| *a == ext_addr(*k)), SETTLE).await
                    }
                    EOp::UserData(_) => true,
                }
            }
            let ud_of = |k: &Option<u64>| k.map(|k| format!("u{k}"));
            let to_user_data = |u: &Option<String>| u.clone().map(|s| UserData::try_from(s).unwrap());
            for op in &ops {
                if let EOp::UserData(k) = op {
                    ud = ud_of(k);
                    ep.set_user_data_for_address_lookup(to_user_data(&ud));
                } else if !addr_op(&ep, op).await {
                    ep.close().await;
                    return infra(format!("{op:?} did not show in Endpoint::addr() within the bounded wait"));
                }
                published_before = observe_or_infra!(&format!("{op:?}"));
            }
            if let Some((a, b)) = &conc {
                let EOp::UserData(ka) = a else { unreachable!() };
                // ---- trigger A on a thread of its own, parked between snapshot and publication ----
                let (ev_tx, ev_rx) = channel::<Ev>();
                let (resume_tx, resume_rx) = channel::<()>();
                let ep_a = ep.clone();
                let ud_a = to_user_data(&ud_of(ka));
                let handle_a = std::thread::spawn(move || {
                    let tx = ev_tx.clone();
                    pause::set(Some(Box::new(move |name| {
                        if name == "publish_my_addr:publish" {
                            let _ = tx.send(Ev::Reached(name));
                            let _ = resume_rx.recv();
                        }
                    })));
                    ep_a.set_user_data_for_address_lookup(ud_a);
                    pause::set(None);
                    let _ = ev_tx.send(Ev::Done);
                });
                ud = ud_of(ka);
                let parked = match ev_rx.recv_timeout(Duration::from_secs(5)) {
                    Ok(Ev::Reached(_)) => true,
                    Ok(Ev::Done) => false,
                    Err(_) => {
                        return infra("trigger A neither reached its pause point nor finished".into());
                    }
                };
                outs.push(if parked { "A:parked".into() } else { "A:done".to_string() });
                // ---- trigger B ----
                const ATTEMPT: Duration = Duration::from_millis(120);
                let log_len = rec.0.lock().unwrap().len();
                let mut handle_b = None;
                match b {
                    EOp::UserData(kb) => {
                        let ep_b = ep.clone();
                        let ud_b = to_user_data(&ud_of(kb));
                        let (done_tx, done_rx) = channel::<()>();
                        handle_b = Some(std::thread::spawn(move || {
                            ep_b.set_user_data_for_address_lookup(ud_b);
                            let _ = done_tx.send(());
                        }));
                        ud = ud_of(kb);
                        if parked {
                            // B's publication must wait for A: the thread is still inside the call
                            let finished = done_rx.recv_timeout(ATTEMPT).is_ok();
                            outs.push(if finished { "B:done".into() } else { "B:blocked".to_string() });
                        } else {
                            outs.push("B:run".into());
                        }
                    }
                    op => {
                        if !addr_op(&ep, op).await {
                            let _ = resume_tx.send(());
                            ep.close().await;
                            return infra(format!("{op:?} did not show in Endpoint::addr() within the bounded wait"));
                        }
                        if parked {
                            // the actor's publication must wait for A: nothing new reaches the service
                            tokio::time::sleep(ATTEMPT).await;
                            let grew = rec.0.lock().unwrap().len() > log_len;
                            outs.push(if grew { "B:passed".into() } else { "B:quiet".to_string() });
                        } else {
                            outs.push("B:run".into());
                        }
                    }
                }
                // ---- A goes on; everything finishes ----
                if parked {
                    let _ = resume_tx.send(());
                    if !matches!(ev_rx.recv_timeout(Duration::from_secs(5)), Ok(Ev::Done)) {
                        return infra("trigger A did not finish after being resumed".into());
                    }
                }
                let _ = handle_a.join();
                if let Some(h) = handle_b {
                    let t0 = std::time::Instant::now();
                    while !h.is_finished() && t0.elapsed() < Duration::from_secs(5) {
                        tokio::time::sleep(STEP).await;
                    }
                    if !h.is_finished() {
                        ex.violation("trigger-stuck", "trigger B never finished after A released the lock");
                    } else {
                        let _ = h.join();
                    }
                }
                // what the services hold now must be the endpoint's current data
                let n = outs.len();
                // (two triggers ran: if the data ended all-empty, what the services keep is whatever
                // the earlier of them published — the comparison with the model checks that)
                published_before = rec.last();
                published_before = observe_or_infra!("concurrent triggers");
                let fin = outs.pop().unwrap();
                debug_assert_eq!(outs.len() + 1, n + 1);
                outs.push(format!("final={fin}"));
                let _ = &published_before;
            }
            ep.close().await;
            drop(relay_guard);
            ex.out = outs.join(";");
            ex.model_input = Some(format!("{payload} L={}", local as u8));
            ex.nontrivial = !ops.is_empty() || conc.is_some();
            ex.tags.push(format!("{}-{cfg}", if conc.is_some() { "EC" } else { "E" }));
            ex
        })
    }
}

struct C30;

impl C30 {
    fn run_case(&self, c: &Case) -> Exec {
        let mut ex = Exec::default();
        let reg = AddressLookupServices::default();
        match c.filter {
            Filter::None => {}
            Filter::RelayOnly => reg.set_addr_filter(AddrFilter::relay_only()),
            Filter::IpOnly => reg.set_addr_filter(AddrFilter::ip_only()),
        }
        let mut logs: Vec<(u64, Arc<Mutex<Vec<Data>>>)> = Vec::new();
        let mut mk_svc = |sid: u64| {
            let log = Arc::new(Mutex::new(Vec::new()));
            logs.push((sid, log.clone()));
            LogSvc { log }
        };
        for op in &c.pre {
            match op {
                Op::Publish(d) => hk::publish(&reg, &d.to_endpoint_data()),
                Op::Add(sid) => reg.add(mk_svc(*sid)),
            }
        }
        // spawn the workers; each runs to its first pause point
        let mut workers: Vec<Worker> = Vec::new();
        for op in &c.threads {
            let (resume_tx, resume_rx) = channel::<()>();
            let (ev_tx, ev_rx) = channel::<Ev>();
            let reg = reg.clone();
            let op = *op;
            let svc = if let Op::Add(sid) = op { Some(mk_svc(sid)) } else { None };
            let handle = std::thread::spawn(move || {
                let tx = ev_tx.clone();
                pause::set(Some(Box::new(move |name| {
                    let _ = tx.send(Ev::Reached(name));
                    let _ = resume_rx.recv();
                })));
                match op {
                    Op::Publish(d) => hk::publish(&reg, &d.to_endpoint_data()),
                    Op::Add(_) => reg.add(svc.unwrap()),
                }
                pause::set(None);
                let _ = ev_tx.send(Ev::Done);
            });
            workers.push(Worker { resume: resume_tx, events: ev_rx, at: None, done: false, committed: false, steps: 0, is_publish: matches!(op, Op::Publish(_)), handle: Some(handle) });
        }
        let mut hang = false;
        let mut attempts = 0usize;
        // Wait for the worker's next event; `false` = nothing within `dur`.
        let wait = |w: &mut Worker, dur: Duration| -> bool {
            match w.events.recv_timeout(dur) {
                Ok(Ev::Reached(name)) => {
                    w.at = Some(name);
                    w.steps += 1;
                    true
                }
                Ok(Ev::Done) => {
                    w.at = None;
                    w.done = true;
                    w.steps += 1;
                    true
                }
                Err(_) => false,
            }
        };
        const LONG: Duration = Duration::from_secs(10);
        // Bounded wait used to observe that a thread sent into a contended lock really blocks.
        const SHORT: Duration = Duration::from_millis(40);
        for w in workers.iter_mut() {
            if !wait(w, LONG) {
                hang = true;
            }
            w.steps = 0;
        }
        let runnable = |w: &Worker, reg: &AddressLookupServices| -> bool {
            if w.done || w.committed {
                return false;
            }
            match w.at.and_then(lock_of) {
                Some(l) => hk::can_lock(reg, l),
                None => true,
            }
        };
        // After a step: a thread parked inside a lock call goes on as soon as the lock is released.
        // How long to wait for that is only a matter of speed: a long wait when no other thread that
        // could hold the lock is inside its operation, the bounded short wait otherwise.
        let settle = |workers: &mut Vec<Worker>| -> String {
            let Some(c) = workers.iter().position(|w| w.committed) else { return String::new() };
            let wants = workers[c].at.and_then(lock_of);
            let others_inside = |only_publish: bool| {
                workers.iter().enumerate().any(|(i, w)| i != c && w.steps > 0 && !w.done && (!only_publish || w.is_publish))
            };
            let expect_free = match wants {
                Some(Lock::LastWrite) => !others_inside(false),
                _ => !others_inside(true),
            };
            let w = &mut workers[c];
            if wait(w, if expect_free { LONG } else { SHORT }) {
                w.committed = false;
                match w.at {
                    Some(name) => format!("+{c}:{name}"),
                    None => format!("+{c}:done"),
                }
            } else {
                String::new()
            }
        };
        let mut step = |workers: &mut Vec<Worker>, tid: usize, attempt: bool, hang: &mut bool| -> String {
            let Some(w) = workers.get(tid) else { return format!("{tid}:noop") };
            if w.done {
                return format!("{tid}:noop");
            }
            if w.committed {
                return format!("{tid}:waiting");
            }
            if !runnable(w, &reg) {
                if attempt && !workers.iter().any(|w| w.committed) {
                    // Let the real thread run into the real lock call and watch it block.
                    attempts += 1;
                    let w = &mut workers[tid];
                    let _ = w.resume.send(());
                    if wait(w, SHORT) {
                        let tok = match w.at {
                            Some(name) => format!("{tid}:passed:{name}"),
                            None => format!("{tid}:passed:done"),
                        };
                        return tok + &settle(workers);
                    }
                    w.committed = true;
                    return format!("{tid}:stuck");
                }
                return format!("{tid}:blocked");
            }
            let w = &mut workers[tid];
            let _ = w.resume.send(());
            if !wait(w, LONG) {
                *hang = true;
                return format!("{tid}:hang");
            }
            let tok = match w.at {
                Some(name) => format!("{tid}:{name}"),
                None => format!("{tid}:done"),
            };
            tok + &settle(workers)
        };
        let mut toks: Vec<String> = Vec::new();
        if !hang {
            for (tid, attempt) in &c.sched {
                toks.push(step(&mut workers, *tid, *attempt, &mut hang));
                if hang {
                    break;
                }
            }
        }
        // drain: lowest-numbered runnable thread first
        let mut drain: Vec<String> = Vec::new();
        let mut deadlock = false;
        while !hang && workers.iter().any(|w| !w.done) {
            match (0..workers.len()).find(|i| runnable(&workers[*i], &reg)) {
                Some(tid) => drain.push(step(&mut workers, tid, false, &mut hang)),
                None => {
                    deadlock = true;
                    break;
                }
            }
        }
        if hang || deadlock {
            // leave the stuck threads behind (they hold no harness resource); report
            ex.out = format!("{} | {} | {}", toks.join(","), drain.join(","), if hang { "hang" } else { "deadlock" });
            ex.violation(if hang { "hang" } else { "deadlock" }, "threads could not all finish");
            for w in workers.iter_mut() {
                w.handle.take();
            }
            return ex;
        }
        for w in workers.iter_mut() {
            if let Some(h) = w.handle.take() {
                let _ = h.join();
            }
        }
        // ---- quiescent: observe ----
        let last = hk::last_data(&reg).flatten().map(|d| Data::from_endpoint_data(&d));
        logs.sort_by_key(|x| x.0);
        let mut fin = vec![format!("last={}", last.map_or("none".into(), |d| d.tok())), format!("n={}", reg.len())];
        for (sid, log) in &logs {
            let l = log.lock().unwrap();
            fin.push(format!("s{sid}=[{}]", l.iter().map(|d| d.tok()).collect::<Vec<_>>().join(".")));
        }
        // ---- oracle (independent of the model) ----
        if reg.len() != logs.len() {
            ex.violation("service-lost", format!("{} services added, {} registered", logs.len(), reg.len()));
        }
        let published: Vec<Data> =
            c.pre.iter().chain(c.threads.iter()).filter_map(|o| if let Op::Publish(d) = o { Some(c.filter.apply(*d)) } else { None }).collect();
        match last {
            None if !published.is_empty() => ex.violation("last-missing", "data was published but last_data is empty"),
            Some(l) if !published.contains(&l) => ex.violation("last-unfiltered-or-foreign", format!("last_data = {}", l.tok())),
            _ => {}
        }
        for (sid, log) in &logs {
            let l = log.lock().unwrap();
            if l.last().copied() != last {
                ex.violation(
                    "stale-service",
                    format!(
                        "service {sid} was last given {}, latest published is {}",
                        l.last().map_or("nothing".into(), |d| d.tok()),
                        last.map_or("none".into(), |d| d.tok())
                    ),
                );
            }
            if let Some(bad) = l.iter().find(|d| !published.contains(d)) {
                ex.violation("filter-not-applied", format!("service {sid} was given {}", bad.tok()));
            }
        }
        ex.out = format!("{} | {} | {}", toks.join(","), drain.join(","), fin.join(" "));
        let n_pub = c.threads.iter().filter(|o| matches!(o, Op::Publish(_))).count();
        let n_add = c.threads.len() - n_pub;
        ex.nontrivial = c.threads.len() >= 2;
        ex.tags.push(format!("threads-{}p{}a", n_pub.min(3), n_add.min(3)));
        if toks.iter().any(|t| t.ends_with(":blocked")) {
            ex.tags.push("saw-blocked".into());
        }
        if attempts > 0 {
            ex.tags.push("lock-attempted-under-contention".into());
        }
        if toks.iter().chain(drain.iter()).any(|t| t.contains(":passed:")) {
            ex.tags.push("passed-through-held-lock".into());
        }
        ex
    }
}

// ---------------------------------------------------------------------------------------------
// generator

fn fmt_op(o: &Op) -> String {
    match o {
        Op::Publish(d) => format!("p{}", d.tok()),
        Op::Add(s) => format!("a{s}"),
    }
}

fn fmt_ops(ops: &[Op]) -> String {
    if ops.is_empty() { "-".into() } else { ops.iter().map(fmt_op).collect::<Vec<_>>().join(",") }
}

fn fmt_case(f: char, pre: &[Op], th: &[Op], sched: &[usize]) -> String {
    let s = if sched.is_empty() { "-".to_string() } else { sched.iter().map(|x| x.to_string()).collect::<Vec<_>>().join(",") };
    format!("f={f} pre={} T={} S={s}", fmt_ops(pre), fmt_ops(th))
}

/// Upper bound on the number of steps an operation takes with `n_services` registered at most.
fn steps_of(op: &Op, n_services: usize) -> usize {
    match op {
        Op::Publish(_) => 3 + n_services,
        Op::Add(_) => 2,
    }
}

fn all_interleavings(counts: &[usize], limit: usize) -> Option<Vec<Vec<usize>>> {
    fn go(counts: &mut Vec<usize>, cur: &mut Vec<usize>, out: &mut Vec<Vec<usize>>, limit: usize) -> bool {
        if counts.iter().all(|c| *c == 0) {
            out.push(cur.clone());
            return out.len() <= limit;
        }
        for i in 0..counts.len() {
            if counts[i] > 0 {
                counts[i] -= 1;
                cur.push(i);
                let ok = go(counts, cur, out, limit);
                cur.pop();
                counts[i] += 1;
                if !ok {
                    return false;
                }
            }
        }
        true
    }
    let mut out = Vec::new();
    if go(&mut counts.to_vec(), &mut Vec::new(), &mut out, limit) { Some(out) } else { None }
}

fn d(id: u64) -> Data {
    Data { id, relay: true, ip: true }
}

impl Prop for C30 {
    fn id(&self) -> &'static str {
        "C30"
    }

    fn generate(&mut self, rng: &mut Rng, tier: Tier, n: usize, out: &mut Vec<String>) {
        // D12: add reads last = d1, publish d2 runs completely, add pushes
        out.push("f=n pre=a0,p1ri T=a1,p2ri S=0,1,1,1,1,0".into());
        // two publishes interleaved over two services
        out.push("f=n pre=a0,a1 T=p1ri,p2ri S=0,0,0,1,1,1,1,1,0,0".into());
        // add before anything was published, publish in between
        out.push("f=r pre=- T=a0,p1ri S=0,1,1,1,0".into());
        // a thread really sent into a held lock: publish parked at every point inside its critical
        // section (0, 1, 2 registered services); an add, resp. a second publish, attempts its
        // acquisition; the parked publish finishes; the other finishes
        for n_svc in 0..3usize {
            let pre: Vec<String> = (0..n_svc).map(|i| format!("a{i}")).chain(["p1ri".to_string()]).collect();
            for park in 1..=(2 + n_svc) {
                let head: Vec<&str> = std::iter::repeat_n("0", park).collect();
                for other in [format!("a{n_svc}"), "p3r".to_string()] {
                    for f in ['n', 'r'] {
                        out.push(format!("f={f} pre={} T=p2ri,{other} S={},!1,0,0", pre.join(","), head.join(",")));
                    }
                }
            }
            // add parked inside its critical section, a publish attempts last_data.write()
            out.push(format!("f=n pre={} T=a{n_svc},p2ri S=0,!1,1,0", pre.join(",")));
            // ... with a further add arriving while the writer waits
            out.push(format!("f=n pre={} T=a{n_svc},p2ri,a9 S=0,!1,2,0,2", pre.join(",")));
        }
        // publish triggers on a real endpoint
        for p in [
            "E ip -",
            "E ip +x1,u5,-x1,u-",
            "E dead -",
            "E dead u3,+x2,-x2,u-,+x4,-x4",
            "E relay +x1,-x1",
            "E relay u7,+x3,u-,-x3",
            "E relay +x1,+x2,-x1,-x2,u1",
            "E dead u1,+x1,-x1",
            "E ip u1,u1,u2,+x1,+x1,-x2",
            "E relay r-",
            "E none -",
            "E ip +y1",
        ] {
            out.push(p.to_string());
        }
        // concurrent triggers: A parked between snapshot and publication, B attempted
        for p in [
            "EC ip u0 u1 u2",
            "EC ip u0 u1 +x1",
            "EC relay +x1 u1 -x1",
            "EC relay - u1 +x2",
            "EC dead - u1 u2",
            "EC dead - u1 +x1",
            "EC dead - u- u2",
            "EC ip u1 u1 u2",
            "EC relay u3 u4 u4",
            "EC dead +x1,u1 u- -x1",
            "EC ip - +x1 u1",
            "EC ip - u1 u1,u2",
        ] {
            out.push(p.to_string());
        }
        let n_ec = if tier == Tier::Thorough { 120 } else { 15 };
        for i in 0..n_ec {
            let cfg = ["ip", "relay", "dead"][i % 3];
            let mut pre: Vec<String> = Vec::new();
            let mut present: Vec<u64> = Vec::new();
            for _ in 0..rng.below(3) {
                if rng.bool() {
                    let k = rng.below(3);
                    present.push(k);
                    pre.push(format!("+x{k}"));
                } else {
                    pre.push(format!("u{}", rng.below(3)));
                }
            }
            let a = if rng.chance(1, 6) { "u-".to_string() } else { format!("u{}", 3 + rng.below(3)) };
            let b = match rng.below(4) {
                0 => format!("u{}", 6 + rng.below(3)),
                1 if !present.is_empty() => format!("-x{}", rng.pick(&present)),
                2 => "u-".to_string(),
                _ => format!("+x{}", 3 + rng.below(2)),
            };
            out.push(format!("EC {cfg} {} {a} {b}", if pre.is_empty() { "-".into() } else { pre.join(",") }));
        }
        let n_e = if tier == Tier::Thorough { 240 } else { 30 };
        for i in 0..n_e {
            let cfg = ["relay", "dead", "ip"][i % 3];
            let mut ops: Vec<String> = Vec::new();
            let mut present: Vec<u64> = Vec::new();
            for _ in 0..rng.range(1, 6) {
                match rng.below(5) {
                    0 | 1 => {
                        let k = rng.below(3);
                        if !present.contains(&k) {
                            present.push(k);
                        }
                        ops.push(format!("+x{k}"));
                    }
                    2 => {
                        // mostly remove something present (so that the set can become empty)
                        let k = if !present.is_empty() && rng.chance(4, 5) { present.remove(rng.usize_below(present.len())) } else { rng.below(3) };
                        present.retain(|x| *x != k);
                        ops.push(format!("-x{k}"));
                    }
                    3 => ops.push(format!("u{}", rng.below(3))),
                    _ => ops.push("u-".into()),
                }
            }
            // finish by removing everything that was added: the direct-address set shrinks again
            if rng.bool() {
                for k in present.drain(..) {
                    ops.push(format!("-x{k}"));
                }
            }
            out.push(format!("E {cfg} {}", ops.join(",")));
        }
        // sequential sanity
        out.push("f=i pre=a0,p1ri,a1,p2r,a2 T=- S=-".into());
        out.push("f=n pre=- T=- S=0,1".into());
        // malformed
        for p in ["", "f=x pre=- T=- S=-", "f=n pre=a0,a0 T=- S=-", "f=n pre=q1 T=- S=-", "f=n pre=- T=p1x S=-", "f=n pre=- T=- S=a", "f=n pre=- T=-"] {
            out.push(p.to_string());
        }
        // exhaustive small scopes: all schedules (each thread scheduled as often as it has steps)
        let scopes: Vec<(Vec<Op>, Vec<Op>)> = vec![
            (vec![Op::Add(0), Op::Publish(d(1))], vec![Op::Add(1), Op::Publish(d(2))]),
            (vec![Op::Add(0)], vec![Op::Add(1), Op::Publish(d(2))]),
            (vec![], vec![Op::Add(0), Op::Publish(d(1))]),
            (vec![Op::Add(0), Op::Add(1)], vec![Op::Publish(d(1)), Op::Publish(d(2))]),
            (vec![Op::Publish(d(9))], vec![Op::Add(0), Op::Add(1)]),
            (vec![Op::Add(0)], vec![Op::Publish(d(1)), Op::Publish(d(2)), Op::Add(1)]),
            (vec![], vec![Op::Publish(d(1)), Op::Publish(d(2)), Op::Add(0)]),
            (vec![Op::Publish(d(9))], vec![Op::Publish(d(1)), Op::Add(0), Op::Add(1)]),
        ];
        let limit = if tier == Tier::Thorough { 13000 } else { 260 };
        for (pre, th) in &scopes {
            let n_services = pre.iter().filter(|o| matches!(o, Op::Add(_))).count();
            let counts: Vec<usize> = th.iter().map(|o| steps_of(o, n_services)).collect();
            match all_interleavings(&counts, limit) {
                Some(v) => {
                    for s in v {
                        out.push(fmt_case('n', pre, th, &s));
                    }
                }
                None => {
                    for _ in 0..limit / 2 {
                        let mut v: Vec<usize> = counts.iter().enumerate().flat_map(|(i, c)| std::iter::repeat_n(i, *c)).collect();
                        rng.shuffle(&mut v);
                        out.push(fmt_case('n', pre, th, &v));
                    }
                }
            }
        }
        // random: any number of publishes and adds
        while out.len() < n {
            let f = *rng.pick(&['n', 'n', 'r', 'i']);
            let mut sid = 0u64;
            let mut did = rng.below(20);
            let mut mk = |rng: &mut Rng, p_add: u64| -> Op {
                if rng.chance(p_add, 10) {
                    sid += 1;
                    Op::Add(sid - 1)
                } else {
                    did += 1;
                    Op::Publish(Data { id: did, relay: rng.chance(3, 4), ip: rng.chance(3, 4) })
                }
            };
            let pre: Vec<Op> = (0..rng.below(4)).map(|_| mk(rng, 6)).collect();
            let th: Vec<Op> = (0..rng.range(1, 5)).map(|_| mk(rng, 4)).collect();
            let n_services = pre.iter().chain(th.iter()).filter(|o| matches!(o, Op::Add(_))).count();
            let mut sched: Vec<usize> =
                th.iter().enumerate().flat_map(|(i, o)| std::iter::repeat_n(i, steps_of(o, n_services))).collect();
            rng.shuffle(&mut sched);
            if rng.chance(1, 4) {
                let keep = rng.usize_below(sched.len() + 1);
                sched.truncate(keep);
            }
            if rng.chance(1, 10) {
                sched.push(th.len() + rng.usize_below(2));
            }
            let mut case = fmt_case(f, &pre, &th, &sched);
            // now and then one acquisition is attempted for real under contention
            if rng.chance(1, 40) && !sched.is_empty() {
                let (head, s) = case.rsplit_once("S=").unwrap();
                let mut parts: Vec<String> = s.split(',').map(|x| x.to_string()).collect();
                let i = rng.usize_below(parts.len());
                parts[i] = format!("!{}", parts[i]);
                case = format!("{head}S={}", parts.join(","));
            }
            out.push(case);
        }
    }

    fn execute(&mut self, payload: &str) -> Exec {
        let t: Vec<&str> = payload.split_whitespace().collect();
        if let ["E", cfg, ops] = t[..] {
            return match (matches!(cfg, "ip" | "relay" | "dead"), parse_eops(ops)) {
                (true, Some(ops)) => self.run_endpoint(cfg, &ops, None, payload),
                _ => Exec::new("bad-payload").tag("malformed"),
            };
        }
        if let ["EC", cfg, ops, a, b] = t[..] {
            let ab = match (parse_eops(a).as_deref(), parse_eops(b).as_deref()) {
                (Some([a @ EOp::UserData(_)]), Some([b])) => Some((a.clone(), b.clone())),
                _ => None,
            };
            return match (matches!(cfg, "ip" | "relay" | "dead"), parse_eops(ops), ab) {
                (true, Some(ops), Some(ab)) => self.run_endpoint(cfg, &ops, Some(ab), payload),
                _ => Exec::new("bad-payload").tag("malformed"),
            };
        }
        match parse_case(payload) {
            Some(c) => self.run_case(&c),
            None => Exec::new("bad-payload").tag("malformed"),
        }
    }
}

fn main() {
    run(C30);
}
