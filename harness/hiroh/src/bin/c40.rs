//! C40 — the Router hands each incoming connection only to the handler registered for the
//! negotiated protocol, and to none if nothing matches or the incoming filter refuses/ignores;
//! a connection the filter asks to retry reaches a handler only if its validated retry is accepted.
//!
//! Real code: `iroh::protocol::Router` + `Endpoint::connect_with_opts` over REAL endpoints on
//! IPv4 loopback (setup copied from the repo's `protocol::tests::incoming_filter::direct_pair`:
//! `presets::Minimal`, `clear_ip_transports`, bound to 127.0.0.1:0, relay disabled, direct addrs).
//!
//! payload: `R=<alpn,alpn,..|-> F=<-|xy.xy..> D=<alpn,alpn,..>/<..>/..`
//!   R  registrations in `RouterBuilder::accept` order (hex ALPNs; handler id = position;
//!      registering an ALPN twice replaces the handler)
//!   F  `-`: no incoming filter.  Else one verdict pair per dial: x = verdict for an attempt whose
//!      source address is not validated, y = for a validated one; a accept, t retry, r reject,
//!      i ignore.  The filter looks the pair up BY SOURCE ADDRESS (every dial comes from its own
//!      freshly bound endpoint) and by `Incoming::remote_addr_validated()`.
//!   D  dials, in sequence; each offers its first ALPN as primary and the rest as additional.
//! output per dial, joined by ` ; `:  `<filter calls>|<dial result>|<handler calls>`
//!   filter calls   `<validated 0|1><verdict letter>` concatenated, consecutive repeats collapsed
//!                  (an ignored client retransmits; each datagram is a new `Incoming`), `-` if none
//!   dial result    `ok:<alpn>` | `refused` | `noalpn` | `ignored` | `err:<class>`
//!   handler calls  `on<h>` (`on_accepting`) / `ac<h>:<alpn>` (`accept`) in call order, `-` if none
//!
//! Waiting discipline: every wait is bounded; a dial whose filter pair can ignore gets a short
//! deadline (an ignored dial can only time out), every other dial a long one.  `ignored` is only
//! reported when the filter log shows an ignore verdict for that dial; any other timeout makes the
//! scenario be retried (3 attempts) and is then reported as `infra` to model and implementation.
use std::collections::HashMap;
use std::net::Ipv4Addr;
use std::sync::{Arc, Mutex};
use std::time::Duration;

use iroh::endpoint::{Accepting, ConnectOptions, Connection, Incoming, IncomingAddr, presets};
use iroh::protocol::{AcceptError, IncomingFilterOutcome, ProtocolHandler, Router};
use iroh::{Endpoint, EndpointId};
use vcommon::*;

const LONG: Duration = Duration::from_secs(10);
const SHORT: Duration = Duration::from_millis(1200);

type Alpn = Vec<u8>;

#[derive(Clone, Copy, Debug, PartialEq, Eq)]
enum Verdict {
    Accept,
    Retry,
    Reject,
    Ignore,
}

impl Verdict {
    fn letter(self) -> char {
        match self {
            Verdict::Accept => 'a',
            Verdict::Retry => 't',
            Verdict::Reject => 'r',
            Verdict::Ignore => 'i',
        }
    }
    fn parse(c: char) -> Option<Self> {
        Some(match c {
            'a' => Verdict::Accept,
            't' => Verdict::Retry,
            'r' => Verdict::Reject,
            'i' => Verdict::Ignore,
            _ => return None,
        })
    }
    fn outcome(self) -> IncomingFilterOutcome {
        match self {
            Verdict::Accept => IncomingFilterOutcome::Accept,
            Verdict::Retry => IncomingFilterOutcome::Retry,
            Verdict::Reject => IncomingFilterOutcome::Reject,
            Verdict::Ignore => IncomingFilterOutcome::Ignore,
        }
    }
}

struct Scenario {
    reg: Vec<Alpn>,
    filter: Option<Vec<[Verdict; 2]>>,
    dials: Vec<Vec<Alpn>>,
}

fn parse_alpns(s: &str) -> Option<Vec<Alpn>> {
    if s == "-" {
        return Some(Vec::new());
    }
    s.split(',').map(|t| unhex(t).filter(|b| !b.is_empty() && b.len() <= 255)).collect()
}

fn parse(payload: &str) -> Option<Scenario> {
    let mut it = payload.split(' ');
    let reg = parse_alpns(it.next()?.strip_prefix("R=")?)?;
    let f = it.next()?.strip_prefix("F=")?;
    let d = it.next()?.strip_prefix("D=")?;
    if it.next().is_some() {
        return None;
    }
    let dials: Vec<Vec<Alpn>> = d.split('/').map(parse_alpns).collect::<Option<_>>()?;
    if dials.is_empty() || dials.len() > 4 || dials.iter().any(|o| o.is_empty() || o.len() > 4) || reg.len() > 6 {
        return None;
    }
    let filter = if f == "-" {
        None
    } else {
        let pairs: Vec<[Verdict; 2]> = f
            .split('.')
            .map(|p| {
                let cs: Vec<char> = p.chars().collect();
                if cs.len() != 2 {
                    return None;
                }
                Some([Verdict::parse(cs[0])?, Verdict::parse(cs[1])?])
            })
            .collect::<Option<_>>()?;
        if pairs.len() != dials.len() {
            return None;
        }
        Some(pairs)
    };
    Some(Scenario { reg, filter, dials })
}

#[derive(Debug, Default)]
struct Logs {
    /// (dial index, validated, verdict)
    filter: Vec<(Option<usize>, bool, Verdict)>,
    /// (dial index, handler id, Some(alpn) for accept / None for on_accepting)
    handler: Vec<(Option<usize>, usize, Option<Alpn>)>,
}

#[derive(Debug, Default)]
struct Dir {
    by_port: HashMap<u16, usize>,
    by_id: HashMap<EndpointId, usize>,
}

#[derive(Debug, Clone)]
struct Logging {
    id: usize,
    logs: Arc<Mutex<Logs>>,
    dir: Arc<Dir>,
}

fn dial_of_addr(dir: &Dir, a: &IncomingAddr) -> Option<usize> {
    match a {
        IncomingAddr::Ip(sa) => dir.by_port.get(&sa.port()).copied(),
        _ => None,
    }
}

impl ProtocolHandler for Logging {
    async fn on_accepting(&self, accepting: Accepting) -> Result<Connection, AcceptError> {
        let d = dial_of_addr(&self.dir, &accepting.remote_addr());
        self.logs.lock().unwrap().handler.push((d, self.id, None));
        let conn = accepting.await?;
        Ok(conn)
    }
    async fn accept(&self, connection: Connection) -> Result<(), AcceptError> {
        let d = self.dir.by_id.get(&connection.remote_id()).copied();
        self.logs.lock().unwrap().handler.push((d, self.id, Some(connection.alpn().to_vec())));
        // keep the connection until the dialer is done with it (bounded)
        let _ = tokio::time::timeout(Duration::from_secs(5), connection.closed()).await;
        Ok(())
    }
}

enum Fault {
    /// a bounded wait of the harness expired
    Infra(String),
    /// an outcome outside the expected vocabulary; retried, and if it persists reported as is
    Odd(String),
}

#[derive(Debug, Clone, PartialEq, Eq)]
enum DialRes {
    Ok(Alpn),
    Refused,
    NoAlpn,
    TimedOut,
    Err(String),
}

struct DialObs {
    filter: Vec<(bool, Verdict)>,
    res: DialRes,
    handler: Vec<(usize, Option<Alpn>)>,
}

async fn bind_lo() -> Result<Endpoint, Fault> {
    let b = Endpoint::builder(presets::Minimal)
        .clear_ip_transports()
        .bind_addr((Ipv4Addr::LOCALHOST, 0))
        .map_err(|e| Fault::Infra(format!("bind_addr: {e}")))?;
    tokio::time::timeout(LONG, b.bind())
        .await
        .map_err(|_| Fault::Infra("bind timed out".into()))?
        .map_err(|e| Fault::Infra(format!("bind failed: {e}")))
}

fn classify(err: &str) -> DialRes {
    let l = err.to_lowercase();
    if l.contains("refused") {
        DialRes::Refused
    } else if l.contains("no_application_protocol")
        || l.contains("noapplicationprotocol")
        || l.contains("peer doesn't support any known protocol")
        || l.contains("error 120")
    {
        DialRes::NoAlpn
    } else if l.contains("timed out") {
        DialRes::TimedOut
    } else {
        DialRes::Err(err.split_whitespace().take(8).collect::<Vec<_>>().join("_"))
    }
}

async fn scenario(sc: &Scenario) -> Result<Vec<DialObs>, Fault> {
    let server = bind_lo().await?;
    let mut dialers = Vec::new();
    let mut dir = Dir::default();
    for i in 0..sc.dials.len() {
        let ep = bind_lo().await?;
        let port = ep
            .bound_sockets()
            .iter()
            .find(|a| a.is_ipv4())
            .map(|a| a.port())
            .ok_or_else(|| Fault::Infra("dialer has no ipv4 socket".into()))?;
        dir.by_port.insert(port, i);
        dir.by_id.insert(ep.id(), i);
        dialers.push(ep);
    }
    let dir = Arc::new(dir);
    let logs: Arc<Mutex<Logs>> = Arc::default();

    let mut b = Router::builder(server.clone());
    for (h, alpn) in sc.reg.iter().enumerate() {
        b = b.accept(alpn, Logging { id: h, logs: logs.clone(), dir: dir.clone() });
    }
    if let Some(pairs) = &sc.filter {
        let pairs = pairs.clone();
        let logs = logs.clone();
        let dir = dir.clone();
        b = b.incoming_filter(Arc::new(move |incoming: &Incoming| {
            let d = dial_of_addr(&dir, &incoming.remote_addr());
            let v = incoming.remote_addr_validated();
            let verdict = match d {
                Some(i) => pairs[i][v as usize],
                None => Verdict::Reject,
            };
            logs.lock().unwrap().filter.push((d, v, verdict));
            verdict.outcome()
        }));
    }
    let router = b.spawn();
    let addr = router.endpoint().addr();

    let mut results: Vec<DialRes> = Vec::new();
    let mut fault = None;
    for (i, offered) in sc.dials.iter().enumerate() {
        let can_ignore = sc.filter.as_ref().map(|p| p[i].contains(&Verdict::Ignore)).unwrap_or(false);
        let deadline = if can_ignore { SHORT } else { LONG };
        let opts = ConnectOptions::new().with_additional_alpns(offered[1..].to_vec());
        let ep = dialers[i].clone();
        let addr = addr.clone();
        let primary = offered[0].clone();
        let attempt = async move {
            let connecting = ep.connect_with_opts(addr, &primary, opts).await.map_err(|e| format!("{e:#}"))?;
            let conn = connecting.await.map_err(|e| format!("{e:#}"))?;
            Ok::<Connection, String>(conn)
        };
        let res = match tokio::time::timeout(deadline, attempt).await {
            Err(_) => DialRes::TimedOut,
            Ok(Err(e)) => classify(&e),
            Ok(Ok(conn)) => {
                let alpn = conn.alpn().to_vec();
                // the acceptor finishes its handshake after the dialer: wait (bounded) for the
                // handler to be entered before closing
                let t0 = tokio::time::Instant::now();
                loop {
                    let seen =
                        logs.lock().unwrap().handler.iter().any(|(d, _, a)| *d == Some(i) && a.is_some());
                    if seen || t0.elapsed() > Duration::from_secs(5) {
                        break;
                    }
                    tokio::time::sleep(Duration::from_millis(1)).await;
                }
                tokio::time::sleep(Duration::from_millis(15)).await;
                conn.close(0u32.into(), b"done");
                DialRes::Ok(alpn)
            }
        };
        if !matches!(res, DialRes::Ok(_)) {
            // grace: a handler invoked for a failed dial would show up here
            tokio::time::sleep(Duration::from_millis(40)).await;
        }
        if res == DialRes::TimedOut {
            let ignored = logs.lock().unwrap().filter.iter().any(|(d, _, v)| *d == Some(i) && *v == Verdict::Ignore);
            if !ignored {
                fault = Some(Fault::Infra(format!("dial {i} timed out without an ignore verdict")));
                results.push(res);
                break;
            }
        }
        results.push(res);
    }

    // cleanup, bounded and concurrent; not part of the observation
    let _ = tokio::time::timeout(Duration::from_millis(400), async {
        let closes = dialers.iter().map(|d| d.close());
        tokio::join!(n0_future::join_all(closes), router.shutdown())
    })
    .await;

    if let Some(f) = fault {
        return Err(f);
    }
    let logs = logs.lock().unwrap();
    let mut out = Vec::new();
    for (i, res) in results.into_iter().enumerate() {
        let mut filter: Vec<(bool, Verdict)> = Vec::new();
        for (d, v, verdict) in logs.filter.iter() {
            if *d == Some(i) && filter.last() != Some(&(*v, *verdict)) {
                filter.push((*v, *verdict));
            }
        }
        let handler: Vec<(usize, Option<Alpn>)> =
            logs.handler.iter().filter(|(d, _, _)| *d == Some(i)).map(|(_, h, a)| (*h, a.clone())).collect();
        out.push(DialObs { filter, res, handler });
    }
    if let Some(o) = out.iter().find(|o| matches!(o.res, DialRes::Err(_))) {
        return Err(Fault::Odd(format!("dial-err:{:?}", o.res).replace(' ', "_")));
    }
    // anything attributed to no dial is a plumbing problem
    if logs.filter.iter().any(|(d, _, _)| d.is_none()) || logs.handler.iter().any(|(d, _, _)| d.is_none()) {
        return Err(Fault::Infra("log entry from an unknown source address".into()));
    }
    Ok(out)
}

fn render(obs: &[DialObs]) -> String {
    obs.iter()
        .map(|o| {
            let f: String = if o.filter.is_empty() {
                "-".into()
            } else {
                o.filter.iter().map(|(v, verdict)| format!("{}{}", *v as u8, verdict.letter())).collect()
            };
            let r = match &o.res {
                DialRes::Ok(a) => format!("ok:{}", hex(a)),
                DialRes::Refused => "refused".into(),
                DialRes::NoAlpn => "noalpn".into(),
                DialRes::TimedOut => "ignored".into(),
                DialRes::Err(e) => format!("err:{e}"),
            };
            let h: String = if o.handler.is_empty() {
                "-".into()
            } else {
                o.handler
                    .iter()
                    .map(|(h, a)| match a {
                        None => format!("on{h}"),
                        Some(a) => format!("ac{h}:{}", hex(a)),
                    })
                    .collect::<Vec<_>>()
                    .join(",")
            };
            format!("{f}|{r}|{h}")
        })
        .collect::<Vec<_>>()
        .join(" ; ")
}

/// The property, evaluated on what was observed (no model involved).
fn oracle(sc: &Scenario, obs: &[DialObs], ex: &mut Exec) {
    for (i, o) in obs.iter().enumerate() {
        let offered = &sc.dials[i];
        let accepts: Vec<&(usize, Option<Alpn>)> = o.handler.iter().filter(|(_, a)| a.is_some()).collect();
        // the handler registered (last) for an ALPN
        let registered_for = |a: &Alpn| sc.reg.iter().rposition(|r| r == a);
        for (h, a) in &o.handler {
            let own = &sc.reg[*h];
            if registered_for(own) != Some(*h) {
                ex.violation("C40:replaced-handler-invoked", format!("dial {i}: handler {h} was replaced by a later registration of {}", hex(own)));
            }
            if let Some(a) = a {
                if a != own {
                    ex.violation("C40:wrong-handler", format!("dial {i}: handler {h} registered for {} got a connection negotiated as {}", hex(own), hex(a)));
                }
                if !offered.contains(a) {
                    ex.violation("C40:alpn-not-offered", format!("dial {i}: negotiated {} was not offered", hex(a)));
                }
                if let DialRes::Ok(da) = &o.res {
                    if da != a {
                        ex.violation("C40:alpn-mismatch", format!("dial {i}: dialer sees {} acceptor sees {}", hex(da), hex(a)));
                    }
                }
            }
        }
        if accepts.len() > 1 {
            ex.violation("C40:handled-twice", format!("dial {i}: {} handler invocations", accepts.len()));
        }
        let none_registered = offered.iter().all(|a| registered_for(a).is_none());
        if none_registered && !o.handler.is_empty() {
            ex.violation("C40:unregistered-handled", format!("dial {i}: no offered protocol is registered but a handler ran"));
        }
        if none_registered && matches!(o.res, DialRes::Ok(_)) {
            ex.violation("C40:unregistered-connected", format!("dial {i}: no offered protocol is registered but the dial succeeded"));
        }
        // filter: the last verdict decides; retry needs a later accept on a validated attempt
        if sc.filter.is_some() {
            let last = o.filter.last();
            let admitted = matches!(last, Some((_, Verdict::Accept)));
            if !admitted && (!o.handler.is_empty() || matches!(o.res, DialRes::Ok(_))) {
                ex.violation("C40:refused-but-handled", format!("dial {i}: last filter verdict {:?} but handler/dial went through", last));
            }
            if let Some(p) = o.filter.iter().position(|(_, v)| *v == Verdict::Retry) {
                let later_valid_accept = o.filter[p + 1..].iter().any(|(v, verdict)| *v && *verdict == Verdict::Accept);
                if !accepts.is_empty() && !later_valid_accept {
                    ex.violation("C40:retry-without-validated-accept", format!("dial {i}: handled after retry without an accepted validated attempt"));
                }
            }
        }
        if matches!(o.res, DialRes::Ok(_)) && accepts.is_empty() {
            ex.violation("C40:connected-unhandled", format!("dial {i}: dial succeeded but no handler was invoked within 5 s"));
        }
        if !matches!(o.res, DialRes::Ok(_)) && !accepts.is_empty() {
            ex.violation("C40:failed-but-handled", format!("dial {i}: dial failed ({:?}) but a handler accepted the connection", o.res));
        }
    }
}

const NAMES: [&[u8]; 7] = [b"a", b"ab", b"b", b"/iroh/x/1", b"/iroh/x/10", b"\x00\xff", b"zz"];

struct C40;

impl C40 {
    fn gen_case(&self, rng: &mut Rng, allow_ignore: bool) -> String {
        let nreg = rng.usize_below(5);
        let mut reg: Vec<&[u8]> = (0..nreg).map(|_| *rng.pick(&NAMES[..6])).collect();
        if rng.chance(1, 8) && !reg.is_empty() {
            let d = *rng.pick(&reg);
            reg.push(d); // a duplicate registration replaces the handler
        }
        let ndials = 1 + rng.usize_below(3);
        let mut dials = Vec::new();
        for _ in 0..ndials {
            let k = 1 + rng.usize_below(3);
            let offered: Vec<String> = (0..k)
                .map(|_| {
                    let a: &[u8] = if !reg.is_empty() && rng.chance(3, 5) { *rng.pick(&reg) } else { *rng.pick(&NAMES) };
                    hex(a)
                })
                .collect();
            dials.push(offered.join(","));
        }
        let filter = if rng.chance(1, 3) {
            "-".to_string()
        } else {
            let letters: &[char] = if allow_ignore { &['a', 'a', 'a', 't', 't', 'r', 'i'] } else { &['a', 'a', 'a', 't', 't', 'r'] };
            (0..ndials)
                .map(|_| {
                    let x = *rng.pick(letters);
                    let y = if x == 't' { *rng.pick(&['a', 'a', 'a', 't', 'r', if allow_ignore { 'i' } else { 'r' }]) } else { *rng.pick(letters) };
                    format!("{x}{y}")
                })
                .collect::<Vec<_>>()
                .join(".")
        };
        let r = if reg.is_empty() { "-".to_string() } else { reg.iter().map(|a| hex(a)).collect::<Vec<_>>().join(",") };
        format!("R={r} F={filter} D={}", dials.join("/"))
    }
}

impl Prop for C40 {
    fn id(&self) -> &'static str {
        "C40"
    }

    fn generate(&mut self, rng: &mut Rng, _tier: Tier, n: usize, out: &mut Vec<String>) {
        let fixed = [
            // server preference: registered order (sorted) decides, not the dialer's order
            "R=62,61 F=- D=62,61/61,62/62",
            // prefix names, unregistered offers, nothing registered
            "R=61,6162 F=- D=6162/61/6162,61/7a7a",
            "R=- F=- D=61",
            "R=61 F=- D=62/62,61",
            // every verdict once
            "R=61 F=aa.ta.rr D=61/61/61",
            "R=61 F=tt.tr.ar D=61/61/61",
            "R=61 F=ia D=61",
            "R=61 F=ti D=61",
            // retry then accept, but nothing in common
            "R=61 F=ta D=62",
            // duplicate registration: the later handler wins
            "R=61,62,61 F=- D=61/62",
        ];
        for f in fixed.iter().take(n) {
            out.push(f.to_string());
        }
        let mut k = 0usize;
        while out.len() < n {
            // ignore verdicts cost a full (short) timeout: one case in six may contain them
            let c = self.gen_case(rng, k % 6 == 0);
            k += 1;
            out.push(c);
        }
    }

    fn execute(&mut self, payload: &str) -> Exec {
        let Some(sc) = parse(payload) else {
            return Exec::new("bad-input").tag("bad-input");
        };
        let mut last = String::new();
        let mut odd = None;
        for _attempt in 0..3 {
            let rt = tokio::runtime::Builder::new_current_thread().enable_all().build().unwrap();
            let res = rt.block_on(scenario(&sc));
            rt.shutdown_timeout(Duration::from_secs(2));
            match res {
                Ok(obs) => {
                    let mut ex = Exec::new(render(&obs));
                    oracle(&sc, &obs, &mut ex);
                    ex.nontrivial = obs.iter().any(|o| !o.handler.is_empty());
                    ex.tags.push(format!("registered={}", sc.reg.len().min(5)));
                    ex.tags.push(format!("dials={}", sc.dials.len()));
                    ex.tags.push(if sc.filter.is_some() { "filter".into() } else { "no-filter".into() });
                    for o in &obs {
                        ex.tags.push(
                            match &o.res {
                                DialRes::Ok(_) => "dial-ok",
                                DialRes::Refused => "dial-refused",
                                DialRes::NoAlpn => "dial-noalpn",
                                DialRes::TimedOut => "dial-ignored",
                                DialRes::Err(_) => "dial-err",
                            }
                            .into(),
                        );
                        if o.filter.iter().any(|(_, v)| *v == Verdict::Retry) {
                            ex.tags.push("retried".into());
                        }
                        if sc.dials.iter().any(|d| d.len() > 1) {
                            ex.tags.push("multi-offer".into());
                        }
                    }
                    return ex;
                }
                Err(Fault::Infra(d)) => {
                    last = d;
                    odd = None;
                }
                Err(Fault::Odd(d)) => odd = Some(d),
            }
        }
        if let Some(d) = odd {
            // reproducible: an ordinary (unexpected) outcome, the model will disagree
            return Exec::new(d).tag("odd-outcome");
        }
        let mut ex = Exec::new("infra").tag("infra-fault");
        ex.model_input = Some(format!("infra {}", last.replace(' ', "_")));
        ex
    }
}

fn main() {
    run(C40);
}
