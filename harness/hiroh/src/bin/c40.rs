//! C40 — the Router hands each incoming connection only to the handler registered for the
//! negotiated protocol, and to none if nothing matches or the incoming filter refuses/ignores;
//! a connection the filter asks to retry reaches a handler only if its validated retry is accepted.
//!
//! Real code: `iroh::protocol::Router` + `Endpoint::connect_with_opts` over REAL endpoints on
//! IPv4 loopback (setup copied from the repo's `protocol::tests::incoming_filter::direct_pair`:
//! `presets::Minimal`, `clear_ip_transports`, bound to 127.0.0.1:0, relay disabled, direct addrs).
//!
//! Composition with C42 (hooks + connect preconditions): the accepting endpoint may carry
//! `EndpointHooks` next to its Router, and every dialing endpoint its own hook list.
//!
//! payload: `R=<alpn,alpn,..|-> F=<-|xy.xy..> D=<alpn,alpn,..>/<..>/.. [DH=<hooks|->/<..>/.. AH=<hooks|->]`
//!   R  registrations in `RouterBuilder::accept` order (hex ALPNs; handler id = position;
//!      registering an ALPN twice replaces the handler)
//!   F  `-`: no incoming filter.  Else one verdict pair per dial: x = verdict for an attempt whose
//!      source address is not validated, y = for a validated one; a accept, t retry, r reject,
//!      i ignore.  The filter looks the pair up BY SOURCE ADDRESS (every dial comes from its own
//!      freshly bound endpoint) and by `Incoming::remote_addr_validated()`.
//!   D  dials, in sequence; each offers its first ALPN as primary and the rest as additional.
//!      A leading `@` makes the dial target the dialer's OWN id; a primary written `-` is the
//!      empty protocol name.
//!   DH one hook list per dial (installed on that dial's endpoint), AH the hooks of the accepting
//!      endpoint.  hook = `<before><after>`: before ∈ `a`|`r`, after ∈ `a`|`r<code>` (as in C42).
//! output per dial, joined by ` ; `:
//!   `<filter calls>|<dial result>|<handler calls>|<dialer hook calls>|<acceptor hook calls>`
//!   dial result additionally: `rej-before` | `self` | `invalid-alpn` | `rej-after` | `closed:<code>`
//!   When the dialer's own after-handshake hook rejects, whether the acceptor still completes its
//!   handshake (runs its hooks, calls `accept`) before it sees the close is a race: the handler
//!   calls are then printed as `on<h>*` and the acceptor hook calls as `*`; the oracle checks what
//!   was actually seen (an `accept` in that case got a connection closed with the hook's code).
//!   filter calls   `<validated 0|1><verdict letter>` concatenated, consecutive repeats collapsed
//!                  (an ignored client retransmits; each datagram is a new `Incoming`), `-` if none
//!   dial result    `ok:<alpn>` | `refused` | `noalpn` | `ignored` | `err:<class>`
//!   handler calls  `on<h>` (`on_accepting`) / `ac<h>:<alpn>` (`accept`) in call order, `-` if none
//!
//! Waiting discipline: every wait is bounded; a dial whose filter pair can ignore gets a short
//! deadline (an ignored dial can only time out), every other dial a long one.  `ignored` is only
//! reported when the filter log shows an ignore verdict for that dial; any other timeout makes the
//! scenario be retried (3 attempts) and is then reported as `infra` to model and implementation.
use std::collections::HashMap;
use std::net::Ipv4Addr;
use std::sync::{Arc, Mutex};
use std::time::Duration;

use iroh::endpoint::{
    Accepting, AfterHandshakeOutcome, BeforeConnectOutcome, ConnectOptions, ConnectWithOptsError, Connection,
    ConnectingError, ConnectionError, EndpointHooks, Incoming, IncomingAddr, VarInt, presets,
};
use iroh::protocol::{AcceptError, IncomingFilterOutcome, ProtocolHandler, Router};
use iroh::{Endpoint, EndpointAddr, EndpointId};
use vcommon::*;

const LONG: Duration = Duration::from_secs(10);
const SHORT: Duration = Duration::from_millis(1200);

type Alpn = Vec<u8>;

#[derive(Clone, Copy, Debug, PartialEq, Eq)]
enum Verdict {
    Accept,
    Retry,
    Reject,
    Ignore,
}

impl Verdict {
    fn letter(self) -> char {
        match self {
            Verdict::Accept => 'a',
            Verdict::Retry => 't',
            Verdict::Reject => 'r',
            Verdict::Ignore => 'i',
        }
    }
    fn parse(c: char) -> Option<Self> {
        Some(match c {
            'a' => Verdict::Accept,
            't' => Verdict::Retry,
            'r' => Verdict::Reject,
            'i' => Verdict::Ignore,
            _ => return None,
        })
    }
    fn outcome(self) -> IncomingFilterOutcome {
        match self {
            Verdict::Accept => IncomingFilterOutcome::Accept,
            Verdict::Retry => IncomingFilterOutcome::Retry,
            Verdict::Reject => IncomingFilterOutcome::Reject,
            Verdict::Ignore => IncomingFilterOutcome::Ignore,
        }
    }
}

#[derive(Clone, Debug, PartialEq, Eq)]
struct HookSpec {
    before_accept: bool,
    after_reject: Option<u64>,
}

struct Dial {
    to_self: bool,
    offered: Vec<Alpn>,
    hooks: Vec<HookSpec>,
}

struct Scenario {
    reg: Vec<Alpn>,
    filter: Option<Vec<[Verdict; 2]>>,
    dials: Vec<Dial>,
    ah: Vec<HookSpec>,
}

fn parse_alpns(s: &str) -> Option<Vec<Alpn>> {
    if s == "-" {
        return Some(Vec::new());
    }
    s.split(',').map(|t| unhex(t).filter(|b| !b.is_empty() && b.len() <= 255)).collect()
}

/// An offer list: like `parse_alpns`, but the primary (first) name may be `-` = empty.
fn parse_offer(s: &str) -> Option<Vec<Alpn>> {
    s.split(',')
        .enumerate()
        .map(|(i, t)| unhex(t).filter(|b| (i == 0 || !b.is_empty()) && b.len() <= 255))
        .collect()
}

fn parse_hooks(s: &str) -> Option<Vec<HookSpec>> {
    if s == "-" {
        return Some(Vec::new());
    }
    s.split(',')
        .map(|t| {
            let (b, a) = t.split_at_checked(1)?;
            let before_accept = match b {
                "a" => true,
                "r" => false,
                _ => return None,
            };
            let after_reject = if a == "a" {
                None
            } else {
                let code: u64 = a.strip_prefix('r')?.parse().ok()?;
                if code >= 1 << 62 {
                    return None;
                }
                Some(code)
            };
            Some(HookSpec { before_accept, after_reject })
        })
        .collect()
}

fn parse(payload: &str) -> Option<Scenario> {
    let mut it = payload.split(' ');
    let reg = parse_alpns(it.next()?.strip_prefix("R=")?)?;
    let f = it.next()?.strip_prefix("F=")?;
    let d = it.next()?.strip_prefix("D=")?;
    let (dh, ah) = match it.next() {
        None => (None, Vec::new()),
        Some(t) => {
            let dh: Vec<Vec<HookSpec>> = t.strip_prefix("DH=")?.split('/').map(parse_hooks).collect::<Option<_>>()?;
            let ah = parse_hooks(it.next()?.strip_prefix("AH=")?)?;
            (Some(dh), ah)
        }
    };
    if it.next().is_some() {
        return None;
    }
    let mut dials = Vec::new();
    for (i, t) in d.split('/').enumerate() {
        let (to_self, t) = match t.strip_prefix('@') {
            Some(r) => (true, r),
            None => (false, t),
        };
        let offered = parse_offer(t)?;
        let hooks = match &dh {
            None => Vec::new(),
            Some(dh) => dh.get(i)?.clone(),
        };
        dials.push(Dial { to_self, offered, hooks });
    }
    if let Some(dh) = &dh {
        if dh.len() != dials.len() {
            return None;
        }
    }
    if dials.is_empty()
        || dials.len() > 4
        || dials.iter().any(|d| d.offered.is_empty() || d.offered.len() > 4 || d.hooks.len() > 4)
        || reg.len() > 6
        || ah.len() > 4
    {
        return None;
    }
    let filter = if f == "-" {
        None
    } else {
        let pairs: Vec<[Verdict; 2]> = f
            .split('.')
            .map(|p| {
                let cs: Vec<char> = p.chars().collect();
                if cs.len() != 2 {
                    return None;
                }
                Some([Verdict::parse(cs[0])?, Verdict::parse(cs[1])?])
            })
            .collect::<Option<_>>()?;
        if pairs.len() != dials.len() {
            return None;
        }
        Some(pairs)
    };
    Some(Scenario { reg, filter, dials, ah })
}

#[derive(Debug, Default)]
struct Logs {
    /// (dial index, validated, verdict)
    filter: Vec<(Option<usize>, bool, Verdict)>,
    /// (dial index, handler id, Some(alpn) for accept / None for on_accepting)
    handler: Vec<(Option<usize>, usize, Option<Alpn>)>,
    /// what a handler's `accept` saw when its connection ended: (dial, application close code+reason)
    handler_close: Vec<(Option<usize>, Option<(u64, Vec<u8>)>)>,
    /// acceptor-side hook calls: (dial index, "a<i>" / "b<i>")
    ahooks: Vec<(Option<usize>, String)>,
    /// dialer-side hook calls per dial
    dhooks: Vec<(usize, String)>,
    /// hook argument checks that failed
    arg_faults: Vec<String>,
}

#[derive(Debug, Default)]
struct Dir {
    by_port: HashMap<u16, usize>,
    by_id: HashMap<EndpointId, usize>,
}

#[derive(Debug, Clone)]
struct Logging {
    id: usize,
    logs: Arc<Mutex<Logs>>,
    dir: Arc<Dir>,
}

fn dial_of_addr(dir: &Dir, a: &IncomingAddr) -> Option<usize> {
    match a {
        IncomingAddr::Ip(sa) => dir.by_port.get(&sa.port()).copied(),
        _ => None,
    }
}

fn app_close(e: &ConnectionError) -> Option<(u64, Vec<u8>)> {
    match e {
        ConnectionError::ApplicationClosed(c) => Some((c.error_code.into_inner(), c.reason.to_vec())),
        _ => None,
    }
}

impl ProtocolHandler for Logging {
    async fn on_accepting(&self, accepting: Accepting) -> Result<Connection, AcceptError> {
        let d = dial_of_addr(&self.dir, &accepting.remote_addr());
        self.logs.lock().unwrap().handler.push((d, self.id, None));
        let conn = accepting.await?;
        Ok(conn)
    }
    async fn accept(&self, connection: Connection) -> Result<(), AcceptError> {
        let d = self.dir.by_id.get(&connection.remote_id()).copied();
        self.logs.lock().unwrap().handler.push((d, self.id, Some(connection.alpn().to_vec())));
        // keep the connection until the dialer is done with it (bounded)
        let end = tokio::time::timeout(Duration::from_secs(5), connection.closed()).await;
        let seen = end.ok().and_then(|e| app_close(&e));
        self.logs.lock().unwrap().handler_close.push((d, seen));
        Ok(())
    }
}

/// A scripted `EndpointHooks` value; `dial` is `Some(i)` on dial i's endpoint, `None` on the acceptor.
#[derive(Debug)]
struct ScriptHook {
    idx: usize,
    dial: Option<usize>,
    spec: HookSpec,
    logs: Arc<Mutex<Logs>>,
    dir: Arc<Mutex<Arc<Dir>>>,
    /// dialer side: what the hook must be shown
    expect: Option<(Alpn, Arc<Mutex<Option<EndpointId>>>)>,
}

fn reason(side: char, idx: usize) -> Vec<u8> {
    format!("hook{idx}{side}").into_bytes()
}

impl EndpointHooks for ScriptHook {
    async fn before_connect<'a>(&'a self, remote_addr: &'a EndpointAddr, alpn: &'a [u8]) -> BeforeConnectOutcome {
        let mut l = self.logs.lock().unwrap();
        match self.dial {
            Some(d) => l.dhooks.push((d, format!("b{}", self.idx))),
            None => l.ahooks.push((None, format!("b{}", self.idx))),
        }
        if let Some((a, id)) = &self.expect {
            if alpn != a.as_slice() {
                l.arg_faults.push(format!("before_connect {} saw alpn {}", self.idx, hex(alpn)));
            }
            if let Some(id) = *id.lock().unwrap() {
                if remote_addr.id != id {
                    l.arg_faults.push(format!("before_connect {} saw a different remote id", self.idx));
                }
            }
        }
        if self.spec.before_accept { BeforeConnectOutcome::Accept } else { BeforeConnectOutcome::Reject }
    }

    async fn after_handshake<'a>(&'a self, conn: &'a Connection) -> AfterHandshakeOutcome {
        let mut l = self.logs.lock().unwrap();
        match self.dial {
            Some(d) => l.dhooks.push((d, format!("a{}", self.idx))),
            None => {
                let dir = self.dir.lock().unwrap().clone();
                let d = dir.by_id.get(&conn.remote_id()).copied();
                l.ahooks.push((d, format!("a{}", self.idx)));
            }
        }
        match self.spec.after_reject {
            None => AfterHandshakeOutcome::Accept,
            Some(code) => AfterHandshakeOutcome::Reject {
                error_code: VarInt::from_u64(code).unwrap(),
                reason: reason(if self.dial.is_some() { 'd' } else { 'a' }, self.idx),
            },
        }
    }
}

enum Fault {
    /// a bounded wait of the harness expired
    Infra(String),
    /// an outcome outside the expected vocabulary; retried, and if it persists reported as is
    Odd(String),
}

#[derive(Debug, Clone, PartialEq, Eq)]
enum DialRes {
    Ok(Alpn),
    Refused,
    NoAlpn,
    TimedOut,
    RejBefore,
    SelfConnect,
    InvalidAlpn,
    RejAfter,
    Closed(u64, Vec<u8>),
    Err(String),
}

struct DialObs {
    filter: Vec<(bool, Verdict)>,
    res: DialRes,
    handler: Vec<(usize, Option<Alpn>)>,
    handler_close: Vec<Option<(u64, Vec<u8>)>>,
    dhooks: Vec<String>,
    ahooks: Vec<String>,
}

async fn bind_lo(hooks: Vec<ScriptHook>) -> Result<Endpoint, Fault> {
    let mut b = Endpoint::builder(presets::Minimal)
        .clear_ip_transports()
        .bind_addr((Ipv4Addr::LOCALHOST, 0))
        .map_err(|e| Fault::Infra(format!("bind_addr: {e}")))?;
    for h in hooks {
        b = b.hooks(h);
    }
    tokio::time::timeout(LONG, b.bind())
        .await
        .map_err(|_| Fault::Infra("bind timed out".into()))?
        .map_err(|e| Fault::Infra(format!("bind failed: {e}")))
}

fn classify(err: &str) -> DialRes {
    let l = err.to_lowercase();
    if l.contains("refused") {
        DialRes::Refused
    } else if l.contains("no_application_protocol")
        || l.contains("noapplicationprotocol")
        || l.contains("peer doesn't support any known protocol")
        || l.contains("error 120")
    {
        DialRes::NoAlpn
    } else if l.contains("timed out") {
        DialRes::TimedOut
    } else {
        DialRes::Err(err.split_whitespace().take(8).collect::<Vec<_>>().join("_"))
    }
}

async fn scenario(sc: &Scenario) -> Result<Vec<DialObs>, Fault> {
    let logs: Arc<Mutex<Logs>> = Arc::default();
    let dir_cell: Arc<Mutex<Arc<Dir>>> = Arc::default();
    let server_hooks: Vec<ScriptHook> = sc
        .ah
        .iter()
        .enumerate()
        .map(|(idx, spec)| ScriptHook { idx, dial: None, spec: spec.clone(), logs: logs.clone(), dir: dir_cell.clone(), expect: None })
        .collect();
    let server = bind_lo(server_hooks).await?;
    let mut dialers = Vec::new();
    let mut dir = Dir::default();
    let mut targets: Vec<Arc<Mutex<Option<EndpointId>>>> = Vec::new();
    for (i, dial) in sc.dials.iter().enumerate() {
        let target: Arc<Mutex<Option<EndpointId>>> = Arc::default();
        let hooks: Vec<ScriptHook> = dial
            .hooks
            .iter()
            .enumerate()
            .map(|(idx, spec)| ScriptHook {
                idx,
                dial: Some(i),
                spec: spec.clone(),
                logs: logs.clone(),
                dir: dir_cell.clone(),
                expect: Some((dial.offered[0].clone(), target.clone())),
            })
            .collect();
        let ep = bind_lo(hooks).await?;
        let port = ep
            .bound_sockets()
            .iter()
            .find(|a| a.is_ipv4())
            .map(|a| a.port())
            .ok_or_else(|| Fault::Infra("dialer has no ipv4 socket".into()))?;
        dir.by_port.insert(port, i);
        dir.by_id.insert(ep.id(), i);
        *target.lock().unwrap() = Some(if dial.to_self { ep.id() } else { server.id() });
        targets.push(target);
        dialers.push(ep);
    }
    let dir = Arc::new(dir);
    *dir_cell.lock().unwrap() = dir.clone();

    let mut b = Router::builder(server.clone());
    for (h, alpn) in sc.reg.iter().enumerate() {
        b = b.accept(alpn, Logging { id: h, logs: logs.clone(), dir: dir.clone() });
    }
    if let Some(pairs) = &sc.filter {
        let pairs = pairs.clone();
        let logs = logs.clone();
        let dir = dir.clone();
        b = b.incoming_filter(Arc::new(move |incoming: &Incoming| {
            let d = dial_of_addr(&dir, &incoming.remote_addr());
            let v = incoming.remote_addr_validated();
            let verdict = match d {
                Some(i) => pairs[i][v as usize],
                None => Verdict::Reject,
            };
            logs.lock().unwrap().filter.push((d, v, verdict));
            verdict.outcome()
        }));
    }
    let router = b.spawn();
    let addr = router.endpoint().addr();

    let mut results: Vec<DialRes> = Vec::new();
    let mut fault = None;
    for (i, dial) in sc.dials.iter().enumerate() {
        let offered = &dial.offered;
        let can_ignore = sc.filter.as_ref().map(|p| p[i].contains(&Verdict::Ignore)).unwrap_or(false);
        let deadline = if can_ignore { SHORT } else { LONG };
        let opts = ConnectOptions::new().with_additional_alpns(offered[1..].to_vec());
        let ep = dialers[i].clone();
        let addr = if dial.to_self { ep.addr() } else { addr.clone() };
        let primary = offered[0].clone();
        let attempt = async move {
            let connecting = match ep.connect_with_opts(addr, &primary, opts).await {
                Ok(c) => c,
                Err(e) => {
                    return Err(match &e {
                        ConnectWithOptsError::LocallyRejected { .. } => DialRes::RejBefore,
                        ConnectWithOptsError::SelfConnect { .. } => DialRes::SelfConnect,
                        ConnectWithOptsError::InvalidAlpn { .. } => DialRes::InvalidAlpn,
                        other => classify(&format!("{other:#}")),
                    });
                }
            };
            match connecting.await {
                Ok(conn) => Ok(conn),
                Err(e) => Err(match &e {
                    ConnectingError::LocallyRejected { .. } => DialRes::RejAfter,
                    other => classify(&format!("{other:#}")),
                }),
            }
        };
        let res = match tokio::time::timeout(deadline, attempt).await {
            Err(_) => DialRes::TimedOut,
            Ok(Err(r)) => r,
            Ok(Ok(conn)) => {
                let alpn = conn.alpn().to_vec();
                // the acceptor finishes its handshake after the dialer: wait (bounded) until either
                // a handler's `accept` is entered or the acceptor closes the connection
                let entered = async {
                    loop {
                        let seen =
                            logs.lock().unwrap().handler.iter().any(|(d, _, a)| *d == Some(i) && a.is_some());
                        if seen {
                            break;
                        }
                        tokio::time::sleep(Duration::from_millis(1)).await;
                    }
                };
                let r = tokio::select! {
                    biased;
                    e = conn.closed() => match app_close(&e) {
                        Some((c, r)) => DialRes::Closed(c, r),
                        None => DialRes::Err(format!("{e:?}").split_whitespace().take(6).collect::<Vec<_>>().join("_")),
                    },
                    _ = entered => DialRes::Ok(alpn.clone()),
                    _ = tokio::time::sleep(Duration::from_secs(5)) => DialRes::Ok(alpn.clone()),
                };
                if matches!(r, DialRes::Ok(_)) {
                    tokio::time::sleep(Duration::from_millis(15)).await;
                    // the acceptor may have closed in the meantime (it did not: `accept` was entered)
                    conn.close(0u32.into(), b"done");
                }
                r
            }
        };
        match &res {
            DialRes::Ok(_) => {}
            DialRes::RejAfter => {
                // the acceptor is racing with our close: give it time to settle (bounded), i.e.
                // until a handler that entered `accept` has seen the connection end
                let t0 = tokio::time::Instant::now();
                loop {
                    tokio::time::sleep(Duration::from_millis(5)).await;
                    let l = logs.lock().unwrap();
                    let entered = l.handler.iter().filter(|(d, _, a)| *d == Some(i) && a.is_some()).count();
                    let ended = l.handler_close.iter().filter(|(d, _)| *d == Some(i)).count();
                    if (t0.elapsed() > Duration::from_millis(60) && entered == ended) || t0.elapsed() > Duration::from_secs(6) {
                        break;
                    }
                }
            }
            _ => {
                // grace: a handler invoked for a failed dial would show up here
                tokio::time::sleep(Duration::from_millis(40)).await;
            }
        }
        if res == DialRes::TimedOut {
            let ignored = logs.lock().unwrap().filter.iter().any(|(d, _, v)| *d == Some(i) && *v == Verdict::Ignore);
            if !ignored {
                fault = Some(Fault::Infra(format!("dial {i} timed out without an ignore verdict")));
                results.push(res);
                break;
            }
        }
        results.push(res);
    }

    // cleanup, bounded and concurrent; not part of the observation
    let _ = tokio::time::timeout(Duration::from_millis(400), async {
        let closes = dialers.iter().map(|d| d.close());
        tokio::join!(n0_future::join_all(closes), router.shutdown())
    })
    .await;

    if let Some(f) = fault {
        return Err(f);
    }
    let logs = logs.lock().unwrap();
    let mut out = Vec::new();
    for (i, res) in results.into_iter().enumerate() {
        let mut filter: Vec<(bool, Verdict)> = Vec::new();
        for (d, v, verdict) in logs.filter.iter() {
            if *d == Some(i) && filter.last() != Some(&(*v, *verdict)) {
                filter.push((*v, *verdict));
            }
        }
        let handler: Vec<(usize, Option<Alpn>)> =
            logs.handler.iter().filter(|(d, _, _)| *d == Some(i)).map(|(_, h, a)| (*h, a.clone())).collect();
        let handler_close = logs.handler_close.iter().filter(|(d, _)| *d == Some(i)).map(|(_, c)| c.clone()).collect();
        let dhooks = logs.dhooks.iter().filter(|(d, _)| *d == i).map(|(_, c)| c.clone()).collect();
        let ahooks = logs.ahooks.iter().filter(|(d, _)| *d == Some(i)).map(|(_, c)| c.clone()).collect();
        out.push(DialObs { filter, res, handler, handler_close, dhooks, ahooks });
    }
    if let Some(o) = out.iter().find(|o| matches!(o.res, DialRes::Err(_))) {
        return Err(Fault::Odd(format!("dial-err:{:?}", o.res).replace(' ', "_")));
    }
    // anything attributed to no dial is a plumbing problem (or a before_connect call on the acceptor)
    if logs.ahooks.iter().any(|(d, c)| d.is_none() && c.starts_with('b')) {
        return Err(Fault::Odd("before_connect-called-on-the-accepting-endpoint".into()));
    }
    if logs.filter.iter().any(|(d, _, _)| d.is_none())
        || logs.handler.iter().any(|(d, _, _)| d.is_none())
        || logs.ahooks.iter().any(|(d, _)| d.is_none())
    {
        return Err(Fault::Infra("log entry from an unknown source".into()));
    }
    if !logs.arg_faults.is_empty() {
        return Err(Fault::Odd(format!("hook-arguments:{}", logs.arg_faults[0].replace(' ', "_"))));
    }
    Ok(out)
}

fn render(obs: &[DialObs]) -> String {
    obs.iter()
        .map(|o| {
            let f: String = if o.filter.is_empty() {
                "-".into()
            } else {
                o.filter.iter().map(|(v, verdict)| format!("{}{}", *v as u8, verdict.letter())).collect()
            };
            let r = match &o.res {
                DialRes::Ok(a) => format!("ok:{}", hex(a)),
                DialRes::Refused => "refused".into(),
                DialRes::NoAlpn => "noalpn".into(),
                DialRes::TimedOut => "ignored".into(),
                DialRes::RejBefore => "rej-before".into(),
                DialRes::SelfConnect => "self".into(),
                DialRes::InvalidAlpn => "invalid-alpn".into(),
                DialRes::RejAfter => "rej-after".into(),
                DialRes::Closed(c, _) => format!("closed:{c}"),
                DialRes::Err(e) => format!("err:{e}"),
            };
            let race = o.res == DialRes::RejAfter;
            let h: String = if o.handler.is_empty() {
                "-".into()
            } else {
                let mut v: Vec<String> = o
                    .handler
                    .iter()
                    .filter(|(_, a)| !(race && a.is_some()))
                    .map(|(h, a)| match a {
                        None => format!("on{h}"),
                        Some(a) => format!("ac{h}:{}", hex(a)),
                    })
                    .collect();
                if race {
                    if let Some(l) = v.last_mut() {
                        l.push('*');
                    }
                }
                v.join(",")
            };
            let j = |v: &Vec<String>| if v.is_empty() { "-".to_string() } else { v.join(".") };
            let ah = if race { "*".to_string() } else { j(&o.ahooks) };
            format!("{f}|{r}|{h}|{}|{ah}", j(&o.dhooks))
        })
        .collect::<Vec<_>>()
        .join(" ; ")
}

/// The property, evaluated on what was observed (no model involved).
fn oracle(sc: &Scenario, obs: &[DialObs], ex: &mut Exec) {
    for (i, o) in obs.iter().enumerate() {
        let dial = &sc.dials[i];
        let offered = &dial.offered;
        let accepts: Vec<&(usize, Option<Alpn>)> = o.handler.iter().filter(|(_, a)| a.is_some()).collect();
        // the handler registered (last) for an ALPN
        let registered_for = |a: &Alpn| sc.reg.iter().rposition(|r| r == a);
        for (h, a) in &o.handler {
            let own = &sc.reg[*h];
            if registered_for(own) != Some(*h) {
                ex.violation("C40:replaced-handler-invoked", format!("dial {i}: handler {h} was replaced by a later registration of {}", hex(own)));
            }
            if let Some(a) = a {
                if a != own {
                    ex.violation("C40:wrong-handler", format!("dial {i}: handler {h} registered for {} got a connection negotiated as {}", hex(own), hex(a)));
                }
                if !offered.contains(a) {
                    ex.violation("C40:alpn-not-offered", format!("dial {i}: negotiated {} was not offered", hex(a)));
                }
                if let DialRes::Ok(da) = &o.res {
                    if da != a {
                        ex.violation("C40:alpn-mismatch", format!("dial {i}: dialer sees {} acceptor sees {}", hex(da), hex(a)));
                    }
                }
            }
        }
        if accepts.len() > 1 {
            ex.violation("C40:handled-twice", format!("dial {i}: {} handler invocations", accepts.len()));
        }
        if o.handler.iter().filter(|(_, a)| a.is_none()).count() > 1 {
            ex.violation("C40:handled-twice", format!("dial {i}: on_accepting invoked more than once"));
        }
        let none_registered = offered.iter().all(|a| registered_for(a).is_none());
        if none_registered && !o.handler.is_empty() {
            ex.violation("C40:unregistered-handled", format!("dial {i}: no offered protocol is registered but a handler ran"));
        }
        if none_registered && matches!(o.res, DialRes::Ok(_)) {
            ex.violation("C40:unregistered-connected", format!("dial {i}: no offered protocol is registered but the dial succeeded"));
        }
        // filter: the last verdict decides; retry needs a later accept on a validated attempt
        if sc.filter.is_some() && !o.filter.is_empty() {
            let last = o.filter.last();
            let admitted = matches!(last, Some((_, Verdict::Accept)));
            if !admitted && (!o.handler.is_empty() || matches!(o.res, DialRes::Ok(_))) {
                ex.violation("C40:refused-but-handled", format!("dial {i}: last filter verdict {:?} but handler/dial went through", last));
            }
            if let Some(p) = o.filter.iter().position(|(_, v)| *v == Verdict::Retry) {
                let later_valid_accept = o.filter[p + 1..].iter().any(|(v, verdict)| *v && *verdict == Verdict::Accept);
                if !o.handler.is_empty() && !later_valid_accept {
                    ex.violation("C40:retry-without-validated-accept", format!("dial {i}: handled after retry without an accepted validated attempt"));
                }
            }
        }
        if matches!(o.res, DialRes::Ok(_)) && accepts.is_empty() {
            ex.violation("C40:connected-unhandled", format!("dial {i}: dial succeeded but no handler was invoked within 5 s"));
        }
        if !matches!(o.res, DialRes::Ok(_) | DialRes::RejAfter) && !accepts.is_empty() {
            ex.violation("C40:failed-but-handled", format!("dial {i}: dial failed ({:?}) but a handler accepted the connection", o.res));
        }

        // ---- composition with the hooks ----
        let first_before_rej = dial.hooks.iter().position(|h| !h.before_accept);
        let first_dafter_rej = dial.hooks.iter().position(|h| h.after_reject.is_some());
        let first_aafter_rej = sc.ah.iter().position(|h| h.after_reject.is_some());
        // (1a) an accept-side after-handshake rejection: the Connection never reaches a handler's accept
        if first_aafter_rej.is_some() && !accepts.is_empty() {
            ex.violation("C40:hook-rejected-but-handled", format!("dial {i}: an acceptor after_handshake hook rejects, yet ProtocolHandler::accept ran"));
        }
        // (1b) a before_connect rejection, a self dial, an empty name: no Incoming at all
        let local_fail = first_before_rej.is_some() || dial.to_self || offered[0].is_empty();
        if local_fail {
            if !matches!(o.res, DialRes::RejBefore | DialRes::SelfConnect | DialRes::InvalidAlpn) {
                ex.violation("C40:precondition-ignored", format!("dial {i}: result {:?}", o.res));
            }
            if !o.filter.is_empty() || !o.handler.is_empty() || !o.ahooks.is_empty() {
                ex.violation("C40:incoming-after-local-failure", format!("dial {i}: filter {:?} handler {:?} acceptor hooks {:?}", o.filter, o.handler, o.ahooks));
            }
        }
        if first_before_rej.is_some() && o.res != DialRes::RejBefore {
            ex.violation("C40:before-reject-ignored", format!("dial {i}: {:?}", o.res));
        }
        // first reject wins on every chain
        let chain = |calls: &Vec<String>, pfx: char, rejects: Vec<bool>, side: &str, ex: &mut Exec| {
            let seq: Vec<usize> = calls.iter().filter_map(|c| c.strip_prefix(pfx).and_then(|x| x.parse().ok())).collect();
            if seq.iter().enumerate().any(|(p, k)| p != *k) {
                ex.violation("C40:hook-order", format!("dial {i} {side}: {calls:?}"));
            }
            if let Some(k) = rejects.iter().position(|r| *r) {
                if seq.iter().any(|x| *x > k) {
                    ex.violation("C40:hook-after-reject", format!("dial {i} {side}: {calls:?}"));
                }
            }
        };
        chain(&o.dhooks, 'b', dial.hooks.iter().map(|h| !h.before_accept).collect(), "dialer", ex);
        chain(&o.dhooks, 'a', dial.hooks.iter().map(|h| h.after_reject.is_some()).collect(), "dialer", ex);
        chain(&o.ahooks, 'a', sc.ah.iter().map(|h| h.after_reject.is_some()).collect(), "acceptor", ex);
        // an after-handshake rejection is seen by the peer as a close with the hook's code
        if !local_fail && !o.handler.is_empty() {
            if let Some(k) = first_dafter_rej {
                let code = dial.hooks[k].after_reject.unwrap();
                if o.res != DialRes::RejAfter {
                    ex.violation("C40:after-reject-ignored", format!("dial {i}: dialer hook {k} rejects but result is {:?}", o.res));
                }
                for c in &o.handler_close {
                    match c {
                        Some((c, r)) if *c == code && *r == reason('d', k) => {}
                        other => ex.violation("C40:wrong-close-code", format!("dial {i}: handler's connection ended with {other:?}, expected code {code}")),
                    }
                }
            } else if let Some(k) = first_aafter_rej {
                let code = sc.ah[k].after_reject.unwrap();
                match &o.res {
                    DialRes::Closed(c, r) if *c == code && *r == reason('a', k) => {}
                    other => ex.violation("C40:wrong-close-code", format!("dial {i}: acceptor hook {k} rejects with {code}, dialer saw {other:?}")),
                }
            }
        }
        if matches!(o.res, DialRes::RejAfter) && first_dafter_rej.is_none() {
            ex.violation("C40:spurious-local-reject", format!("dial {i}"));
        }
        if matches!(o.res, DialRes::Closed(..)) && first_aafter_rej.is_none() {
            ex.violation("C40:spurious-close", format!("dial {i}: {:?}", o.res));
        }
    }
}

const NAMES: [&[u8]; 7] = [b"a", b"ab", b"b", b"/iroh/x/1", b"/iroh/x/10", b"\x00\xff", b"zz"];
const CODES: [u64; 4] = [0, 42, 300, (1 << 62) - 1];

struct C40;

fn hooks_tok(rng: &mut Rng, p_before: u64, p_after: u64) -> String {
    let n = rng.usize_below(3);
    if n == 0 {
        return "-".into();
    }
    (0..n)
        .map(|_| {
            let b = if rng.chance(p_before, 100) { 'r' } else { 'a' };
            let a = if rng.chance(p_after, 100) { format!("r{}", rng.pick(&CODES)) } else { "a".to_string() };
            format!("{b}{a}")
        })
        .collect::<Vec<_>>()
        .join(",")
}

impl C40 {
    fn gen_case(&self, rng: &mut Rng, allow_ignore: bool, with_hooks: bool) -> String {
        let nreg = rng.usize_below(5);
        let mut reg: Vec<&[u8]> = (0..nreg).map(|_| *rng.pick(&NAMES[..6])).collect();
        if rng.chance(1, 8) && !reg.is_empty() {
            let d = *rng.pick(&reg);
            reg.push(d); // a duplicate registration replaces the handler
        }
        let ndials = 1 + rng.usize_below(3);
        let mut dials = Vec::new();
        for _ in 0..ndials {
            let k = 1 + rng.usize_below(3);
            let mut offered: Vec<String> = (0..k)
                .map(|_| {
                    let a: &[u8] = if !reg.is_empty() && rng.chance(3, 5) { *rng.pick(&reg) } else { *rng.pick(&NAMES) };
                    hex(a)
                })
                .collect();
            let mut pfx = "";
            if with_hooks {
                if rng.chance(1, 12) {
                    offered[0] = "-".into();
                }
                if rng.chance(1, 12) {
                    pfx = "@";
                }
            }
            dials.push(format!("{pfx}{}", offered.join(",")));
        }
        let filter = if rng.chance(1, 3) {
            "-".to_string()
        } else {
            let letters: &[char] = if allow_ignore { &['a', 'a', 'a', 't', 't', 'r', 'i'] } else { &['a', 'a', 'a', 't', 't', 'r'] };
            (0..ndials)
                .map(|_| {
                    let x = *rng.pick(letters);
                    let y = if x == 't' { *rng.pick(&['a', 'a', 'a', 't', 'r', if allow_ignore { 'i' } else { 'r' }]) } else { *rng.pick(letters) };
                    format!("{x}{y}")
                })
                .collect::<Vec<_>>()
                .join(".")
        };
        let r = if reg.is_empty() { "-".to_string() } else { reg.iter().map(|a| hex(a)).collect::<Vec<_>>().join(",") };
        let base = format!("R={r} F={filter} D={}", dials.join("/"));
        if with_hooks {
            let dh: Vec<String> = (0..ndials).map(|_| hooks_tok(rng, 12, 20)).collect();
            format!("{base} DH={} AH={}", dh.join("/"), hooks_tok(rng, 30, 25))
        } else {
            base
        }
    }
}

impl Prop for C40 {
    fn id(&self) -> &'static str {
        "C40"
    }

    fn generate(&mut self, rng: &mut Rng, _tier: Tier, n: usize, out: &mut Vec<String>) {
        let fixed = [
            // server preference: registered order (sorted) decides, not the dialer's order
            "R=62,61 F=- D=62,61/61,62/62",
            // prefix names, unregistered offers, nothing registered
            "R=61,6162 F=- D=6162/61/6162,61/7a7a",
            "R=- F=- D=61",
            "R=61 F=- D=62/62,61",
            // every verdict once
            "R=61 F=aa.ta.rr D=61/61/61",
            "R=61 F=tt.tr.ar D=61/61/61",
            "R=61 F=ia D=61",
            "R=61 F=ti D=61",
            // retry then accept, but nothing in common
            "R=61 F=ta D=62",
            // duplicate registration: the later handler wins
            "R=61,62,61 F=- D=61/62",
            // ---- with hooks ----
            // acceptor after-hook rejects: on_accepting is entered, accept never; dialer sees the code
            "R=61,62 F=- D=61/62,61 DH=-/aa AH=aa,ar42,ar7",
            // dialer before-hook rejects: nothing reaches the acceptor (no filter call either)
            "R=61 F=aa.aa D=61/61 DH=aa,ra/aa AH=aa",
            // dialer after-hook rejects (race on the accepting side)
            "R=61 F=ta D=61 DH=aa,ar300 AH=aa",
            "R=61 F=- D=61 DH=ar0 AH=ar4611686018427387903",
            // preconditions behind the hooks: self dial, empty primary name
            "R=61 F=aa.aa.aa D=@61/-,61/61 DH=aa/aa/ra AH=-",
            // the filter refuses / nothing registered: no hook runs after the handshake
            "R=61 F=rr.aa D=61/62 DH=ar1/ar2 AH=ar3",
            // all gates open
            "R=61,62 F=ta D=62,61 DH=aa,aa AH=aa,aa",
        ];
        for f in fixed.iter().take(n) {
            out.push(f.to_string());
        }
        let mut k = 0usize;
        while out.len() < n {
            // ignore verdicts cost a full (short) timeout: one case in six may contain them
            let c = self.gen_case(rng, k % 6 == 0, k % 2 == 1);
            k += 1;
            out.push(c);
        }
    }

    fn execute(&mut self, payload: &str) -> Exec {
        let Some(sc) = parse(payload) else {
            return Exec::new("bad-input").tag("bad-input");
        };
        let mut last = String::new();
        let mut odd = None;
        for _attempt in 0..3 {
            let rt = tokio::runtime::Builder::new_current_thread().enable_all().build().unwrap();
            let res = rt.block_on(scenario(&sc));
            rt.shutdown_timeout(Duration::from_secs(2));
            match res {
                Ok(obs) => {
                    let mut ex = Exec::new(render(&obs));
                    oracle(&sc, &obs, &mut ex);
                    ex.nontrivial = obs.iter().any(|o| !o.handler.is_empty());
                    ex.tags.push(format!("registered={}", sc.reg.len().min(5)));
                    ex.tags.push(format!("dials={}", sc.dials.len()));
                    ex.tags.push(if sc.filter.is_some() { "filter".into() } else { "no-filter".into() });
                    if !sc.ah.is_empty() || sc.dials.iter().any(|d| !d.hooks.is_empty()) {
                        ex.tags.push("with-hooks".into());
                    }
                    for o in &obs {
                        ex.tags.push(
                            match &o.res {
                                DialRes::Ok(_) => "dial-ok",
                                DialRes::Refused => "dial-refused",
                                DialRes::NoAlpn => "dial-noalpn",
                                DialRes::TimedOut => "dial-ignored",
                                DialRes::RejBefore => "dial-rej-before",
                                DialRes::SelfConnect => "dial-self",
                                DialRes::InvalidAlpn => "dial-invalid-alpn",
                                DialRes::RejAfter => "dial-rej-after",
                                DialRes::Closed(..) => "dial-closed-by-acceptor-hook",
                                DialRes::Err(_) => "dial-err",
                            }
                            .into(),
                        );
                        if o.filter.iter().any(|(_, v)| *v == Verdict::Retry) {
                            ex.tags.push("retried".into());
                        }
                        if o.res == DialRes::RejAfter {
                            ex.tags.push(if o.handler.iter().any(|(_, a)| a.is_some()) { "race-accept-ran" } else { "race-accept-skipped" }.into());
                        }
                    }
                    if sc.dials.iter().any(|d| d.offered.len() > 1) {
                        ex.tags.push("multi-offer".into());
                    }
                    return ex;
                }
                Err(Fault::Infra(d)) => {
                    last = d;
                    odd = None;
                }
                Err(Fault::Odd(d)) => odd = Some(d),
            }
        }
        if let Some(d) = odd {
            // reproducible: an ordinary (unexpected) outcome, the model will disagree
            return Exec::new(d).tag("odd-outcome");
        }
        let mut ex = Exec::new("infra").tag("infra-fault");
        ex.model_input = Some(format!("infra {}", last.replace(' ', "_")));
        ex
    }
}

fn main() {
    run(C40);
}
