//! C25 — requested network re-probes are never silently dropped.
//!
//! The real `DirectAddrUpdateState` (iroh/src/socket.rs) is driven through a real `Endpoint` with
//! an in-process relay server: an update request is `Endpoint::remove_relay(<unknown url>)`, which
//! sends `ActorMessage::RelayMapChange` → `Actor::re_stun(RelayMapChange)` → `schedule_run`.  The
//! spawned run task passes the hook gates `direct_addr:run-started` (lock held, before the report),
//! `direct_addr:reported` (report stored, lock held) and `direct_addr:released` (lock dropped, done
//! signal not yet sent); the harness arms gates to park the task there and interleaves further
//! requests.  Every decision of the code is read back from the hook event trace.
//!
//! payload: `script <action>,<action>,…` with actions
//!   `a<g>` arm gate g · `x<g>` disarm gate g · `l<g>` let one parked task through gate g ·
//!   `q` request an update                          (g: `s` run-started, `p` reported, `r` released)
//! After every action the harness waits until the system is settled: every live run task is parked
//! at a gate and the actor has reacted to every done signal.  At the end all gates are disarmed and
//! the system runs to quiescence.
//!
//! model input (derived from the observed trace, i.e. the schedule that really happened):
//!   `run <label>,…`: `q:<Why>:<run|skip>` schedule_run · `d:<run|skip>` actor reacts to a done signal ·
//!   `t` report stored · `r` lock released · `s` done signal sent · `T` infrastructure timeout
//! output: the decisions, `;`-separated: `req <Why> started|deferred`, `done <Why> started`,
//!   `done idle|locked`, `spawn`, `skip empty-map`, `reported`, `releasing`, `signalled`.
use std::time::{Duration, Instant};

use iroh::{
    Endpoint, RelayMode, RelayUrl,
    endpoint::presets,
    tls::CaTlsConfig,
    verif_hooks::pause::{gate, trace},
};
use vcommon::*;

const G_STARTED: &str = "direct_addr:run-started";
const G_REPORTED: &str = "direct_addr:reported";
const G_RELEASED: &str = "direct_addr:released";
const GATES: [&str; 3] = [G_STARTED, G_REPORTED, G_RELEASED];
/// A real net report against the local relay takes well under this.
const SETTLE: Duration = Duration::from_secs(25);
const QUIET: Duration = Duration::from_millis(50);

fn gate_of(c: char) -> Option<&'static str> {
    match c {
        's' => Some(G_STARTED),
        'p' => Some(G_REPORTED),
        'r' => Some(G_RELEASED),
        _ => None,
    }
}

struct Session {
    rt: tokio::runtime::Runtime,
    ep: Endpoint,
    _relay: iroh_relay::server::Server,
    bogus: RelayUrl,
}

#[derive(Default, Debug, Clone, Copy, PartialEq)]
struct Counts {
    started: usize,
    spawn: usize,
    skip: usize,
    reported: usize,
    releasing: usize,
    signalled: usize,
    done: usize,
    req: usize,
    /// requests as seen at the scheduler's entry (`Actor::re_stun`)
    trigger: usize,
    /// run tasks that really began (recorded by the task itself)
    task_start: usize,
}

fn counts(ev: &[String]) -> Counts {
    let mut c = Counts::default();
    for e in ev {
        if e.starts_with("req ") {
            c.req += 1;
        }
        if e.starts_with("trigger ") {
            c.trigger += 1;
        }
        if e == "task-start" {
            c.task_start += 1;
        }
        if e.starts_with("done ") {
            c.done += 1;
        }
        if e.ends_with(" started") {
            c.started += 1;
        }
        match e.as_str() {
            "spawn" => c.spawn += 1,
            "reported" => c.reported += 1,
            "releasing" => c.releasing += 1,
            "signalled" => c.signalled += 1,
            _ if e.starts_with("skip ") => c.skip += 1,
            _ => {}
        }
    }
    c
}

fn parked_total() -> usize {
    GATES.iter().map(|g| gate::parked(g)).sum()
}

/// Every live run task is parked, every start decision has been carried out and the actor has
/// reacted to every done signal.
fn settled(c: &Counts) -> bool {
    let finished = c.releasing.min(c.signalled);
    c.started == c.spawn + c.skip && c.spawn == c.task_start && c.spawn >= finished && c.spawn - finished == parked_total() && c.done == c.signalled
}

impl Session {
    fn new() -> Result<Self, String> {
        let rt = tokio::runtime::Builder::new_multi_thread()
            .worker_threads(4)
            .enable_all()
            .build()
            .map_err(|e| format!("runtime: {e}"))?;
        let (ep, relay) = rt.block_on(async {
            let (relay_map, _url, relay) = iroh::test_utils::run_relay_server().await.map_err(|e| format!("relay: {e:?}"))?;
            let ep = tokio::time::timeout(
                Duration::from_secs(20),
                Endpoint::builder(presets::Minimal)
                    .relay_mode(RelayMode::Custom(relay_map))
                    .ca_tls_config(CaTlsConfig::insecure_skip_verify())
                    .bind(),
            )
            .await
            .map_err(|_| "bind: timeout".to_string())?
            .map_err(|e| format!("bind: {e:?}"))?;
            Ok::<_, String>((ep, relay))
        })?;
        let s = Session { rt, ep, _relay: relay, bogus: "https://no-such-relay.invalid".parse().expect("url") };
        Ok(s)
    }

    /// Polls the trace (from `from`) until `cond` holds and keeps holding for `QUIET`.
    fn wait(&self, from: usize, limit: Duration, cond: impl Fn(&Counts) -> bool) -> bool {
        let deadline = Instant::now() + limit;
        let mut ok_since: Option<(Instant, usize)> = None;
        loop {
            let ev = since(from);
            let c = counts(&ev);
            if cond(&c) && settled(&c) {
                match ok_since {
                    Some((t, n)) if n == ev.len() => {
                        if t.elapsed() >= QUIET {
                            return true;
                        }
                    }
                    _ => ok_since = Some((Instant::now(), ev.len())),
                }
            } else {
                ok_since = None;
            }
            if Instant::now() > deadline {
                return false;
            }
            std::thread::sleep(Duration::from_millis(3));
        }
    }

    fn request(&self) {
        let (ep, url) = (self.ep.clone(), self.bogus.clone());
        self.rt.block_on(async move {
            let _ = tokio::time::timeout(Duration::from_secs(5), ep.remove_relay(&url)).await;
        });
    }

    fn quiesce(&self) -> bool {
        for g in GATES {
            gate::disarm(g);
        }
        // the trace is global and never cleared while tasks of this endpoint may still log
        self.wait(0, SETTLE, |c| c.spawn == c.releasing && c.spawn == c.signalled)
    }
}

struct C25 {
    session: Option<Result<Session, String>>,
}

/// The shared trace facility also carries events of other components (the relay actor's
/// `relay-actor …` lines, added for C26); C25 looks only at the net-report scheduler's events.
fn since(from: usize) -> Vec<String> {
    trace::since(from).into_iter().filter(|e| !e.starts_with("relay-actor ")).collect()
}

/// Events that only the oracle looks at (not part of the scheduler's decision trace).
fn oracle_only(e: &str) -> bool {
    e == "task-start" || e.starts_with("trigger ")
}

/// The statement of C25 evaluated on what really happened (trace ended in a settled, gate-free
/// state).  Behavioural: requests are taken where they enter the scheduler (`trigger`, recorded by
/// the caller) and runs where the run task itself begins (`task-start`) or `run` completes at once
/// (`skip`) — not from the scheduler's own account of its decisions.
fn oracle(ev: &[String], ex: &mut Exec) {
    // at most one report runs at a time: no run task begins between a begin and its `releasing`
    let mut running = false;
    for (i, e) in ev.iter().enumerate() {
        match e.as_str() {
            "task-start" => {
                if running {
                    ex.violation("two-runs", format!("event {i}: a run task began while another one holds the reporter"));
                }
                running = true;
            }
            "releasing" => running = false,
            _ => {}
        }
    }
    // no lost update: after every request a run begins (the request's own, or — when one was in
    // flight — a new one once that has finished)
    for (i, e) in ev.iter().enumerate() {
        if e.starts_with("trigger ") {
            let in_flight = {
                let c = counts(&ev[..i]);
                c.task_start > c.releasing
            };
            let later_run = ev[i + 1..].iter().any(|x| x == "task-start" || x.starts_with("skip "));
            if !later_run {
                ex.violation(
                    "lost-update",
                    format!(
                        "event {i} `{e}` ({}): the system is quiescent (no run in flight, every done signal handled) and no run began after the request",
                        if in_flight { "a run was in flight" } else { "no run was in flight" }
                    ),
                );
            }
        }
    }
}

/// Observed trace → the label sequence that the Lean model replays.
fn labels(all: &[String]) -> Vec<String> {
    let ev: Vec<String> = all.iter().filter(|e| !oracle_only(e)).cloned().collect();
    let ev = &ev[..];
    let mut out = Vec::new();
    let c = counts(all);
    if c.trigger != c.req {
        // a request entered the scheduler without a recorded decision: the hooks no longer see what the code does
        out.push("?".into());
    }
    let mut i = 0;
    while i < ev.len() {
        let e = &ev[i];
        let mode_after = |i: usize| match ev.get(i + 1).map(String::as_str) {
            Some("spawn") => Some("run"),
            Some(s) if s.starts_with("skip ") => Some("skip"),
            _ => None,
        };
        if let Some(rest) = e.strip_prefix("req ") {
            let (why, verdict) = rest.split_once(' ').unwrap_or((rest, ""));
            if verdict == "started" {
                match mode_after(i) {
                    Some(m) => {
                        out.push(format!("q:{why}:{m}"));
                        i += 2;
                        continue;
                    }
                    None => out.push(format!("q:{why}:run")),
                }
            } else {
                out.push(format!("q:{why}:run"));
            }
        } else if e.starts_with("done ") {
            if e.ends_with(" started") {
                match mode_after(i) {
                    Some(m) => {
                        out.push(format!("d:{m}"));
                        i += 2;
                        continue;
                    }
                    None => out.push("d:run".into()),
                }
            } else {
                out.push("d:run".into());
            }
        } else {
            out.push(
                match e.as_str() {
                    "reported" => "t",
                    "releasing" => "r",
                    "signalled" => "s",
                    _ => "?",
                }
                .to_string(),
            );
        }
        i += 1;
    }
    out
}

impl C25 {
    fn run_script(&mut self, actions: &[String]) -> Exec {
        let sess = self.session.get_or_insert_with(|| {
            trace::enable(true);
            let s = Session::new()?;
            // initial report(s) of the fresh endpoint
            if !s.wait(0, SETTLE, |c| c.spawn >= 1 && c.spawn == c.releasing && c.spawn == c.signalled) {
                return Err("initial net report did not finish".into());
            }
            Ok(s)
        });
        let sess = match sess {
            Ok(s) => s,
            Err(e) => {
                let mut ex = Exec::new("timeout");
                ex.model_input = Some("run T".into());
                ex.tags.push(format!("infra:{e}"));
                return ex;
            }
        };
        let mut timeout = !sess.quiesce();
        let from = trace::len();
        let mut deferred_seen = false;
        let mut overlap_seen = false;
        for a in actions {
            if timeout {
                break;
            }
            let mut cs = a.chars();
            let (k, g) = (cs.next(), cs.next().and_then(gate_of));
            match (k, g) {
                (Some('a'), Some(g)) => gate::arm(g),
                (Some('x'), Some(g)) => {
                    gate::disarm(g);
                    timeout |= !sess.wait(from, SETTLE, |_| true);
                }
                (Some('l'), Some(g)) => {
                    if gate::parked(g) > 0 {
                        gate::release(g);
                        // the released task moves on: wait until it is parked again / finished
                        std::thread::sleep(Duration::from_millis(2));
                        timeout |= !sess.wait(from, SETTLE, |_| true);
                    }
                }
                (Some('q'), _) => {
                    let want = counts(&since(from)).trigger + 1;
                    if parked_total() > 0 {
                        overlap_seen = true;
                    }
                    sess.request();
                    timeout |= !sess.wait(from, SETTLE, |c| c.trigger >= want);
                }
                _ => {}
            }
        }
        timeout |= !sess.quiesce();
        let ev = since(from);
        deferred_seen |= ev.iter().any(|e| e.ends_with(" deferred"));
        let mut labs = labels(&ev);
        let mut out = ev.iter().filter(|e| !oracle_only(e)).cloned().collect::<Vec<_>>().join(";");
        if timeout {
            labs.push("T".into());
            out.push_str(";timeout");
        }
        if out.is_empty() {
            out = "-".into();
        }
        let mut ex = Exec::new(out);
        ex.model_input = Some(format!("run {}", if labs.is_empty() { "-".to_string() } else { labs.join(",") }));
        if timeout {
            ex.tags.push("infra-timeout".into());
        } else {
            oracle(&ev, &mut ex);
        }
        if deferred_seen {
            ex.tags.push("deferred".into());
        }
        if overlap_seen {
            ex.tags.push("request-while-parked".into());
        }
        if ev.iter().any(|e| e == "done locked") {
            ex.tags.push("done-locked".into());
        }
        if ev.iter().any(|e| e.starts_with("req Periodic")) {
            ex.tags.push("periodic-tick".into());
        }
        ex.nontrivial = deferred_seen || ev.iter().any(|e| e == "done locked");
        ex
    }
}

fn valid_action(a: &str) -> bool {
    let cs: Vec<char> = a.chars().collect();
    match cs.as_slice() {
        ['q'] => true,
        ['a' | 'x' | 'l', g] => gate_of(*g).is_some(),
        _ => false,
    }
}

impl Prop for C25 {
    fn id(&self) -> &'static str {
        "C25"
    }

    fn generate(&mut self, rng: &mut Rng, _tier: Tier, n: usize, out: &mut Vec<String>) {
        // the forced orders: a second request at each point of the finishing run
        let fixed = [
            // D9: requested while the report runs; the run finishes afterwards
            "as,q,q,ls,ls",
            // requested after the report is stored, before the lock is released
            "ap,q,q,lp,lp",
            // requested between the lock release and the done signal
            "ar,q,q,lr,lr",
            // requested at every point of the same run
            "as,ap,ar,q,q,ls,q,lp,q,lr,xs,xp,xr",
            // deferred, then a third request starts a run in the release/signal window
            "as,ar,q,q,ls,q,lr,lr,xs,xr",
            // two requests while running coalesce into one run
            "as,q,q,q,ls,xs",
            // no interference at all
            "q",
            "q,q",
        ];
        for f in fixed {
            out.push(format!("script {f}"));
        }
        for bad in ["", "script", "script zz", "script q,,q", "nonsense"] {
            out.push(bad.to_string());
        }
        while out.len() < n {
            let len = rng.range(2, 9) as usize;
            let mut acts: Vec<String> = Vec::new();
            let gs = ['s', 'p', 'r'];
            // arm one or two gates first so that requests overlap a run
            for _ in 0..rng.range(1, 2) {
                acts.push(format!("a{}", rng.pick(&gs)));
            }
            acts.push("q".into());
            for _ in 0..len {
                let r = rng.below(10);
                acts.push(match r {
                    0..=3 => "q".to_string(),
                    4..=7 => format!("l{}", rng.pick(&gs)),
                    8 => format!("a{}", rng.pick(&gs)),
                    _ => format!("x{}", rng.pick(&gs)),
                });
            }
            out.push(format!("script {}", acts.join(",")));
        }
    }

    fn execute(&mut self, payload: &str) -> Exec {
        let toks: Vec<&str> = payload.split(' ').collect();
        match toks.as_slice() {
            ["script", acts] => {
                let acts: Vec<String> = acts.split(',').map(str::to_string).collect();
                if acts.len() > 40 || !acts.iter().all(|a| valid_action(a)) {
                    let mut ex = Exec::new("bad-input").tag("malformed");
                    ex.model_input = Some("bad".into());
                    return ex;
                }
                self.run_script(&acts)
            }
            _ => {
                let mut ex = Exec::new("bad-input").tag("malformed");
                ex.model_input = Some("bad".into());
                ex
            }
        }
    }
}

fn main() {
    run(C25 { session: None });
}
