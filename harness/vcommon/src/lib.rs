//! Shared plumbing for the per-property correspondence harness binaries.
//!
//! Every binary implements [`Prop`]: a seeded *generator* of input payloads and
//! an *executor* that runs the real implementation on one payload, returns the
//! canonical output line and evaluates the property's oracle on it.  The line
//! protocol on stdout is
//!
//! ```text
//! P <id> <payload>      replayable payload (only when it differs from the model input)
//! I <id> <payload>      input (fed verbatim to the Lean model driver)
//! O <id> <output>       implementation's canonical output
//! V <id> <class> <..>   oracle: the implementation violates the property here
//! F <id> <reason>       infrastructure fault of the harness itself (case not evaluated)
//! S <key> <count>       input-distribution statistics (for the evidence file)
//! N <count>             number of distinct non-trivial cases
//! ```
//!
//! `--replay <file>` / `--cases <file>` re-executes payloads (one per line, an
//! optional leading `I <id> ` is stripped) instead of generating.

use std::collections::{BTreeMap, HashSet};
use std::fmt::Write as _;
use std::io::{BufRead, Write};
use std::panic::{AssertUnwindSafe, catch_unwind};

/// xoshiro256** seeded through splitmix64.  One state drives every choice.
#[derive(Clone, Debug)]
pub struct Rng {
    s: [u64; 4],
}

impl Rng {
    pub fn new(seed: u64) -> Self {
        let mut z = seed.wrapping_add(0x9E37_79B9_7F4A_7C15);
        let mut next = || {
            z = z.wrapping_add(0x9E37_79B9_7F4A_7C15);
            let mut x = z;
            x = (x ^ (x >> 30)).wrapping_mul(0xBF58_476D_1CE4_E5B9);
            x = (x ^ (x >> 27)).wrapping_mul(0x94D0_49BB_1331_11EB);
            x ^ (x >> 31)
        };
        Rng {
            s: [next(), next(), next(), next()],
        }
    }
    pub fn u64(&mut self) -> u64 {
        let r = self.s[1].wrapping_mul(5).rotate_left(7).wrapping_mul(9);
        let t = self.s[1] << 17;
        self.s[2] ^= self.s[0];
        self.s[3] ^= self.s[1];
        self.s[1] ^= self.s[2];
        self.s[0] ^= self.s[3];
        self.s[2] ^= t;
        self.s[3] = self.s[3].rotate_left(45);
        r
    }
    /// Uniform in `0..n` (n > 0).
    pub fn below(&mut self, n: u64) -> u64 {
        debug_assert!(n > 0);
        self.u64() % n
    }
    pub fn usize_below(&mut self, n: usize) -> usize {
        self.below(n as u64) as usize
    }
    /// Uniform in `lo..=hi`.
    pub fn range(&mut self, lo: u64, hi: u64) -> u64 {
        lo + self.below(hi - lo + 1)
    }
    pub fn bool(&mut self) -> bool {
        self.u64() & 1 == 1
    }
    /// True with probability `num/den`.
    pub fn chance(&mut self, num: u64, den: u64) -> bool {
        self.below(den) < num
    }
    pub fn byte(&mut self) -> u8 {
        self.u64() as u8
    }
    pub fn bytes(&mut self, n: usize) -> Vec<u8> {
        (0..n).map(|_| self.byte()).collect()
    }
    pub fn fill(&mut self, buf: &mut [u8]) {
        for b in buf {
            *b = self.byte();
        }
    }
    pub fn pick<'a, T>(&mut self, xs: &'a [T]) -> &'a T {
        &xs[self.usize_below(xs.len())]
    }
    pub fn shuffle<T>(&mut self, xs: &mut [T]) {
        for i in (1..xs.len()).rev() {
            let j = self.usize_below(i + 1);
            xs.swap(i, j);
        }
    }
}

pub fn hex(bs: &[u8]) -> String {
    let mut s = String::with_capacity(bs.len() * 2 + 1);
    if bs.is_empty() {
        // an empty byte string is written `-` so that tokens never vanish
        return "-".to_string();
    }
    for b in bs {
        let _ = write!(s, "{b:02x}");
    }
    s
}

pub fn unhex(s: &str) -> Option<Vec<u8>> {
    if s == "-" {
        return Some(Vec::new());
    }
    if s.len() % 2 != 0 {
        return None;
    }
    let b = s.as_bytes();
    let nib = |c: u8| match c {
        b'0'..=b'9' => Some(c - b'0'),
        b'a'..=b'f' => Some(c - b'a' + 10),
        b'A'..=b'F' => Some(c - b'A' + 10),
        _ => None,
    };
    (0..b.len() / 2)
        .map(|i| Some(nib(b[2 * i])? << 4 | nib(b[2 * i + 1])?))
        .collect()
}

#[derive(Clone, Copy, Debug, PartialEq, Eq)]
pub enum Tier {
    Quick,
    Thorough,
}

/// Result of running the implementation on one payload.
#[derive(Debug, Default)]
pub struct Exec {
    /// Canonical implementation output (compared with the model's output).
    pub out: String,
    /// Oracle hits: (signature class, human detail).
    pub violations: Vec<(String, String)>,
    /// Whether the case reached a non-trivial (non-error / interesting) branch.
    pub nontrivial: bool,
    /// Branch / kind tags for the input-distribution report.
    pub tags: Vec<String>,
    /// When the model needs facts only known after running the implementation
    /// (e.g. a random challenge the server generated, verdicts of real
    /// cryptography used as oracle inputs), the line fed to the Lean driver.
    /// `None`: the payload itself is the model input.  The payload stays the
    /// replayable case (printed as a `P` line).
    pub model_input: Option<String>,
    /// Set when the harness' own plumbing failed (could not bind a socket, a bounded wait
    /// of the harness expired, …): the case is reported as an `F` line, is not compared with
    /// the model and is never a violation; the check counts such cases in its evidence.
    pub infra: Option<String>,
}

impl Exec {
    pub fn new(out: impl Into<String>) -> Self {
        Exec {
            out: out.into(),
            ..Default::default()
        }
    }
    pub fn tag(mut self, t: impl Into<String>) -> Self {
        self.tags.push(t.into());
        self
    }
    pub fn nontrivial(mut self, b: bool) -> Self {
        self.nontrivial = b;
        self
    }
    pub fn violation(&mut self, class: impl Into<String>, detail: impl Into<String>) {
        self.violations.push((class.into(), detail.into()));
    }
}

pub trait Prop {
    /// Property id, e.g. "C13".
    fn id(&self) -> &'static str;
    /// Push about `n` input payloads (single-line strings, no leading/trailing space).
    fn generate(&mut self, rng: &mut Rng, tier: Tier, n: usize, out: &mut Vec<String>);
    /// Run the real implementation on `payload`.  May panic; the driver catches it.
    fn execute(&mut self, payload: &str) -> Exec;
    /// Whether a panic inside `execute` is itself a violation of the property
    /// (class `panic`).  Default: yes.
    fn panic_is_violation(&self) -> bool {
        true
    }
}

pub struct Args {
    pub seed: u64,
    pub n: usize,
    pub tier: Tier,
    pub cases: Option<String>,
}

pub fn parse_args() -> Args {
    let mut a = Args {
        seed: std::env::var("VERIF_SEED")
            .ok()
            .and_then(|s| s.parse().ok())
            .unwrap_or(0),
        n: 1000,
        tier: Tier::Quick,
        cases: None,
    };
    let mut it = std::env::args().skip(1);
    while let Some(k) = it.next() {
        match k.as_str() {
            "--seed" => a.seed = it.next().and_then(|s| s.parse().ok()).expect("--seed N"),
            "--n" => a.n = it.next().and_then(|s| s.parse().ok()).expect("--n N"),
            "--tier" => {
                a.tier = match it.next().as_deref() {
                    Some("thorough") => Tier::Thorough,
                    _ => Tier::Quick,
                }
            }
            "--cases" | "--replay" => a.cases = it.next(),
            other => panic!("unknown argument {other}"),
        }
    }
    a
}

fn clean(s: &str) -> String {
    s.replace(['\n', '\r'], " ")
}

fn fnv(s: &str) -> u64 {
    let mut h: u64 = 0xcbf29ce484222325;
    for b in s.bytes() {
        h ^= b as u64;
        h = h.wrapping_mul(0x100000001b3);
    }
    h
}

/// Entry point used by every harness binary.
pub fn run<P: Prop>(mut p: P) {
    let args = parse_args();
    // Panics are observable outcomes, not noise on stderr.
    std::panic::set_hook(Box::new(|_| {}));

    let mut payloads: Vec<String> = Vec::new();
    if let Some(path) = &args.cases {
        let f = std::fs::File::open(path).expect("open cases file");
        for line in std::io::BufReader::new(f).lines() {
            let line = line.expect("read");
            let line = line.trim_end();
            if line.is_empty() || line.starts_with('#') {
                continue;
            }
            let payload = if let Some(rest) = line.strip_prefix("I ") {
                rest.split_once(' ').map(|x| x.1).unwrap_or("").to_string()
            } else {
                line.to_string()
            };
            payloads.push(payload);
        }
    } else {
        let mut rng = Rng::new(args.seed);
        p.generate(&mut rng, args.tier, args.n, &mut payloads);
    }

    let stdout = std::io::stdout();
    let mut w = std::io::BufWriter::with_capacity(1 << 20, stdout.lock());
    let mut stats: BTreeMap<String, u64> = BTreeMap::new();
    let mut distinct: HashSet<u64> = HashSet::new();
    let prefix = if args.cases.is_some() { "r" } else { "g" };
    for (i, payload) in payloads.iter().enumerate() {
        let id = format!("{prefix}{i}");
        let res = catch_unwind(AssertUnwindSafe(|| p.execute(payload)));
        match &res {
            Ok(Exec { model_input: Some(mi), .. }) => {
                let _ = writeln!(w, "P {id} {}", clean(payload));
                let _ = writeln!(w, "I {id} {}", clean(mi));
            }
            _ => {
                let _ = writeln!(w, "I {id} {}", clean(payload));
            }
        }
        match res {
            Ok(Exec { infra: Some(reason), .. }) => {
                let _ = writeln!(w, "F {id} {}", clean(&reason));
                *stats.entry("infra-fault".into()).or_default() += 1;
            }
            Ok(ex) => {
                let _ = writeln!(w, "O {id} {}", clean(&ex.out));
                for (class, detail) in &ex.violations {
                    let _ = writeln!(w, "V {id} {} {}", clean(class), clean(detail));
                }
                for t in ex.tags {
                    *stats.entry(t).or_default() += 1;
                }
                if ex.nontrivial {
                    distinct.insert(fnv(payload));
                    *stats.entry("nontrivial".into()).or_default() += 1;
                }
            }
            Err(e) => {
                let msg = e
                    .downcast_ref::<String>()
                    .cloned()
                    .or_else(|| e.downcast_ref::<&str>().map(|s| s.to_string()))
                    .unwrap_or_else(|| "?".into());
                let _ = writeln!(w, "O {id} panic");
                *stats.entry("panic".into()).or_default() += 1;
                if p.panic_is_violation() {
                    let _ = writeln!(w, "V {id} panic {}", clean(&msg));
                }
            }
        }
    }
    for (k, v) in &stats {
        let _ = writeln!(w, "S {k} {v}");
    }
    let _ = writeln!(w, "N {}", distinct.len());
    let _ = w.flush();
}
