//! harness group hrelay: one binary per property under src/bin/.
