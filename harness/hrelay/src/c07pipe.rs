//! C07 (extension) — the accept pipeline end to end on the real `Server`.
//!
//! Included by `bin/c07.rs` (`#[path = "../c07pipe.rs"] mod pipe;`).  One case = one raw HTTP
//! upgrade request + relay handshake against the real server with a policy that is a function
//! of what `on_connect` is shown; recorded: the HTTP answer, the relay frames the client gets,
//! what `on_connect` saw (endpoint id, version, `auth_token()`), and which owner / version the
//! connection was registered with (`Clients::verif_snapshot`; the version by behaviour: a
//! displaced V1 connection is told with a `Health` frame, a V2 one with a `Status` frame).
//!
//! payload: `pipe k=v …` (hex = lower-case hex, `-` = empty)
//!   m=<GET|POST> p=<path hex> up=<hex|none> wk=<0|1> wv=<hex|none> wp=<hex[,hex…]|none>   request line + upgrade headers
//!   ca=<none|foreign:<j>|badpoint|raw:<hex>>      x-iroh-relay-client-auth-v1 header
//!   az=<hex[,hex…]|->  q=<hex|none>  pl=<hex>     Authorization values, raw query, bytes pipelined behind the head
//!   key=<i> auth=<honest|sigbad|other:<j>|crossed:<j>|garbage|eof>     the ClientAuth frame
//!   dec=<allow|deny|denyr:<hex>|tok:<hex>|key:<j>>   policy: constant, or allow iff token / endpoint id equals
//! model input = payload + facts of the run (`chal`, `dk`, `vp`, `vf`, `hdr`, `frames`).
use std::net::Ipv4Addr;

use iroh_base::{PublicKey, Signature};

use super::*;

#[derive(Clone, Debug)]
pub enum Policy {
    Allow,
    Deny(Option<String>),
    TokenEq(Vec<u8>),
    KeyEq(u64),
}

#[derive(Clone, Debug)]
pub struct Seen {
    pub endpoint: Vec<u8>,
    pub v1: bool,
    pub token: Option<Vec<u8>>,
    pub cid: ConnectionId,
    pub allowed: bool,
}

/// `on_connect` in pipe mode. `None`: not in pipe mode.
pub fn on_connect(gate: &Gate, request: &ClientRequest) -> Option<Access> {
    let policy = gate.pipe.lock().unwrap().clone()?;
    if request.query_pairs().any(|(k, _)| k == "probe") {
        return Some(Access::Allow);
    }
    let token = request.auth_token().map(|t| t.into_bytes());
    let endpoint = request.endpoint_id().as_bytes().to_vec();
    let access = match &policy {
        Policy::Allow => Access::Allow,
        Policy::Deny(r) => Access::Deny { reason: r.clone() },
        Policy::TokenEq(t) => {
            if token.as_deref() == Some(t.as_slice()) { Access::Allow } else { Access::Deny { reason: None } }
        }
        Policy::KeyEq(j) => {
            if endpoint == secret(*j).public().as_bytes() { Access::Allow } else { Access::Deny { reason: None } }
        }
    };
    gate.pipe_seen.lock().unwrap().push(Seen {
        endpoint,
        v1: request.protocol_version() == ProtocolVersion::V1,
        token,
        cid: request.connection_id(),
        allowed: access == Access::Allow,
    });
    Some(access)
}

fn kv<'a>(ts: &'a [&'a str], k: &str) -> Option<&'a str> {
    ts.iter().find_map(|t| t.strip_prefix(k).and_then(|r| r.strip_prefix('=')))
}

fn legal_header(v: &[u8]) -> bool {
    v.iter().all(|b| *b == 9 || (*b >= 32 && *b != 127)) && v.first() != Some(&b' ') && v.last() != Some(&b' ')
        && v.first() != Some(&9) && v.last() != Some(&9)
}

fn legal_target(v: &[u8]) -> bool {
    v.iter().all(|b| b.is_ascii_alphanumeric() || b"-._~!$&'()*+,;=:@/%".contains(b))
}

fn b64url(bs: &[u8]) -> Vec<u8> {
    data_encoding::BASE64URL_NOPAD.encode(bs).into_bytes()
}

/// A point that is not on the curve (found by search, deterministic).
fn bad_point() -> [u8; 32] {
    let mut b = [0u8; 32];
    for i in 0..=255u8 {
        b[0] = i;
        b[1] = 0xEE;
        b[31] = 0x7F;
        if PublicKey::from_bytes(&b).is_err() {
            return b;
        }
    }
    b
}

struct Parsed {
    method: String,
    path: Vec<u8>,
    up: Option<Vec<u8>>,
    wk: bool,
    wv: Option<Vec<u8>>,
    wp: Vec<Vec<u8>>,
    ca: String,
    az: Vec<Vec<u8>>,
    q: Option<Vec<u8>>,
    pl: Vec<u8>,
    key: u64,
    auth: String,
    dec: String,
}

fn opt_hex(s: &str) -> Option<Option<Vec<u8>>> {
    if s == "none" { Some(None) } else { unhex(s).map(Some) }
}

fn parse(payload: &str) -> Option<Parsed> {
    let ts: Vec<&str> = payload.split_whitespace().collect();
    if ts.first() != Some(&"pipe") {
        return None;
    }
    let list = |s: &str| -> Option<Vec<Vec<u8>>> {
        if s == "-" || s == "none" { Some(vec![]) } else { s.split(',').map(unhex).collect() }
    };
    let p = Parsed {
        method: kv(&ts, "m")?.to_string(),
        path: unhex(kv(&ts, "p")?)?,
        up: opt_hex(kv(&ts, "up")?)?,
        wk: kv(&ts, "wk")? == "1",
        wv: opt_hex(kv(&ts, "wv")?)?,
        wp: list(kv(&ts, "wp")?)?,
        ca: kv(&ts, "ca")?.to_string(),
        az: list(kv(&ts, "az")?)?,
        q: opt_hex(kv(&ts, "q")?)?,
        pl: unhex(kv(&ts, "pl")?)?,
        key: kv(&ts, "key")?.parse().ok().filter(|k| *k < 3)?,
        auth: kv(&ts, "auth")?.to_string(),
        dec: kv(&ts, "dec")?.to_string(),
    };
    if !["GET", "POST"].contains(&p.method.as_str()) || !legal_target(&p.path) || !p.path.starts_with(b"/") {
        return None;
    }
    if p.q.as_ref().is_some_and(|q| !legal_target(q) || q.contains(&b'?'))
        || p.up.iter().chain(p.wv.iter()).chain(p.wp.iter()).chain(p.az.iter()).any(|v| !legal_header(v))
    {
        return None;
    }
    Some(p)
}

fn other_key(s: &str) -> Option<u64> {
    s.split_once(':')?.1.parse().ok().filter(|k| *k < 3)
}

/// Reads the response head: (status, value of the Sec-WebSocket-Protocol header).
async fn read_head(raw: &mut Raw) -> Option<(u16, Option<Vec<u8>>)> {
    loop {
        if let Some(p) = raw.buf.windows(4).position(|w| w == b"\r\n\r\n") {
            let head = raw.buf[..p].to_vec();
            raw.buf.drain(..p + 4);
            let mut lines = head.split(|b| *b == b'\n');
            let status = std::str::from_utf8(lines.next()?).ok()?.split_whitespace().nth(1)?.parse().ok()?;
            let mut proto = None;
            for l in lines {
                let l = l.strip_suffix(b"\r").unwrap_or(l);
                if l.len() > 23 && l[..23].eq_ignore_ascii_case(b"sec-websocket-protocol:") {
                    let v = &l[23..];
                    let v = v.strip_prefix(b" ").unwrap_or(v);
                    proto = Some(v.to_vec());
                }
            }
            return Some((status, proto));
        }
        raw.fill().await?;
    }
}

fn frame_str(f: &[u8]) -> String {
    if f.first() == Some(&0) { "00".into() } else { hex(f) }
}

pub async fn run_case(payload: &str) -> Exec {
    let Some(p) = parse(payload) else { return Exec::new("bad-input").tag("bad-input") };
    let policy = match p.dec.as_str() {
        "allow" => Policy::Allow,
        "deny" => Policy::Deny(None),
        d if d.starts_with("denyr:") => match unhex(&d[6..]).and_then(|b| String::from_utf8(b).ok()) {
            Some(r) => Policy::Deny(Some(r)),
            None => return Exec::new("bad-input").tag("bad-input"),
        },
        d if d.starts_with("tok:") => match unhex(&d[4..]) {
            Some(t) => Policy::TokenEq(t),
            None => return Exec::new("bad-input").tag("bad-input"),
        },
        d if d.starts_with("key:") => match other_key(d) {
            Some(j) => Policy::KeyEq(j),
            None => return Exec::new("bad-input").tag("bad-input"),
        },
        _ => return Exec::new("bad-input").tag("bad-input"),
    };
    verif_pause::reset();
    let gate = Arc::new(Gate::default());
    *gate.pipe.lock().unwrap() = Some(policy);
    let mut relay = RelayConfig::new((Ipv4Addr::LOCALHOST, 0));
    relay.access = Arc::new(GateAccess(gate.clone()));
    let mut config = ServerConfig::default();
    config.relay = Some(relay);
    let server = match Server::spawn(config).await {
        Ok(s) => s,
        Err(e) => return Exec::new(format!("infra:spawn:{e}")).tag("infra"),
    };
    let addr = server.http_addr().expect("http addr");
    let clients = server.relay_service().expect("relay").clients().clone();
    let mut faults: Vec<String> = Vec::new();

    // ---- the request -------------------------------------------------------------------
    let sk = secret(p.key);
    let hdr: Option<Vec<u8>> = match p.ca.as_str() {
        "none" => None,
        "badpoint" => {
            let mut raw = bad_point().to_vec();
            raw.push(64);
            raw.extend_from_slice(&[0x11; 64]);
            raw.extend_from_slice(&[0x22; 16]);
            Some(b64url(&raw))
        }
        c if c.starts_with("foreign:") => {
            let Some(j) = other_key(c) else { return Exec::new("bad-input").tag("bad-input") };
            // a well-formed KeyMaterialClientAuth naming key j (signature and suffix made up)
            let mut raw = secret(j).public().as_bytes().to_vec();
            raw.push(64);
            raw.extend_from_slice(&[0x33; 64]);
            raw.extend_from_slice(&[0x44; 16]);
            Some(b64url(&raw))
        }
        c if c.starts_with("raw:") => match unhex(&c[4..]) {
            Some(v) if legal_header(&v) => Some(v),
            _ => return Exec::new("bad-input").tag("bad-input"),
        },
        _ => return Exec::new("bad-input").tag("bad-input"),
    };
    let mut req: Vec<u8> = Vec::new();
    req.extend_from_slice(p.method.as_bytes());
    req.push(b' ');
    req.extend_from_slice(&p.path);
    if let Some(q) = &p.q {
        req.push(b'?');
        req.extend_from_slice(q);
    }
    req.extend_from_slice(format!(" HTTP/1.1\r\nHost: {addr}\r\nConnection: Upgrade\r\n").as_bytes());
    let mut header = |name: &str, v: &[u8]| {
        req.extend_from_slice(name.as_bytes());
        req.extend_from_slice(b": ");
        req.extend_from_slice(v);
        req.extend_from_slice(b"\r\n");
    };
    if let Some(v) = &p.up {
        header("Upgrade", v);
    }
    if p.wk {
        header("Sec-WebSocket-Key", b"dGhlIHNhbXBsZSBub25jZQ==");
    }
    if let Some(v) = &p.wv {
        header("Sec-WebSocket-Version", v);
    }
    for v in &p.wp {
        header("Sec-WebSocket-Protocol", v);
    }
    if let Some(v) = &hdr {
        header("x-iroh-relay-client-auth-v1", v);
    }
    for v in &p.az {
        header("Authorization", v);
    }
    req.extend_from_slice(b"\r\n");
    req.extend_from_slice(&p.pl);

    let Ok(Ok(s)) = tokio::time::timeout(WAIT, TcpStream::connect(addr)).await else {
        return Exec::new("infra:tcp-connect").tag("infra");
    };
    let _ = s.set_nodelay(true);
    let mut raw = Raw { s, buf: Vec::new() };
    raw.send(&req).await;
    let (status, proto) = match read_head(&mut raw).await {
        Some(x) => x,
        None => {
            faults.push("no-http-answer".into());
            (0, None)
        }
    };
    let http = match status {
        101 => "101",
        400 => "400",
        _ => "other",
    };

    // ---- the relay handshake -------------------------------------------------------------
    let mut got: Vec<Vec<u8>> = Vec::new();
    let mut sent: Vec<String> = Vec::new();
    let mut chal = [0u8; 16];
    let mut have_chal = false;
    let mut vp: Vec<String> = Vec::new();
    let mut vf: Vec<String> = Vec::new();
    let mut auth_pk: Option<[u8; 32]> = None;
    let mut auth_ok = false;
    let valid = |pk: &[u8; 32]| PublicKey::from_bytes(pk).is_ok();
    if status == 101 {
        if let Some(f) = raw.read_relay().await {
            if f.len() == 17 && f[0] == 0 {
                chal.copy_from_slice(&f[1..]);
                have_chal = true;
            }
            got.push(f);
        }
        if have_chal {
            let msg = hs::message_to_sign(chal);
            let frame: Option<Vec<u8>> = match p.auth.as_str() {
                "honest" => Some(hs::client_auth_frame(&sk, chal).to_vec()),
                "sigbad" => {
                    let mut f = hs::client_auth_frame(&sk, chal).to_vec();
                    let n = f.len();
                    f[n - 1] ^= 0x55;
                    Some(f)
                }
                a if a.starts_with("other:") => other_key(a).map(|j| hs::client_auth_frame(&secret(j), chal).to_vec()),
                a if a.starts_with("crossed:") => other_key(a).map(|j| {
                    // names `key`, signed by key j
                    let mut f = hs::client_auth_frame(&secret(j), chal).to_vec();
                    f[1..33].copy_from_slice(sk.public().as_bytes());
                    f
                }),
                "garbage" => Some(vec![1, 2, 3, 4, 5, 6, 7]),
                _ => None,
            };
            match frame {
                Some(f) => {
                    // facts of the real cryptography about this frame
                    if f.len() == 98 && f[0] == 1 && f[33] == 64 {
                        let mut pk = [0u8; 32];
                        pk.copy_from_slice(&f[1..33]);
                        let mut sig = [0u8; 64];
                        sig.copy_from_slice(&f[34..98]);
                        let ok_pk = valid(&pk);
                        vp.push(format!("{}:{}", hex(&pk), ok_pk as u8));
                        let ok = ok_pk
                            && PublicKey::from_bytes(&pk).unwrap().verify(&msg, &Signature::from_bytes(&sig)).is_ok();
                        vf.push(format!("{}:{}:{}:{}", hex(&pk), hex(&msg), hex(&sig), ok as u8));
                        auth_pk = Some(pk);
                        auth_ok = ok;
                    }
                    sent.push(format!("F:{}", hex(&f)));
                    raw.send(&ws_frame(2, &f)).await;
                }
                None => {
                    // eof
                    let _ = raw.s.shutdown().await;
                }
            }
            // what the server answers (confirmation / denial), if anything
            if let Some(f) = raw.read_relay().await {
                got.push(f);
            }
        }
    }
    if let Some(h) = &hdr {
        // facts about the key named by the header, if it decodes that far
        if let Ok(rawh) = data_encoding::BASE64URL_NOPAD.decode(h) {
            if rawh.len() >= 32 {
                let mut pk = [0u8; 32];
                pk.copy_from_slice(&rawh[..32]);
                vp.push(format!("{}:{}", hex(&pk), valid(&pk) as u8));
            }
        }
    }

    // ---- what the server did ---------------------------------------------------------------
    // let the accept task finish (registration follows the confirmation without waiting for the client)
    let confirmed = got.iter().any(|f| f.first() == Some(&2));
    if confirmed {
        let c2 = clients.clone();
        wait_until(|| !c2.verif_snapshot().0.is_empty()).await;
    }
    let seen = gate.pipe_seen.lock().unwrap().clone();
    let (snap, _) = clients.verif_snapshot();
    let mut reg: Option<(Vec<u8>, ConnectionId)> = None;
    for (e, a, ina) in &snap {
        for c in std::iter::once(a).chain(ina.iter()) {
            reg = Some((e.as_bytes().to_vec(), *c));
        }
    }
    // registered version, by behaviour: displace the connection and look at the notice it gets
    let mut reg_version = "?";
    if let Some((owner, _)) = &reg {
        if let Some(j) = (0..3u64).find(|j| secret(*j).public().as_bytes() == owner.as_slice()) {
            if let Ok(Ok(s2)) = tokio::time::timeout(WAIT, TcpStream::connect(addr)).await {
                let mut r2 = Raw { s: s2, buf: Vec::new() };
                let rq = format!(
                    "GET {RELAY_PATH}?probe=1 HTTP/1.1\r\nHost: {addr}\r\nConnection: Upgrade\r\nUpgrade: websocket\r\nSec-WebSocket-Version: 13\r\nSec-WebSocket-Key: dGhlIHNhbXBsZSBub25jZQ==\r\nSec-WebSocket-Protocol: {}\r\n\r\n",
                    ProtocolVersion::all_joined()
                );
                r2.send(rq.as_bytes()).await;
                let _ = r2.read_http().await;
                if let Some(f) = r2.read_relay().await {
                    if f.len() == 17 && f[0] == 0 {
                        let mut c = [0u8; 16];
                        c.copy_from_slice(&f[1..]);
                        r2.send(&ws_frame(2, &hs::client_auth_frame(&secret(j), c))).await;
                        let _ = r2.read_relay().await;
                    }
                }
                // the displaced (first) connection is told
                match raw.read_relay().await {
                    Some(f) if f.first() == Some(&13) => reg_version = "v2",
                    Some(f) if f.first() == Some(&11) => reg_version = "v1",
                    other => faults.push(format!("no-displacement-notice:{:?}", other.map(|f| f.first().copied()))),
                }
                drop(r2);
            }
        }
    }
    drop(raw);
    let _ = tokio::time::timeout(WAIT, server.shutdown()).await;

    // ---- canonical output --------------------------------------------------------------------
    let seen_s = match seen.first() {
        Some(s) => format!(
            "{}:{}:{}",
            hex(&s.endpoint),
            if s.v1 { "v1" } else { "v2" },
            s.token.as_ref().map(|t| hex(t)).unwrap_or_else(|| "none".into())
        ),
        None => "-".into(),
    };
    let reg_s = match &reg {
        Some((o, _)) => format!("{}:{reg_version}", hex(o)),
        None => "-".into(),
    };
    let out = format!(
        "http={http} proto={} | frames={} | seen={seen_s} | reg={reg_s}",
        proto.as_ref().map(|v| hex(v)).unwrap_or_else(|| "-".into()),
        if got.is_empty() { "-".into() } else { got.iter().map(|f| frame_str(f)).collect::<Vec<_>>().join(",") },
    );
    let mut ex = Exec::new(out);
    ex.model_input = Some(format!(
        "{payload} keys={} chal={} dk={} vp={} vf={} hdr={} frames={}",
        (0..3u64).map(|j| hex(secret(j).public().as_bytes())).collect::<Vec<_>>().join(","),
        if have_chal { hex(&chal) } else { "none".into() },
        if have_chal { hex(&hs::message_to_sign(chal)) } else { "-".into() },
        if vp.is_empty() { "-".into() } else { vp.join(",") },
        if vf.is_empty() { "-".into() } else { vf.join(",") },
        hdr.as_ref().map(|h| hex(h)).unwrap_or_else(|| "none".into()),
        if sent.is_empty() { "-".into() } else { sent.join(",") },
    ));

    // ---- oracle: independent of the Lean model ------------------------------------------------
    // the key the client proved: the one named in a ClientAuth frame whose signature verifies (real crypto)
    let proved: Option<Vec<u8>> = if auth_ok { auth_pk.map(|p| p.to_vec()) } else { None };
    // expected version: newest supported one in the FIRST protocol header
    let exp_version: Option<&str> = p.wp.first().and_then(|h| std::str::from_utf8(h).ok()).and_then(|h| {
        let mut best = None;
        for t in h.split(',').map(|t| t.trim()) {
            if t == "iroh-relay-v2" {
                best = Some("v2");
            } else if t == "iroh-relay-v1" && best.is_none() {
                best = Some("v1");
            }
        }
        best
    });
    // expected token: first `Bearer` Authorization header, else the `token` query parameter
    let exp_token: Option<Vec<u8>> = {
        let mut res: Option<Option<Vec<u8>>> = None;
        for v in &p.az {
            if !v.iter().all(|b| *b == 9 || (32..127).contains(b)) {
                res = Some(None);
                break;
            }
            if let Some(i) = v.iter().position(|b| *b == b' ') {
                if v[..i].eq_ignore_ascii_case(b"bearer") {
                    res = Some(Some(v[i + 1..].to_vec()));
                    break;
                }
            }
        }
        match res {
            Some(r) => r,
            None => p.q.as_ref().and_then(|q| {
                url::form_urlencoded::parse(q).find(|(k, _)| k == "token").map(|(_, v)| v.into_owned().into_bytes())
            }),
        }
    };
    if seen.len() > 1 {
        ex.violation("C07:on_connect-called-twice", format!("{} calls for one connection", seen.len()));
    }
    if let Some(s) = seen.first() {
        if proved.as_deref() != Some(s.endpoint.as_slice()) {
            ex.violation("C07:policy-saw-unverified-id", format!("on_connect saw endpoint {} but the client proved {:?}", hex(&s.endpoint), proved.as_ref().map(|p| hex(p))));
        }
        if s.token != exp_token {
            ex.violation("C07:token-mismatch", format!("auth_token() = {:?}, request carries {:?}", s.token.as_ref().map(|t| hex(t)), exp_token.as_ref().map(|t| hex(t))));
        }
        if Some(if s.v1 { "v1" } else { "v2" }) != exp_version {
            ex.violation("C07:version-mismatch", format!("on_connect saw v1={} but the request offers {:?}", s.v1, exp_version));
        }
    }
    if let Some((owner, cid)) = &reg {
        if proved.as_deref() != Some(owner.as_slice()) {
            ex.violation("C07:owner-not-authenticated-key", format!("registered owner {} but the client proved {:?}", hex(owner), proved.as_ref().map(|p| hex(p))));
        }
        match seen.first() {
            Some(s) if s.allowed && s.cid == *cid && s.endpoint == *owner => {}
            _ => ex.violation("C07:registered-without-matching-admission", format!("owner {} connection {cid}", hex(owner))),
        }
        if reg_version != "?" && Some(reg_version) != exp_version {
            ex.violation("C07:version-mismatch", format!("registered as {reg_version}, request offers {exp_version:?}"));
        }
        let upgrade_ok = p.method == "GET"
            && p.path == RELAY_PATH.as_bytes()
            && p.up.as_deref() == Some(b"websocket".as_slice())
            && p.wk
            && p.wv.as_deref() == Some(b"13".as_slice())
            && p.pl.is_empty();
        if !upgrade_ok {
            ex.violation("C07:registered-despite-failure", "the upgrade request was not acceptable".to_string());
        }
    }
    if reg.is_some() && !confirmed {
        ex.violation("C07:registered-despite-failure", "registered without a confirmation frame".to_string());
    }
    for f in &faults {
        ex.tags.push(format!("fault:{}", f.split(':').next().unwrap_or("")));
    }
    if !faults.is_empty() {
        ex.out = format!("{} !{}", ex.out, faults.join(","));
    }
    ex.tags.push(format!("pipe-http:{http}"));
    ex.tags.push(format!("pipe-auth:{}", p.auth.split(':').next().unwrap_or("")));
    ex.tags.push(format!("pipe-ca:{}", p.ca.split(':').next().unwrap_or("")));
    ex.tags.push(if reg.is_some() { "pipe-registered".into() } else { "pipe-not-registered".into() });
    ex.nontrivial = !seen.is_empty();
    ex
}

fn pick_hex(rng: &mut Rng, xs: &[&str]) -> String {
    hex(rng.pick(xs).trim().as_bytes())
}

/// One random pipe payload: mostly an acceptable request with one or two fields perturbed.
pub fn gen_case(rng: &mut Rng) -> String {
    let good = rng.chance(2, 3);
    let m = if good || rng.chance(7, 8) { "GET" } else { "POST" };
    let path = if good || rng.chance(5, 6) { "/relay" } else { *rng.pick(&["/relay/", "/relayx", "/Relay", "/"]) };
    let up = if good || rng.chance(4, 5) { hex(b"websocket") } else { (*rng.pick(&["none", "576562736f636b6574", "7773"])).to_string() };
    let wk = if good || rng.chance(7, 8) { 1 } else { 0 };
    let wv = if good || rng.chance(4, 5) { hex(b"13") } else { (*rng.pick(&["none", "3132", "3133 ", "313330"])).trim().to_string() };
    let protos = [
        "iroh-relay-v2, iroh-relay-v1", "iroh-relay-v1", "iroh-relay-v2", "iroh-relay-v1,iroh-relay-v2", " iroh-relay-v1 ,x",
        "iroh-relay-v3, iroh-relay-v1", "Iroh-Relay-V2", "iroh-relay-v3", "x,,iroh-relay-v2", "iroh-relay-v1;iroh-relay-v2",
    ];
    let wp = match rng.below(12) {
        0 => "none".to_string(),
        1 => format!("{},{}", pick_hex(rng, &protos), pick_hex(rng, &protos)),
        _ => {
            let p = rng.pick(&protos).trim();
            hex(p.as_bytes())
        }
    };
    let ca = match rng.below(8) {
        0 => format!("foreign:{}", rng.below(3)),
        1 => "badpoint".to_string(),
        2 => format!("raw:{}", pick_hex(rng, &["AAAA", "not base64!", "QUJD", "-_-_"])),
        3 => format!("foreign:{}", rng.below(3)),
        _ => "none".to_string(),
    };
    let toks = ["tok", "s3cr3t", "a b", "x=y", ""];
    let mut az = Vec::new();
    for _ in 0..rng.below(3) {
        az.push(match rng.below(7) {
            0 => format!("Bearer {}", rng.pick(&toks)),
            1 => format!("bearer {}", rng.pick(&toks)),
            2 => format!("BEARER {}", rng.pick(&toks)),
            3 => format!("Basic {}", rng.pick(&toks)),
            4 => "Bearer".to_string(),
            5 => format!("Bearer\u{e9} {}", rng.pick(&toks)),
            _ => format!("Token {}", rng.pick(&toks)),
        });
    }
    let az_s = if az.is_empty() {
        "-".to_string()
    } else {
        az.iter()
            .map(|a| {
                // non-ASCII: one obs-text byte, as a client may send
                let bytes: Vec<u8> = a.chars().map(|c| if c == '\u{e9}' { 0xE9 } else { c as u8 }).collect();
                hex(bytes.trim_ascii_end())
            })
            .collect::<Vec<_>>()
            .join(",")
    };
    let q = match rng.below(8) {
        0 => hex(b"token=qtok"),
        1 => hex(b"a=1&token=q%20t+k&token=second"),
        2 => hex(b"Token=x&tok=y"),
        3 => hex(b"token=%ff%41"),
        4 => hex(b"token"),
        5 => hex(b"x=1"),
        _ => "none".to_string(),
    };
    let pl = if rng.chance(1, 25) { hex(&[0x82, 0x80, 1, 2, 3, 4]) } else { "-".to_string() };
    let key = rng.below(3);
    let auth = match rng.below(10) {
        0 => "sigbad".to_string(),
        1 => format!("other:{}", rng.below(3)),
        2 => format!("crossed:{}", (key + 1) % 3),
        3 => "garbage".to_string(),
        4 => "eof".to_string(),
        _ => "honest".to_string(),
    };
    let dec = match rng.below(9) {
        0 => "deny".to_string(),
        1 => format!("denyr:{}", hex(b"go away")),
        2 => format!("tok:{}", hex(rng.pick(&toks).as_bytes())),
        3 => format!("tok:{}", hex(b"qtok")),
        4 => format!("key:{}", rng.below(3)),
        5 => format!("key:{key}"),
        _ => "allow".to_string(),
    };
    format!(
        "pipe m={m} p={} up={up} wk={wk} wv={wv} wp={wp} ca={ca} az={az_s} q={q} pl={pl} key={key} auth={auth} dec={dec}",
        hex(path.as_bytes())
    )
}

/// Systematic cases: one field off at a time, the identity-confusion attempts, token sources.
pub fn fixed_cases(out: &mut Vec<String>) {
    let base = |over: &[(&str, String)]| -> String {
        let mut f: Vec<(&str, String)> = vec![
            ("m", "GET".into()),
            ("p", hex(b"/relay")),
            ("up", hex(b"websocket")),
            ("wk", "1".into()),
            ("wv", hex(b"13")),
            ("wp", hex(b"iroh-relay-v2, iroh-relay-v1")),
            ("ca", "none".into()),
            ("az", "-".into()),
            ("q", "none".into()),
            ("pl", "-".into()),
            ("key", "0".into()),
            ("auth", "honest".into()),
            ("dec", "allow".into()),
        ];
        for (k, v) in over {
            if let Some(e) = f.iter_mut().find(|e| e.0 == *k) {
                e.1 = v.clone();
            }
        }
        format!("pipe {}", f.iter().map(|(k, v)| format!("{k}={v}")).collect::<Vec<_>>().join(" "))
    };
    out.push(base(&[]));
    // the upgrade request, one field off at a time
    out.push(base(&[("m", "POST".into())]));
    out.push(base(&[("p", hex(b"/relayx"))]));
    out.push(base(&[("up", "none".into())]));
    out.push(base(&[("up", hex(b"WebSocket"))]));
    out.push(base(&[("wk", "0".into())]));
    out.push(base(&[("wv", "none".into())]));
    out.push(base(&[("wv", hex(b"12"))]));
    out.push(base(&[("wp", "none".into())]));
    out.push(base(&[("wp", hex(b"iroh-relay-v3"))]));
    out.push(base(&[("wp", hex(b"iroh-relay-v1"))]));
    out.push(base(&[("wp", format!("{},{}", hex(b"iroh-relay-v1"), hex(b"iroh-relay-v2")))]));
    out.push(base(&[("wp", hex(b"junk, iroh-relay-v1 ,iroh-relay-v2"))]));
    out.push(base(&[("pl", hex(&[0x82, 0x80, 1, 2, 3, 4]))]));
    // identity confusion: header names another key, frame names another key, crossed signature
    for ca in ["foreign:1", "foreign:0", "badpoint", "raw:6e6f742062617365363421", "raw:41414141"] {
        for auth in ["honest", "other:2", "crossed:1", "sigbad"] {
            out.push(base(&[("ca", ca.into()), ("auth", auth.into())]));
        }
    }
    for auth in ["other:1", "other:2", "crossed:1", "crossed:2", "sigbad", "garbage", "eof"] {
        out.push(base(&[("auth", auth.into())]));
        out.push(base(&[("auth", auth.into()), ("dec", "key:0".into())]));
    }
    // the policy gates on what it is shown
    out.push(base(&[("dec", "key:0".into())]));
    out.push(base(&[("dec", "key:1".into())]));
    out.push(base(&[("auth", "other:1".into()), ("dec", "key:1".into())]));
    out.push(base(&[("dec", "deny".into())]));
    out.push(base(&[("dec", format!("denyr:{}", hex(b"go away")))]));
    // token sources
    let t = format!("tok:{}", hex(b"tok"));
    out.push(base(&[("az", hex(b"Bearer tok")), ("dec", t.clone())]));
    out.push(base(&[("az", hex(b"bEaReR tok")), ("dec", t.clone())]));
    out.push(base(&[("az", format!("{},{}", hex(b"Basic x"), hex(b"Bearer tok"))), ("dec", t.clone())]));
    out.push(base(&[("az", format!("{},{}", hex(b"Bearer other"), hex(b"Bearer tok"))), ("dec", t.clone())]));
    out.push(base(&[("q", hex(b"token=tok")), ("dec", t.clone())]));
    out.push(base(&[("q", hex(b"x=1&token=t%6Fk")), ("dec", t.clone())]));
    out.push(base(&[("az", hex(b"Bearer hdr")), ("q", hex(b"token=tok")), ("dec", t.clone())]));
    out.push(base(&[("az", hex(b"Basic x")), ("q", hex(b"token=tok")), ("dec", t.clone())]));
    out.push(base(&[("az", hex(&[b'B', b'e', b'a', b'r', b'e', b'r', b' ', 0xE9])), ("q", hex(b"token=tok")), ("dec", t.clone())]));
    out.push(base(&[("az", hex(b"Bearer")), ("q", hex(b"token=tok")), ("dec", t.clone())]));
    out.push(base(&[("wp", hex(b"iroh-relay-v1")), ("az", hex(b"Bearer tok")), ("dec", t)]));
}
