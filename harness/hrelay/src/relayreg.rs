//! Shared script runner for the relay-registry properties (C04, C05, C06).
//!
//! Included with `#[path = "../relayreg.rs"] mod relayreg;` by the per-property binaries.
//!
//! A *script* is a capacity and a list of operations.  The runner drives the REAL
//! `iroh_relay::server::clients::Clients` registry through its public API
//! (`Clients::register`, `Clients::disconnect`, `Clients::shutdown`, `Config::new`,
//! `RelayedStream::new`, `OnDisconnectGuard::empty`) with an in-memory
//! `Stream + Sink<Bytes>` per connection, on a current-thread tokio runtime with
//! paused time.  After every operation the runner yields until no connection actor
//! made progress any more (quiescence is detected by a poll counter shared by all
//! in-memory streams, never by sleeping), then records what every connection
//! received, which actors ended, and a snapshot of the registry
//! (`Clients::verif_snapshot`, a read-only `cfg(iroh_verif)` hook).
//!
//! Payload grammar (one line):
//!
//! ```text
//! payload := cap [":" T] (";" op)*    cap = channel capacity, 0 = crate default;
//!                                     T = Config::write_timeout in ms (absent = crate default)
//! op      := "reg" id ver             register a new connection (index = #regs so far) ver = 1|2
//!          | "close" c                client side of connection c ends its stream
//!          | "bad" c                  client sends a frame the decoder rejects
//!          | "disc" id ("*"|c|"x")    Clients::disconnect(id, None | Some(cid of c) | Some(unknown))
//!          | "send" c dst kind ecn seg tok   client c sends a datagram frame to endpoint dst
//!                                     kind = s (single) | b (batch); ecn = wire byte; seg = u16
//!          | "ping" c hex8 | "pong" c hex8
//!          | "stall" c | "unstall" c  client stops / resumes draining its socket
//!          | "slow" c ms              client of c takes `ms` of (virtual) time to accept each frame
//!                                     written to it (0 = back to immediate)
//!          | "shutdown"               Clients::shutdown()
//!          | "shutreg" id ver         Clients::shutdown() racing with a registration
//! tok     := hex (<= 32 bytes) | "p" len "." seed     datagram contents
//! ```
#![allow(dead_code)]

use std::collections::{BTreeMap, VecDeque};
use std::pin::Pin;
use std::sync::atomic::{AtomicU64, Ordering};
use std::sync::{Arc, Mutex};
use std::task::{Context, Poll, Waker};

use bytes::Bytes;
use iroh_base::{EndpointId, SecretKey};
use iroh_relay::KeyCache;
use iroh_relay::http::ProtocolVersion;
use iroh_relay::protos::streams::StreamError;
use iroh_relay::server::client::Config;
use iroh_relay::server::clients::Clients;
use iroh_relay::server::streams::RelayedStream;
use iroh_relay::server::{ConnectionId, Metrics, OnDisconnectGuard};
use n0_future::{Sink, Stream};
use vcommon::{hex, unhex};

pub const NUM_IDS: usize = 8;

/// The endpoint id with index `i` (a real ed25519 public key).
pub fn key(i: usize) -> EndpointId {
    SecretKey::from_bytes(&[(i as u8).wrapping_add(1); 32]).public()
}

// ---------------------------------------------------------------------------------------------
// datagram contents tokens

/// Expands a contents token into bytes.
pub fn tok_bytes(tok: &str) -> Option<Vec<u8>> {
    if let Some(rest) = tok.strip_prefix('p') {
        let (len, seed) = rest.split_once('.')?;
        let len: usize = len.parse().ok()?;
        let seed: u64 = seed.parse().ok()?;
        let mut x = seed.wrapping_mul(0x9E37_79B9_7F4A_7C15) ^ 0xD1B5_4A32_D192_ED03;
        let mut v = Vec::with_capacity(len);
        while v.len() < len {
            x ^= x << 13;
            x ^= x >> 7;
            x ^= x << 17;
            for b in x.to_le_bytes() {
                if v.len() < len {
                    v.push(b);
                }
            }
        }
        Some(v)
    } else {
        unhex(tok)
    }
}

pub fn tok_len(tok: &str) -> usize {
    if let Some(rest) = tok.strip_prefix('p') {
        rest.split_once('.').and_then(|x| x.0.parse().ok()).unwrap_or(0)
    } else if tok == "-" {
        0
    } else {
        tok.len() / 2
    }
}

// ---------------------------------------------------------------------------------------------
// script

#[derive(Clone, Debug, PartialEq, Eq)]
pub enum DiscSel {
    All,
    Conn(usize),
    Unknown,
}

#[derive(Clone, Debug, PartialEq, Eq)]
pub enum Op {
    Reg { id: usize, v1: bool },
    Close { c: usize },
    Bad { c: usize },
    Disc { id: usize, sel: DiscSel },
    Send { c: usize, dst: usize, batch: bool, ecn: u8, seg: u16, tok: String },
    /// A hand-built frame (used by C05): `desc` is the script text, `bytes` the whole frame,
    /// `contents` the datagram contents (bytes and token) if the frame is datagram-shaped.
    Raw { c: usize, desc: String, bytes: Vec<u8>, contents: Option<(Vec<u8>, String)> },
    Ping { c: usize, data: [u8; 8] },
    Pong { c: usize, data: [u8; 8] },
    Stall { c: usize },
    Unstall { c: usize },
    Slow { c: usize, ms: u64 },
    Shutdown,
    ShutReg { id: usize, v1: bool },
}

#[derive(Clone, Debug)]
pub struct Script {
    pub cap: usize,
    /// `Config::write_timeout` in ms, `None` = the crate's default
    pub write_timeout_ms: Option<u64>,
    pub ops: Vec<Op>,
}

fn arr8(s: &str) -> Option<[u8; 8]> {
    unhex(s)?.try_into().ok()
}

impl Op {
    pub fn render(&self) -> String {
        match self {
            Op::Reg { id, v1 } => format!("reg {id} {}", if *v1 { 1 } else { 2 }),
            Op::Close { c } => format!("close {c}"),
            Op::Bad { c } => format!("bad {c}"),
            Op::Disc { id, sel } => match sel {
                DiscSel::All => format!("disc {id} *"),
                DiscSel::Conn(c) => format!("disc {id} {c}"),
                DiscSel::Unknown => format!("disc {id} x"),
            },
            Op::Send { c, dst, batch, ecn, seg, tok } => {
                format!("send {c} {dst} {} {ecn} {seg} {tok}", if *batch { "b" } else { "s" })
            }
            Op::Raw { desc, .. } => desc.clone(),
            Op::Ping { c, data } => format!("ping {c} {}", hex(data)),
            Op::Pong { c, data } => format!("pong {c} {}", hex(data)),
            Op::Stall { c } => format!("stall {c}"),
            Op::Unstall { c } => format!("unstall {c}"),
            Op::Slow { c, ms } => format!("slow {c} {ms}"),
            Op::Shutdown => "shutdown".into(),
            Op::ShutReg { id, v1 } => format!("shutreg {id} {}", if *v1 { 1 } else { 2 }),
        }
    }

    pub fn parse(s: &str) -> Option<Op> {
        let t: Vec<&str> = s.split(' ').filter(|x| !x.is_empty()).collect();
        let n = |i: usize| -> Option<usize> { t.get(i)?.parse().ok() };
        let ver = |i: usize| -> Option<bool> {
            match *t.get(i)? {
                "1" => Some(true),
                "2" => Some(false),
                _ => None,
            }
        };
        Some(match *t.first()? {
            "reg" => Op::Reg { id: n(1)?, v1: ver(2)? },
            "close" => Op::Close { c: n(1)? },
            "bad" => Op::Bad { c: n(1)? },
            "disc" => Op::Disc {
                id: n(1)?,
                sel: match *t.get(2)? {
                    "*" => DiscSel::All,
                    "x" => DiscSel::Unknown,
                    _ => DiscSel::Conn(n(2)?),
                },
            },
            "send" => Op::Send {
                c: n(1)?,
                dst: n(2)?,
                batch: match *t.get(3)? {
                    "s" => false,
                    "b" => true,
                    _ => return None,
                },
                ecn: t.get(4)?.parse().ok()?,
                seg: t.get(5)?.parse().ok()?,
                tok: t.get(6)?.to_string(),
            },
            "ping" => Op::Ping { c: n(1)?, data: arr8(t.get(2)?)? },
            "pong" => Op::Pong { c: n(1)?, data: arr8(t.get(2)?)? },
            "stall" => Op::Stall { c: n(1)? },
            "unstall" => Op::Unstall { c: n(1)? },
            "slow" => Op::Slow { c: n(1)?, ms: t.get(2)?.parse().ok()? },
            "shutdown" => Op::Shutdown,
            "shutreg" => Op::ShutReg { id: n(1)?, v1: ver(2)? },
            _ => return None,
        })
    }
}

impl Script {
    pub fn render(&self) -> String {
        let mut s = self.cap.to_string();
        if let Some(t) = self.write_timeout_ms {
            s.push_str(&format!(":{t}"));
        }
        for op in &self.ops {
            s.push(';');
            s.push_str(&op.render());
        }
        s
    }

    /// Parses a payload with a property-specific parser for extra op kinds.
    pub fn parse_with(payload: &str, extra: &dyn Fn(&str) -> Option<Op>) -> Option<Script> {
        let mut it = payload.split(';');
        let hd = it.next()?.trim();
        let (cap, write_timeout_ms) = match hd.split_once(':') {
            Some((c, t)) => (c.parse::<usize>().ok()?, Some(t.parse::<u64>().ok()?)),
            None => (hd.parse::<usize>().ok()?, None),
        };
        let mut ops = Vec::new();
        for o in it {
            let o = o.trim();
            if o.is_empty() {
                continue;
            }
            ops.push(Op::parse(o).or_else(|| extra(o))?);
        }
        Some(Script { cap, write_timeout_ms, ops })
    }

    pub fn parse(payload: &str) -> Option<Script> {
        Self::parse_with(payload, &|_| None)
    }
}

// ---------------------------------------------------------------------------------------------
// wire format, written independently of the crate's codec

pub fn encode_datagram(dst: &[u8; 32], batch: bool, ecn: u8, seg: u16, contents: &[u8]) -> Vec<u8> {
    let mut v = Vec::with_capacity(36 + contents.len());
    v.push(if batch { 5 } else { 4 });
    v.extend_from_slice(dst);
    v.push(ecn);
    if batch {
        v.extend_from_slice(&seg.to_be_bytes());
    }
    v.extend_from_slice(contents);
    v
}

/// A frame the relay wrote to a client, decoded by hand.
#[derive(Clone, Debug, PartialEq, Eq)]
pub enum Frame {
    Datagrams { src: [u8; 32], ecn: u8, seg: u16, contents: Vec<u8> },
    Gone([u8; 32]),
    Status(u8),
    Health(Vec<u8>),
    Ping([u8; 8]),
    Pong([u8; 8]),
    Other(Vec<u8>),
}

pub fn decode_r2c(b: &[u8]) -> Frame {
    let other = || Frame::Other(b.to_vec());
    let Some((&t, rest)) = b.split_first() else {
        return other();
    };
    match t {
        6 | 7 => {
            let hdr = if t == 7 { 35 } else { 33 };
            if rest.len() < hdr {
                return other();
            }
            let src: [u8; 32] = rest[..32].try_into().unwrap();
            let ecn = rest[32];
            let seg = if t == 7 { u16::from_be_bytes([rest[33], rest[34]]) } else { 0 };
            Frame::Datagrams { src, ecn, seg, contents: rest[hdr..].to_vec() }
        }
        8 if rest.len() == 32 => Frame::Gone(rest.try_into().unwrap()),
        9 if rest.len() == 8 => Frame::Ping(rest.try_into().unwrap()),
        10 if rest.len() == 8 => Frame::Pong(rest.try_into().unwrap()),
        11 => Frame::Health(rest.to_vec()),
        13 if rest.len() == 1 => Frame::Status(rest[0]),
        _ => other(),
    }
}

/// The texts the V1 `Health` frame carries for the two registry notices (Display of `Status`).
pub const HEALTH_TEXTS: [&str; 2] = [
    "The connection is healthy and has recovered from previous problems",
    "Another endpoint connected with the same endpoint id. No more messages will be received.",
];

// ---------------------------------------------------------------------------------------------
// in-memory stream

enum Inbound {
    Frame(Bytes),
    Eof,
}

#[derive(Default)]
struct Shared {
    inbox: VecDeque<Inbound>,
    in_waker: Option<Waker>,
    gate_closed: bool,
    flush_waker: Option<Waker>,
    /// slow client: time it takes to accept one frame (0 = immediately)
    slow_ms: u64,
    /// the frame written but not yet accepted by the slow client, and when it was written
    in_pipe: Option<tokio::time::Instant>,
    /// the write of `in_pipe` ran into the actor's write timeout
    expired: bool,
    ready_waker: Option<Waker>,
    out: Vec<Bytes>,
    dropped: bool,
}

pub struct MemStream {
    sh: Arc<Mutex<Shared>>,
    activity: Arc<AtomicU64>,
}

impl Stream for MemStream {
    type Item = Result<Bytes, StreamError>;
    fn poll_next(self: Pin<&mut Self>, cx: &mut Context<'_>) -> Poll<Option<Self::Item>> {
        self.activity.fetch_add(1, Ordering::SeqCst);
        let mut sh = self.sh.lock().unwrap();
        match sh.inbox.front() {
            Some(Inbound::Frame(_)) => {
                let Some(Inbound::Frame(b)) = sh.inbox.pop_front() else { unreachable!() };
                Poll::Ready(Some(Ok(b)))
            }
            // end of stream stays at the front: a fused end
            Some(Inbound::Eof) => Poll::Ready(None),
            None => {
                sh.in_waker = Some(cx.waker().clone());
                Poll::Pending
            }
        }
    }
}

impl Sink<Bytes> for MemStream {
    type Error = StreamError;
    fn poll_ready(self: Pin<&mut Self>, cx: &mut Context<'_>) -> Poll<Result<(), StreamError>> {
        self.activity.fetch_add(1, Ordering::SeqCst);
        let mut sh = self.sh.lock().unwrap();
        if sh.in_pipe.is_some() {
            // the pipe to a slow client holds one frame
            sh.ready_waker = Some(cx.waker().clone());
            return Poll::Pending;
        }
        Poll::Ready(Ok(()))
    }
    fn start_send(self: Pin<&mut Self>, item: Bytes) -> Result<(), StreamError> {
        self.activity.fetch_add(1, Ordering::SeqCst);
        let mut sh = self.sh.lock().unwrap();
        sh.out.push(item);
        if sh.slow_ms > 0 {
            sh.in_pipe = Some(tokio::time::Instant::now());
        }
        Ok(())
    }
    fn poll_flush(self: Pin<&mut Self>, cx: &mut Context<'_>) -> Poll<Result<(), StreamError>> {
        self.activity.fetch_add(1, Ordering::SeqCst);
        let mut sh = self.sh.lock().unwrap();
        if sh.gate_closed || sh.in_pipe.is_some() {
            sh.flush_waker = Some(cx.waker().clone());
            Poll::Pending
        } else {
            Poll::Ready(Ok(()))
        }
    }
    fn poll_close(self: Pin<&mut Self>, _cx: &mut Context<'_>) -> Poll<Result<(), StreamError>> {
        Poll::Ready(Ok(()))
    }
}

impl Drop for MemStream {
    fn drop(&mut self) {
        self.activity.fetch_add(1, Ordering::SeqCst);
        self.sh.lock().unwrap().dropped = true;
    }
}

// ---------------------------------------------------------------------------------------------
// the REAL checks, for the completeness oracle

/// Does the relay's real decoder (`ClientToRelayMsg::from_bytes`) accept `frame` as a datagram
/// frame?  Returns (destination key, ecn code, segment size, contents).
pub fn real_decode_datagram(frame: &[u8]) -> Option<([u8; 32], u8, u16, Vec<u8>)> {
    use iroh_relay::protos::relay::{ClientToRelayMsg, verif_hooks as hooks};
    match hooks::client_to_relay_from_bytes(Bytes::copy_from_slice(frame), &KeyCache::new(0)) {
        Ok(ClientToRelayMsg::Datagrams { dst_endpoint_id, datagrams }) => Some((
            *dst_endpoint_id.as_bytes(),
            datagrams.ecn.map_or(0, |e| e as u8),
            datagrams.segment_size.map_or(0, u16::from),
            datagrams.contents.to_vec(),
        )),
        _ => None,
    }
}

/// Is the frame the relay would build for this datagram accepted by the REAL forwarder check
/// (`ensure_sendable`, reached through `RelayedStream`'s `Sink::start_send`)?
pub fn real_forwardable(src: usize, ecn: u8, seg: u16, contents: &[u8]) -> bool {
    use iroh_relay::protos::relay::{Datagrams, RelayToClientMsg};
    let msg = RelayToClientMsg::Datagrams {
        remote_endpoint_id: key(src),
        datagrams: Datagrams {
            ecn: noq_proto::EcnCodepoint::from_bits(ecn).filter(|_| ecn & 3 != 0),
            segment_size: std::num::NonZeroU16::new(seg),
            contents: Bytes::copy_from_slice(contents),
        },
    };
    let sink = MemStream { sh: Arc::new(Mutex::new(Shared::default())), activity: Arc::new(AtomicU64::new(0)) };
    let mut rs = RelayedStream::new(sink, KeyCache::new(0));
    Pin::new(&mut rs).start_send(msg).is_ok()
}

// ---------------------------------------------------------------------------------------------
// trace

/// Registry snapshot in connection indices: id -> (active, inactive oldest first); src -> dsts.
#[derive(Clone, Debug, Default, PartialEq, Eq)]
pub struct Snapshot {
    pub entries: BTreeMap<usize, (usize, Vec<usize>)>,
    pub sent_to: BTreeMap<usize, Vec<usize>>,
}

#[derive(Clone, Debug)]
pub struct Step {
    pub op: Op,
    /// `cN` for reg, `t`/`f` for disc, `-` otherwise.
    pub res: String,
    /// Frames each connection received during this step, in order.
    pub frames: BTreeMap<usize, Vec<Frame>>,
    /// The same frames as the raw byte strings written to the connection's stream.
    pub raw: BTreeMap<usize, Vec<Vec<u8>>>,
    /// Connections whose actor ended (stream dropped) during this step.
    pub ended: Vec<usize>,
    pub snap: Snapshot,
    /// Quiescence was not reached within the yield budget.
    pub timeout: bool,
}

#[derive(Clone, Debug, Default)]
pub struct Trace {
    pub steps: Vec<Step>,
    /// the effective `Config::write_timeout` in ms
    pub wt_ms: u64,
    /// owner id of each connection index
    pub owner: Vec<usize>,
    pub v1: Vec<bool>,
    /// contents bytes -> token, for every datagram sent in the script
    pub toks: Vec<(Vec<u8>, String)>,
}

impl Trace {
    pub fn tok_of(&self, contents: &[u8]) -> String {
        for (b, t) in &self.toks {
            if b == contents {
                return t.clone();
            }
        }
        if contents.len() <= 32 {
            hex(contents)
        } else {
            format!("unknown{}:{}", contents.len(), hex(&contents[..16]))
        }
    }

    pub fn id_of(&self, k: &[u8; 32]) -> String {
        for i in 0..NUM_IDS {
            if key(i).as_bytes() == k {
                return i.to_string();
            }
        }
        format!("?{}", hex(&k[..4]))
    }

    pub fn frame_str(&self, f: &Frame) -> String {
        match f {
            Frame::Datagrams { src, ecn, seg, contents } => {
                format!("D{}.{}.{}.{}", self.id_of(src), ecn, seg, self.tok_of(contents))
            }
            Frame::Gone(k) => format!("G{}", self.id_of(k)),
            Frame::Status(n) => format!("S{n}"),
            Frame::Health(t) => match HEALTH_TEXTS.iter().position(|x| x.as_bytes() == &t[..]) {
                Some(n) => format!("H{n}"),
                None => format!("H?{}", hex(t)),
            },
            Frame::Ping(d) => format!("I{}", hex(d)),
            Frame::Pong(d) => format!("P{}", hex(d)),
            Frame::Other(b) => format!("?{}", hex(&b[..b.len().min(16)])),
        }
    }

    pub fn snap_str(s: &Snapshot) -> String {
        let r = if s.entries.is_empty() {
            "-".to_string()
        } else {
            s.entries
                .iter()
                .map(|(id, (a, ina))| {
                    format!("{id}:{a}/{}", ina.iter().map(|x| x.to_string()).collect::<Vec<_>>().join(","))
                })
                .collect::<Vec<_>>()
                .join(";")
        };
        let t = if s.sent_to.is_empty() {
            "-".to_string()
        } else {
            s.sent_to
                .iter()
                .map(|(src, d)| format!("{src}>{}", d.iter().map(|x| x.to_string()).collect::<Vec<_>>().join(",")))
                .collect::<Vec<_>>()
                .join(";")
        };
        format!("R{r} T{t}")
    }

    /// Canonical output line (must equal the Lean driver's output byte for byte).
    pub fn render(&self) -> String {
        let mut parts = Vec::new();
        for st in &self.steps {
            if st.timeout {
                parts.push("timeout".to_string());
                continue;
            }
            let frames = if st.frames.is_empty() {
                "-".to_string()
            } else {
                st.frames
                    .iter()
                    .map(|(c, fs)| {
                        format!("c{c}[{}]", fs.iter().map(|f| self.frame_str(f)).collect::<Vec<_>>().join(","))
                    })
                    .collect::<Vec<_>>()
                    .join("")
            };
            let ended = if st.ended.is_empty() {
                "-".to_string()
            } else {
                st.ended.iter().map(|x| x.to_string()).collect::<Vec<_>>().join(",")
            };
            parts.push(format!("{} {} X{} {}", st.res, frames, ended, Self::snap_str(&st.snap)));
        }
        parts.join("|")
    }
}

// ---------------------------------------------------------------------------------------------
// runner

struct ConnH {
    sh: Arc<Mutex<Shared>>,
    cid: ConnectionId,
    id: usize,
    out_seen: usize,
    ended_seen: bool,
}

struct World {
    clients: Clients,
    metrics: Arc<Metrics>,
    activity: Arc<AtomicU64>,
    conns: Vec<ConnH>,
    cap: usize,
    write_timeout_ms: Option<u64>,
    /// the effective `Config::write_timeout` (ms)
    wt_ms: u64,
}

const MAX_YIELDS: usize = 20_000;

impl World {
    fn register(&mut self, id: usize, v1: bool) -> usize {
        let guard = OnDisconnectGuard::empty(key(id));
        let cid = guard.connection_id();
        let sh = Arc::new(Mutex::new(Shared::default()));
        let stream = MemStream { sh: sh.clone(), activity: self.activity.clone() };
        let stream = RelayedStream::new(stream, KeyCache::new(0));
        let ver = if v1 { ProtocolVersion::V1 } else { ProtocolVersion::V2 };
        let mut cfg = Config::new(guard, stream, ver);
        if self.cap != 0 {
            cfg.channel_capacity = self.cap;
        }
        if let Some(t) = self.write_timeout_ms {
            cfg.write_timeout = std::time::Duration::from_millis(t);
        }
        self.wt_ms = cfg.write_timeout.as_millis() as u64;
        self.clients.register(cfg, self.metrics.clone());
        self.conns.push(ConnH { sh, cid, id, out_seen: 0, ended_seen: false });
        self.conns.len() - 1
    }

    fn push_in(&self, c: usize, item: Inbound) {
        let Some(h) = self.conns.get(c) else { return };
        let mut sh = h.sh.lock().unwrap();
        // nothing can follow the end of the stream
        if matches!(sh.inbox.back(), Some(Inbound::Eof)) {
            return;
        }
        sh.inbox.push_back(item);
        if let Some(w) = sh.in_waker.take() {
            w.wake();
        }
    }

    /// Yields until no actor touched its stream for a few consecutive yields.
    async fn settle(&self) -> bool {
        let mut quiet = 0;
        let mut last = self.activity.load(Ordering::SeqCst);
        for _ in 0..MAX_YIELDS {
            tokio::task::yield_now().await;
            let now = self.activity.load(Ordering::SeqCst);
            if now == last {
                quiet += 1;
                if quiet >= 4 {
                    return true;
                }
            } else {
                quiet = 0;
                last = now;
            }
        }
        false
    }

    /// Quiescence in virtual time: settle, then let the earliest slow client accept its frame
    /// (or the actor's write timeout expire, whichever is first), and so on.
    async fn settle_timed(&self) -> bool {
        for _ in 0..100_000 {
            if !self.settle().await {
                return false;
            }
            let mut best: Option<(tokio::time::Instant, usize, bool)> = None;
            for (i, h) in self.conns.iter().enumerate() {
                let sh = h.sh.lock().unwrap();
                if sh.dropped || sh.expired {
                    continue;
                }
                if let Some(t0) = sh.in_pipe {
                    let (dt, accept) = if sh.slow_ms <= self.wt_ms { (sh.slow_ms, true) } else { (self.wt_ms, false) };
                    let at = t0 + std::time::Duration::from_millis(dt);
                    if best.is_none_or(|(b, _, _)| at < b) {
                        best = Some((at, i, accept));
                    }
                }
            }
            let Some((at, i, accept)) = best else { return true };
            let now = tokio::time::Instant::now();
            if at > now {
                tokio::time::advance(at - now).await;
            }
            let mut sh = self.conns[i].sh.lock().unwrap();
            if accept {
                sh.in_pipe = None;
                if let Some(w) = sh.flush_waker.take() {
                    w.wake();
                }
                if let Some(w) = sh.ready_waker.take() {
                    w.wake();
                }
            } else {
                // the actor's write timeout fires on its own
                sh.expired = true;
            }
        }
        false
    }

    fn snapshot(&self) -> Snapshot {
        let (cl, st) = self.clients.verif_snapshot();
        let idx = |k: &EndpointId| (0..NUM_IDS).find(|i| key(*i) == *k).unwrap_or(usize::MAX);
        let cidx = |c: &ConnectionId| self.conns.iter().position(|h| h.cid == *c).unwrap_or(usize::MAX);
        let mut s = Snapshot::default();
        for (k, a, ina) in &cl {
            s.entries.insert(idx(k), (cidx(a), ina.iter().map(cidx).collect()));
        }
        for (k, d) in &st {
            let mut d: Vec<usize> = d.iter().map(idx).collect();
            d.sort();
            s.sent_to.insert(idx(k), d);
        }
        s
    }
}

/// Runs one script on the real registry.  Deterministic: one forced schedule per script.
pub fn run_script(script: &Script) -> Trace {
    let rt = tokio::runtime::Builder::new_current_thread()
        .enable_all()
        .start_paused(true)
        .build()
        .expect("runtime");
    let trace = rt.block_on(run_async(script));
    drop(rt);
    trace
}

async fn run_async(script: &Script) -> Trace {
    let mut w = World {
        clients: Clients::default(),
        metrics: Arc::new(Metrics::default()),
        activity: Arc::new(AtomicU64::new(0)),
        conns: Vec::new(),
        cap: script.cap,
        write_timeout_ms: script.write_timeout_ms,
        wt_ms: 0,
    };
    let mut tr = Trace::default();
    for op in &script.ops {
        let mut res = "-".to_string();
        match op {
            Op::Reg { id, v1 } => {
                let c = w.register(*id, *v1);
                tr.owner.push(*id);
                tr.v1.push(*v1);
                res = format!("c{c}");
            }
            Op::Close { c } => w.push_in(*c, Inbound::Eof),
            // frame type 4 (datagram) shorter than an endpoint id: rejected by the decoder
            Op::Bad { c } => w.push_in(*c, Inbound::Frame(Bytes::from_static(&[4, 1, 2, 3]))),
            Op::Disc { id, sel } => {
                let r = match sel {
                    DiscSel::All => w.clients.disconnect(key(*id), None),
                    DiscSel::Conn(c) => match w.conns.get(*c) {
                        Some(h) => w.clients.disconnect(key(*id), Some(h.cid)),
                        None => false,
                    },
                    DiscSel::Unknown => {
                        let g = OnDisconnectGuard::empty(key(*id));
                        w.clients.disconnect(key(*id), Some(g.connection_id()))
                    }
                };
                res = if r { "t".into() } else { "f".into() };
            }
            Op::Send { c, dst, batch, ecn, seg, tok } => {
                let contents = tok_bytes(tok).expect("contents token");
                if !tr.toks.iter().any(|(_, t)| t == tok) {
                    tr.toks.push((contents.clone(), tok.clone()));
                }
                let f = encode_datagram(key(*dst).as_bytes(), *batch, *ecn, *seg, &contents);
                w.push_in(*c, Inbound::Frame(f.into()));
            }
            Op::Raw { c, bytes, contents, .. } => {
                if let Some((b, t)) = contents {
                    if !tr.toks.iter().any(|(_, x)| x == t) {
                        tr.toks.push((b.clone(), t.clone()));
                    }
                }
                w.push_in(*c, Inbound::Frame(Bytes::from(bytes.clone())));
            }
            Op::Ping { c, data } => {
                let mut f = vec![9u8];
                f.extend_from_slice(data);
                w.push_in(*c, Inbound::Frame(f.into()));
            }
            Op::Pong { c, data } => {
                let mut f = vec![10u8];
                f.extend_from_slice(data);
                w.push_in(*c, Inbound::Frame(f.into()));
            }
            Op::Stall { c } => {
                if let Some(h) = w.conns.get(*c) {
                    let live = {
                        let mut sh = h.sh.lock().unwrap();
                        let live = !sh.dropped && !sh.gate_closed;
                        if live {
                            sh.gate_closed = true;
                        }
                        live
                    };
                    if live {
                        // A pong nobody waits for: the actor handles it (no effect) and then
                        // blocks in the flush at the end of its loop iteration.
                        let mut f = vec![10u8];
                        f.extend_from_slice(&[0xEE; 8]);
                        w.push_in(*c, Inbound::Frame(f.into()));
                    }
                }
            }
            Op::Unstall { c } => {
                if let Some(h) = w.conns.get(*c) {
                    let mut sh = h.sh.lock().unwrap();
                    sh.gate_closed = false;
                    if let Some(wk) = sh.flush_waker.take() {
                        wk.wake();
                    }
                }
            }
            Op::Slow { c, ms } => {
                if let Some(h) = w.conns.get(*c) {
                    h.sh.lock().unwrap().slow_ms = *ms;
                }
            }
            Op::Shutdown | Op::ShutReg { .. } => {}
        }
        let mut timeout = false;
        match op {
            Op::Shutdown | Op::ShutReg { .. } => {
                // `shutdown` removes every entry and cancels every actor on its first poll; the
                // actors then exit and call `unregister` with ids the registry no longer knows.
                let clients = w.clients.clone();
                let mut fut = Box::pin(async move { clients.shutdown().await });
                let first = futures_util::poll!(fut.as_mut());
                if let Op::ShutReg { id, v1 } = op {
                    let c = w.register(*id, *v1);
                    tr.owner.push(*id);
                    tr.v1.push(*v1);
                    res = format!("c{c}");
                }
                timeout |= !w.settle_timed().await;
                if first.is_pending() {
                    // stalled actors never finish: do not wait for them
                    let _ = futures_util::poll!(fut.as_mut());
                }
                // keep the future alive: dropping it would abort stalled actors' tasks
                std::mem::forget(fut);
            }
            _ => timeout |= !w.settle_timed().await,
        }
        // collect
        let mut frames = BTreeMap::new();
        let mut raw = BTreeMap::new();
        let mut ended = Vec::new();
        for (i, h) in w.conns.iter_mut().enumerate() {
            let sh = h.sh.lock().unwrap();
            if sh.out.len() > h.out_seen {
                let fs: Vec<Frame> = sh.out[h.out_seen..].iter().map(|b| decode_r2c(b)).collect();
                frames.insert(i, fs);
                raw.insert(i, sh.out[h.out_seen..].iter().map(|b| b.to_vec()).collect::<Vec<_>>());
                h.out_seen = sh.out.len();
            }
            if sh.dropped && !h.ended_seen {
                h.ended_seen = true;
                ended.push(i);
            }
        }
        let snap = w.snapshot();
        tr.steps.push(Step { op: op.clone(), res, frames, raw, ended, snap, timeout });
        tr.wt_ms = w.wt_ms;
    }
    tr
}

/// Runs the script twice and insists on identical canonical output, so that a flaky
/// schedule can never be mistaken for a property violation.
pub fn run_checked(script: &Script) -> Result<Trace, String> {
    let a = run_script(script);
    let b = run_script(script);
    let (ra, rb) = (a.render(), b.render());
    if ra != rb {
        return Err(format!("nondeterministic: `{ra}` vs `{rb}`"));
    }
    Ok(a)
}
