//! C13 — captive-portal probe echoes only well-formed challenges.
//!
//! payload: `none` | `<hex of challenge header value bytes>`   (handler called through the hook)
//!          `srv none` | `srv <hex>`  the same request sent as raw HTTP/1.1 over loopback to a REAL
//!          relay server (public `Server::spawn`, plain HTTP): covers routing of `/generate_204`
//! output : `<status> none` | `<status> <hex of response header value>` | `illegal-header`
use std::io::{Read, Write};
use std::net::{SocketAddr, TcpStream};
use std::sync::Arc;

use iroh_relay::server::{AllowAll, Limits, RelayConfig, Server, ServerConfig};
use vcommon::*;

struct C13 {
    srv: Option<(tokio::runtime::Runtime, Server, SocketAddr)>,
}

impl C13 {
    fn server_addr(&mut self) -> SocketAddr {
        if self.srv.is_none() {
            let rt = tokio::runtime::Builder::new_multi_thread().worker_threads(2).enable_all().build().expect("runtime");
            let server = rt.block_on(async {
                // non-exhaustive config structs: start from the crate's test config, TLS and QUIC off
                let mut cfg: ServerConfig = iroh_relay::server::testing::server_config();
                cfg.quic = None;
                let relay: &mut RelayConfig = cfg.relay.as_mut().expect("relay config");
                relay.tls = None;
                relay.http_bind_addr = "127.0.0.1:0".parse().unwrap();
                relay.limits = Limits::default();
                relay.access = Arc::new(AllowAll);
                Server::spawn(cfg).await.expect("relay server")
            });
            let addr = server.http_addr().expect("http addr");
            self.srv = Some((rt, server, addr));
        }
        self.srv.as_ref().unwrap().2
    }

    /// One raw HTTP/1.1 request; returns (status, X-Iroh-Response value).
    fn http_probe(&mut self, challenge: Option<&[u8]>) -> Result<(u16, Option<Vec<u8>>), String> {
        let addr = self.server_addr();
        let mut c = TcpStream::connect(addr).map_err(|e| e.to_string())?;
        c.set_read_timeout(Some(std::time::Duration::from_secs(5))).ok();
        let mut req = b"GET /generate_204 HTTP/1.1\r\nHost: relay.test\r\nConnection: close\r\n".to_vec();
        if let Some(ch) = challenge {
            req.extend_from_slice(b"X-Iroh-Challenge: ");
            req.extend_from_slice(ch);
            req.extend_from_slice(b"\r\n");
        }
        req.extend_from_slice(b"\r\n");
        c.write_all(&req).map_err(|e| e.to_string())?;
        let mut resp = Vec::new();
        let _ = c.read_to_end(&mut resp);
        let head_end = resp.windows(4).position(|w| w == b"\r\n\r\n").ok_or("no response head")?;
        let head = &resp[..head_end];
        let mut lines = head.split(|b| *b == b'\n');
        let status_line = lines.next().ok_or("no status line")?;
        let status: u16 = std::str::from_utf8(status_line).ok().and_then(|l| l.split_whitespace().nth(1)).and_then(|s| s.parse().ok()).ok_or("bad status line")?;
        let mut hdr = None;
        for l in lines {
            let l = l.strip_suffix(b"\r").unwrap_or(l);
            if let Some(i) = l.iter().position(|b| *b == b':') {
                if l[..i].eq_ignore_ascii_case(b"x-iroh-response") {
                    let mut v = &l[i + 1..];
                    while v.first() == Some(&b' ') { v = &v[1..]; }
                    hdr = Some(v.to_vec());
                }
            }
        }
        Ok((status, hdr))
    }
}

fn legal_header_byte(b: u8) -> bool {
    b == b'\t' || (b >= 0x20 && b != 0x7f)
}

impl Prop for C13 {
    fn id(&self) -> &'static str {
        "C13"
    }

    fn generate(&mut self, rng: &mut Rng, tier: Tier, n: usize, out: &mut Vec<String>) {
        out.push("none".into());
        let good: Vec<u8> = (b'a'..=b'z')
            .chain(b'A'..=b'Z')
            .chain(b'0'..=b'9')
            .chain([b'.', b'-', b'_'])
            .collect();
        // every length 0..=80 of valid characters
        for len in 0..=80usize {
            let v: Vec<u8> = (0..len).map(|_| *rng.pick(&good)).collect();
            out.push(hex(&v));
        }
        // every byte value at first / middle / last position of otherwise valid values
        let lens: &[usize] = if tier == Tier::Thorough { &[1, 2, 7, 62, 63, 64] } else { &[1, 5, 63] };
        for &len in lens {
            for pos in [0, len / 2, len - 1] {
                for b in 0..=255u8 {
                    let mut v: Vec<u8> = (0..len).map(|_| *rng.pick(&good)).collect();
                    v[pos] = b;
                    out.push(hex(&v));
                }
            }
        }
        // the same requests over real HTTP (no leading/trailing white space: the HTTP parser strips it)
        out.push("srv none".into());
        let srv_n = if tier == Tier::Thorough { 600 } else { 60 };
        for i in 0..srv_n {
            let len = match i % 6 { 0 => 63, 1 => 64, 2 => 1, _ => rng.range(1, 80) as usize };
            let mut v: Vec<u8> = (0..len).map(|_| *rng.pick(&good)).collect();
            if i % 4 == 3 {
                let pos = rng.usize_below(len);
                v[pos] = *rng.pick(&[b'~', b'!', b' ', b'/', b':', 0x80, 0xff, b'=', b'+']);
                if v[0] == b' ' { v[0] = b'a'; }
                if v[len - 1] == b' ' { v[len - 1] = b'a'; }
            }
            out.push(format!("srv {}", hex(&v)));
        }
        // random mixes
        while out.len() < n {
            let len = match rng.below(4) {
                0 => rng.range(60, 68) as usize,
                _ => rng.range(0, 80) as usize,
            };
            let mostly_good = rng.chance(3, 4);
            let v: Vec<u8> = (0..len)
                .map(|_| {
                    if mostly_good && !rng.chance(1, 40) {
                        *rng.pick(&good)
                    } else {
                        rng.byte()
                    }
                })
                .collect();
            out.push(hex(&v));
        }
    }

    fn execute(&mut self, payload: &str) -> Exec {
        let (over_http, body) = match payload.strip_prefix("srv ") {
            Some(b) => (true, b),
            None => (false, payload),
        };
        let challenge = if body == "none" { None } else { Some(unhex(body).expect("hex")) };
        let res = if over_http {
            match self.http_probe(challenge.as_deref()) {
                Ok(r) => Some(r),
                // plumbing failure of the harness itself: not an observation about the property
                Err(e) => return Exec { infra: Some(e), ..Default::default() },
            }
        } else {
            iroh_relay::server::verif_hooks::no_content(challenge.as_deref())
        };
        let Some((status, hdr)) = res else {
            return Exec::new("illegal-header").tag("illegal-header");
        };
        let out = match &hdr {
            None => format!("{status} none"),
            Some(h) => format!("{status} {}", hex(h)),
        };
        let mut ex = Exec::new(out);
        // Oracle: the statement of C13, evaluated independently of the model.
        let wellformed = challenge.as_ref().is_some_and(|c| {
            (1..=63).contains(&c.len())
                && c.iter().all(|b| b.is_ascii_alphanumeric() || matches!(b, b'.' | b'-' | b'_'))
        });
        if status != 204 {
            ex.violation("status-not-204", format!("status {status}"));
        }
        match (&hdr, wellformed) {
            (Some(h), true) => {
                let mut want = b"response ".to_vec();
                want.extend_from_slice(challenge.as_ref().unwrap());
                if *h != want {
                    ex.violation("wrong-echo", format!("got {}", hex(h)));
                }
            }
            (None, true) => ex.violation("missing-echo", "well-formed challenge not echoed"),
            (Some(h), false) => ex.violation("echo-of-malformed", format!("got {}", hex(h))),
            (None, false) => {}
        }
        debug_assert!(challenge.as_ref().is_none_or(|c| c.iter().all(|b| legal_header_byte(*b))));
        ex.nontrivial = wellformed;
        ex.tags.push(if wellformed { "wellformed".into() } else { "malformed".into() });
        if over_http {
            ex.tags.push("over-real-http".into());
        }
        ex
    }
}

fn main() {
    run(C13 { srv: None });
}
