//! C13 — captive-portal probe echoes only well-formed challenges.
//!
//! payload: `none` | `<hex of challenge header value bytes>`
//! output : `<status> none` | `<status> <hex of response header value>` | `illegal-header`
use vcommon::*;

struct C13;

fn legal_header_byte(b: u8) -> bool {
    b == b'\t' || (b >= 0x20 && b != 0x7f)
}

impl Prop for C13 {
    fn id(&self) -> &'static str {
        "C13"
    }

    fn generate(&mut self, rng: &mut Rng, tier: Tier, n: usize, out: &mut Vec<String>) {
        out.push("none".into());
        let good: Vec<u8> = (b'a'..=b'z')
            .chain(b'A'..=b'Z')
            .chain(b'0'..=b'9')
            .chain([b'.', b'-', b'_'])
            .collect();
        // every length 0..=80 of valid characters
        for len in 0..=80usize {
            let v: Vec<u8> = (0..len).map(|_| *rng.pick(&good)).collect();
            out.push(hex(&v));
        }
        // every byte value at first / middle / last position of otherwise valid values
        let lens: &[usize] = if tier == Tier::Thorough { &[1, 2, 7, 62, 63, 64] } else { &[1, 5, 63] };
        for &len in lens {
            for pos in [0, len / 2, len - 1] {
                for b in 0..=255u8 {
                    let mut v: Vec<u8> = (0..len).map(|_| *rng.pick(&good)).collect();
                    v[pos] = b;
                    out.push(hex(&v));
                }
            }
        }
        // random mixes
        while out.len() < n {
            let len = match rng.below(4) {
                0 => rng.range(60, 68) as usize,
                _ => rng.range(0, 80) as usize,
            };
            let mostly_good = rng.chance(3, 4);
            let v: Vec<u8> = (0..len)
                .map(|_| {
                    if mostly_good && !rng.chance(1, 40) {
                        *rng.pick(&good)
                    } else {
                        rng.byte()
                    }
                })
                .collect();
            out.push(hex(&v));
        }
    }

    fn execute(&mut self, payload: &str) -> Exec {
        let challenge = if payload == "none" { None } else { Some(unhex(payload).expect("hex")) };
        let res = iroh_relay::server::verif_hooks::no_content(challenge.as_deref());
        let Some((status, hdr)) = res else {
            return Exec::new("illegal-header").tag("illegal-header");
        };
        let out = match &hdr {
            None => format!("{status} none"),
            Some(h) => format!("{status} {}", hex(h)),
        };
        let mut ex = Exec::new(out);
        // Oracle: the statement of C13, evaluated independently of the model.
        let wellformed = challenge.as_ref().is_some_and(|c| {
            (1..=63).contains(&c.len())
                && c.iter().all(|b| b.is_ascii_alphanumeric() || matches!(b, b'.' | b'-' | b'_'))
        });
        if status != 204 {
            ex.violation("status-not-204", format!("status {status}"));
        }
        match (&hdr, wellformed) {
            (Some(h), true) => {
                let mut want = b"response ".to_vec();
                want.extend_from_slice(challenge.as_ref().unwrap());
                if *h != want {
                    ex.violation("wrong-echo", format!("got {}", hex(h)));
                }
            }
            (None, true) => ex.violation("missing-echo", "well-formed challenge not echoed"),
            (Some(h), false) => ex.violation("echo-of-malformed", format!("got {}", hex(h))),
            (None, false) => {}
        }
        debug_assert!(challenge.as_ref().is_none_or(|c| c.iter().all(|b| legal_header_byte(*b))));
        ex.nontrivial = wellformed;
        ex.tags.push(if wellformed { "wellformed".into() } else { "malformed".into() });
        ex
    }
}

fn main() {
    run(C13);
}
