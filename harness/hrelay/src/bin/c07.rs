//! C07 — access control sees exactly one disconnect per admitted relay connection.
//!
//! Every case spawns the REAL relay `Server` on loopback (public API) with a logging gate
//! `AccessControl` and runs a list of connections against it with a HAND-ROLLED client (raw TCP:
//! HTTP upgrade, websocket framing and relay handshake written out here), which can drop the TCP
//! connection at every step of the exchange.  Failures between admission and registration are
//! forced with the `cfg(iroh_verif)` pause points `authorize:allowed` / `accept:admitted`.
//!
//! payload: `<order>;<spec>;<spec>…`   order = fwd | rev (order in which held connections are closed at the end)
//!   spec = `<key> <dec> <stop> <how> <cause>`
//!     key   0..2       endpoint (secret key index)
//!     dec   allow | deny | badsig (client signs with the wrong key: refused before `on_connect`)
//!     stop  step at which the client drops its TCP connection, or `-`:
//!           tcp halfreq req upgraded challenge halfauth   (before `on_connect`)
//!           gate      while `on_connect` is pending (decision released afterwards)
//!           allowed   after `on_connect` returned Allow, before the confirmation is written (pause point)
//!           admitted  after `authorize_with` returned, before `Clients::register` (pause point)
//!           confirmed pingsent pong halfframe                (registered, actor running)
//!     how   rst | fin  (SO_LINGER 0 reset / orderly shutdown)
//!     cause what ends a connection that was not dropped (`stop` = `-`):
//!           close (websocket close frame) | fin | errframe (frame the relay decoder rejects) |
//!           badws (bytes that are no websocket frame) | disc (Clients::disconnect by connection id) |
//!           discid (by endpoint id) | hold (stays open until the end of the case) |
//!           shutdown (Server::shutdown with everything held still open; ends the case) |
//!           shutpark (Server::shutdown while this accept task is parked between admission and
//!           registration; it registers afterwards and stays open; ends the case) |
//!           rtdrop (the runtime is dropped with everything still open = task abort; ends the case)
//! payloads starting with `pipe ` are accept-pipeline cases: see `../c07pipe.rs`.
//! output: `<per on_connect call, in call order: allow:<#on_disconnect> | deny:<#on_disconnect>> | held:<spec indices registered at the end of the script>`
//!   counts are taken after the server was shut down AND the runtime dropped, i.e. after everything
//!   that can ever call `on_disconnect` has run.
use std::collections::HashSet;
use std::net::{Ipv4Addr, SocketAddr};
use std::sync::{Arc, Mutex, OnceLock};
use std::time::Duration;

use bytes::Bytes;
use iroh_base::{EndpointId, SecretKey};
use iroh_relay::http::{ProtocolVersion, RELAY_PATH};
use iroh_relay::protos::handshake::verif_hooks as hs;
use iroh_relay::server::clients::Clients;
use iroh_relay::server::{
    Access, AccessControl, ClientRequest, ConnectionId, RelayConfig, Server, ServerConfig, verif_pause,
};
use tokio::io::{AsyncReadExt, AsyncWriteExt};
use tokio::net::TcpStream;
use tokio::sync::oneshot;
use vcommon::*;

const P_ALLOWED: &str = "authorize:allowed";
const P_ADMITTED: &str = "accept:admitted";
const WAIT: Duration = Duration::from_secs(3);

fn secret(i: u64) -> SecretKey {
    let mut b = [0x77u8; 32];
    b[..8].copy_from_slice(&(i + 1).to_le_bytes());
    SecretKey::from_bytes(&b)
}

// ------------------------------------------------------------------------------------------
// logging gate access control

#[derive(Debug, Clone, PartialEq, Eq)]
enum Cb {
    Connect(EndpointId, ConnectionId),
    Decided(ConnectionId, bool),
    Disconnect(EndpointId, ConnectionId),
}

struct Arrival {
    cid: ConnectionId,
    decide: oneshot::Sender<bool>,
}

#[derive(Default)]
struct Gate {
    log: Mutex<Vec<Cb>>,
    arrivals: Mutex<Vec<Arrival>>,
    /// accept-pipeline cases (`pipe …`): the policy is a function of the request, nothing is gated
    pipe: Mutex<Option<pipe::Policy>>,
    pipe_seen: Mutex<Vec<pipe::Seen>>,
}

#[path = "../c07pipe.rs"]
mod pipe;

#[derive(Clone)]
struct GateAccess(Arc<Gate>);

impl std::fmt::Debug for GateAccess {
    fn fmt(&self, f: &mut std::fmt::Formatter<'_>) -> std::fmt::Result {
        f.write_str("GateAccess")
    }
}

impl AccessControl for GateAccess {
    async fn on_connect(&self, request: &ClientRequest) -> Access {
        if let Some(access) = pipe::on_connect(&self.0, request) {
            return access;
        }
        let (tx, rx) = oneshot::channel();
        let cid = request.connection_id();
        self.0.log.lock().unwrap().push(Cb::Connect(request.endpoint_id(), cid));
        self.0.arrivals.lock().unwrap().push(Arrival { cid, decide: tx });
        let allow = matches!(rx.await, Ok(true));
        self.0.log.lock().unwrap().push(Cb::Decided(cid, allow));
        if allow { Access::Allow } else { Access::Deny { reason: None } }
    }
    fn on_disconnect(&self, endpoint_id: EndpointId, connection_id: ConnectionId) {
        self.0.log.lock().unwrap().push(Cb::Disconnect(endpoint_id, connection_id));
    }
}

/// Every connection id any `on_connect` of this process has seen (freshness across cases).
fn seen_cids() -> &'static Mutex<HashSet<u64>> {
    static S: OnceLock<Mutex<HashSet<u64>>> = OnceLock::new();
    S.get_or_init(Default::default)
}

// ------------------------------------------------------------------------------------------
// hand-rolled client

struct Raw {
    s: TcpStream,
    buf: Vec<u8>,
}

fn ws_frame(opcode: u8, payload: &[u8]) -> Vec<u8> {
    let mask = [0x12u8, 0x34, 0x56, 0x78];
    let mut f = vec![0x80 | opcode];
    if payload.len() < 126 {
        f.push(0x80 | payload.len() as u8);
    } else {
        f.push(0x80 | 126);
        f.extend_from_slice(&(payload.len() as u16).to_be_bytes());
    }
    f.extend_from_slice(&mask);
    f.extend(payload.iter().enumerate().map(|(i, b)| b ^ mask[i % 4]));
    f
}

impl Raw {
    async fn fill(&mut self) -> Option<()> {
        let mut chunk = [0u8; 2048];
        let n = tokio::time::timeout(WAIT, self.s.read(&mut chunk)).await.ok()?.ok()?;
        if n == 0 {
            return None;
        }
        self.buf.extend_from_slice(&chunk[..n]);
        Some(())
    }
    /// Reads the HTTP response head; returns the status line.
    async fn read_http(&mut self) -> Option<String> {
        loop {
            if let Some(p) = self.buf.windows(4).position(|w| w == b"\r\n\r\n") {
                let head = String::from_utf8_lossy(&self.buf[..p]).to_string();
                self.buf.drain(..p + 4);
                return Some(head.lines().next().unwrap_or("").to_string());
            }
            self.fill().await?;
        }
    }
    /// Reads one websocket frame: (opcode, payload).
    async fn read_ws(&mut self) -> Option<(u8, Vec<u8>)> {
        loop {
            if self.buf.len() >= 2 {
                let op = self.buf[0] & 0x0f;
                let l7 = (self.buf[1] & 0x7f) as usize;
                let (hdr, len) = match l7 {
                    126 if self.buf.len() >= 4 => (4, u16::from_be_bytes([self.buf[2], self.buf[3]]) as usize),
                    126 => (usize::MAX, 0),
                    127 => return None,
                    n => (2, n),
                };
                if hdr != usize::MAX && self.buf.len() >= hdr + len {
                    let payload = self.buf[hdr..hdr + len].to_vec();
                    self.buf.drain(..hdr + len);
                    return Some((op, payload));
                }
            }
            self.fill().await?;
        }
    }
    /// Next binary frame (relay level), skipping relay pings from the server.
    async fn read_relay(&mut self) -> Option<Vec<u8>> {
        loop {
            let (op, p) = self.read_ws().await?;
            match op {
                2 if p.first() == Some(&9) => {
                    // keep-alive ping of the server: answer it
                    let mut pong = p.clone();
                    pong[0] = 10;
                    self.s.write_all(&ws_frame(2, &pong)).await.ok()?;
                }
                2 => return Some(p),
                8 => return None,
                _ => {}
            }
        }
    }
    async fn send(&mut self, bytes: &[u8]) -> bool {
        self.s.write_all(bytes).await.is_ok() && self.s.flush().await.is_ok()
    }
    /// Ends the TCP connection: reset or orderly.
    async fn drop_conn(mut self, rst: bool) {
        if rst {
            let _ = self.s.set_zero_linger();
        } else {
            let _ = self.s.shutdown().await;
        }
        drop(self);
    }
}

// ------------------------------------------------------------------------------------------

#[derive(Clone, Debug)]
struct Spec {
    key: u64,
    dec: String,
    stop: String,
    rst: bool,
    cause: String,
}

const STOPS: &[&str] = &[
    "tcp", "halfreq", "req", "upgraded", "challenge", "halfauth", "gate", "allowed", "admitted", "confirmed",
    "pingsent", "pong", "halfframe", "-",
];
const CAUSES: &[&str] =
    &["close", "fin", "errframe", "badws", "disc", "discid", "hold", "shutdown", "shutpark", "rtdrop"];

fn parse(payload: &str) -> Option<(bool, Vec<Spec>)> {
    let mut parts = payload.split(';');
    let fwd = match parts.next()? {
        "fwd" => true,
        "rev" => false,
        _ => return None,
    };
    let mut specs = Vec::new();
    for p in parts {
        let t: Vec<&str> = p.split_whitespace().collect();
        let [key, dec, stop, how, cause] = t.as_slice() else { return None };
        let key: u64 = key.parse().ok().filter(|k| *k < 3)?;
        if !["allow", "deny", "badsig"].contains(dec) || !STOPS.contains(stop) || !CAUSES.contains(cause) {
            return None;
        }
        let rst = match *how {
            "rst" => true,
            "fin" => false,
            _ => return None,
        };
        specs.push(Spec { key, dec: dec.to_string(), stop: stop.to_string(), rst, cause: cause.to_string() });
    }
    Some((fwd, specs))
}

struct Held {
    spec: usize,
    raw: Raw,
}

struct Run {
    gate: Arc<Gate>,
    addr: SocketAddr,
    clients: Clients,
    server: Option<Server>,
    held: Vec<Held>,
    /// spec index -> connection id, for specs that reached `on_connect`
    cids: Vec<(usize, ConnectionId)>,
    faults: Vec<String>,
    late: usize,
    ended: bool,
}

async fn wait_until(mut cond: impl FnMut() -> bool) -> bool {
    let deadline = tokio::time::Instant::now() + WAIT;
    loop {
        if cond() {
            return true;
        }
        if tokio::time::Instant::now() >= deadline {
            return false;
        }
        tokio::time::sleep(Duration::from_micros(300)).await;
    }
}

fn registered(clients: &Clients) -> Vec<ConnectionId> {
    let (snap, _) = clients.verif_snapshot();
    snap.into_iter().flat_map(|(_, a, ina)| std::iter::once(a).chain(ina)).collect()
}

impl Run {
    fn fault(&mut self, s: impl Into<String>) {
        self.faults.push(s.into());
    }

    fn disconnects_of(&self, cid: ConnectionId) -> usize {
        self.gate.log.lock().unwrap().iter().filter(|c| matches!(c, Cb::Disconnect(_, c2) if *c2 == cid)).count()
    }

    /// After an admitted connection's client is gone the callback is expected within bounded
    /// time; a late one is only counted (the exact count is taken after teardown).
    async fn await_disconnect(&mut self, cid: ConnectionId) {
        let gate = self.gate.clone();
        let ok = wait_until(|| {
            gate.log.lock().unwrap().iter().any(|c| matches!(c, Cb::Disconnect(_, c2) if *c2 == cid))
        })
        .await;
        if !ok {
            self.late += 1;
        }
    }

    async fn at_point(&mut self, name: &'static str, cid: ConnectionId) -> bool {
        let tag = cid.verif_raw();
        let ok = wait_until(|| verif_pause::waiting().iter().any(|(n, t)| *n == name && *t == tag)).await;
        if !ok {
            self.fault(format!("pause-point-not-reached:{name}"));
        }
        ok
    }

    async fn run_spec(&mut self, idx: usize, sp: &Spec) {
        let sk = secret(sp.key);
        let stop = sp.stop.as_str();
        let Ok(Ok(s)) = tokio::time::timeout(WAIT, TcpStream::connect(self.addr)).await else {
            self.fault("tcp-connect");
            return;
        };
        let _ = s.set_nodelay(true);
        let mut raw = Raw { s, buf: Vec::new() };
        if stop == "tcp" {
            return raw.drop_conn(sp.rst).await;
        }
        let req = format!(
            "GET {RELAY_PATH} HTTP/1.1\r\nHost: {}\r\nConnection: Upgrade\r\nUpgrade: websocket\r\nSec-WebSocket-Version: 13\r\nSec-WebSocket-Key: dGhlIHNhbXBsZSBub25jZQ==\r\nSec-WebSocket-Protocol: {}\r\n\r\n",
            self.addr,
            ProtocolVersion::all_joined()
        );
        if stop == "halfreq" {
            raw.send(&req.as_bytes()[..req.len() / 2]).await;
            return raw.drop_conn(sp.rst).await;
        }
        raw.send(req.as_bytes()).await;
        if stop == "req" {
            return raw.drop_conn(sp.rst).await;
        }
        match raw.read_http().await {
            Some(l) if l.contains("101") => {}
            other => {
                self.fault(format!("no-upgrade:{other:?}"));
                return;
            }
        }
        if stop == "upgraded" {
            return raw.drop_conn(sp.rst).await;
        }
        let chal = match raw.read_relay().await {
            Some(f) if f.len() == 17 && f[0] == 0 => {
                let mut c = [0u8; 16];
                c.copy_from_slice(&f[1..]);
                c
            }
            other => {
                self.fault(format!("no-challenge:{:?}", other.map(|f| f.len())));
                return;
            }
        };
        if stop == "challenge" {
            return raw.drop_conn(sp.rst).await;
        }
        let auth = if sp.dec == "badsig" {
            // the frame names `sk`'s public key but is signed by another key
            let mut f = hs::client_auth_frame(&sk, chal).to_vec();
            let n = f.len();
            f[n - 1] ^= 0x55;
            Bytes::from(f)
        } else {
            hs::client_auth_frame(&sk, chal)
        };
        let frame = ws_frame(2, &auth);
        if stop == "halfauth" {
            raw.send(&frame[..frame.len() / 2]).await;
            return raw.drop_conn(sp.rst).await;
        }
        let before = self.gate.log.lock().unwrap().len();
        raw.send(&frame).await;
        if sp.dec == "badsig" {
            // refused by the authentication step: a denial frame, no `on_connect`
            match raw.read_relay().await {
                Some(f) if f.first() == Some(&3) => {}
                other => self.fault(format!("badsig-not-denied:{:?}", other.map(|f| f.first().copied()))),
            }
            if self.gate.log.lock().unwrap().len() != before {
                self.fault("badsig-reached-on_connect");
            }
            return raw.drop_conn(sp.rst).await;
        }
        // ---- `on_connect` is called
        let gate = self.gate.clone();
        if !wait_until(|| !gate.arrivals.lock().unwrap().is_empty()).await {
            self.fault("on_connect-not-reached");
            return;
        }
        let arrival = self.gate.arrivals.lock().unwrap().remove(0);
        let cid = arrival.cid;
        self.cids.push((idx, cid));
        let allow = sp.dec == "allow";
        let mut raw = Some(raw);
        if stop == "gate" {
            raw.take().unwrap().drop_conn(sp.rst).await;
            // give the reset time to arrive before the server goes on
            tokio::time::sleep(Duration::from_millis(2)).await;
        }
        let _ = arrival.decide.send(allow);
        if !allow {
            if let Some(mut r) = raw.take() {
                match r.read_relay().await {
                    Some(f) if f.first() == Some(&3) => {}
                    other => self.fault(format!("deny-not-told:{:?}", other.map(|f| f.first().copied()))),
                }
                r.drop_conn(sp.rst).await;
            }
            return;
        }
        // ---- admitted: parked at `authorize:allowed`
        if !self.at_point(P_ALLOWED, cid).await {
            return;
        }
        if stop == "allowed" {
            raw.take().unwrap().drop_conn(sp.rst).await;
            tokio::time::sleep(Duration::from_millis(2)).await;
        }
        verif_pause::release(P_ALLOWED, cid.verif_raw());
        if stop == "gate" || stop == "allowed" {
            // the confirmation goes to a dead socket: it fails, or it "succeeds" and the actor fails
            let g = self.gate.clone();
            let clients = self.clients.clone();
            let tag = cid.verif_raw();
            // let the accept task run on: release the second pause point when it gets there
            wait_until(|| {
                if verif_pause::waiting().iter().any(|(n, t)| *n == P_ADMITTED && *t == tag) {
                    verif_pause::release(P_ADMITTED, tag);
                }
                let _ = &clients;
                g.log.lock().unwrap().iter().any(|c| matches!(c, Cb::Disconnect(_, c2) if *c2 == cid))
            })
            .await;
            self.await_disconnect(cid).await;
            return;
        }
        let mut r = raw.take().unwrap();
        match r.read_relay().await {
            Some(f) if f.first() == Some(&2) => {}
            other => self.fault(format!("not-confirmed:{:?}", other.map(|f| f.first().copied()))),
        }
        if !self.at_point(P_ADMITTED, cid).await {
            return;
        }
        if stop == "admitted" {
            r.drop_conn(sp.rst).await;
            tokio::time::sleep(Duration::from_millis(2)).await;
            verif_pause::release(P_ADMITTED, cid.verif_raw());
            self.await_disconnect(cid).await;
            return;
        }
        if sp.cause == "shutpark" && stop == "-" {
            // variant: the server is shut down while this accept task is parked between admission
            // and registration; it registers afterwards
            if let Some(server) = self.server.take() {
                if tokio::time::timeout(WAIT, server.shutdown()).await.is_err() {
                    self.fault("shutdown-hangs");
                }
            }
            verif_pause::release(P_ADMITTED, cid.verif_raw());
            let clients = self.clients.clone();
            if !wait_until(|| registered(&clients).contains(&cid)).await {
                self.fault("not-registered-after-shutdown");
            }
            self.held.push(Held { spec: idx, raw: r });
            self.ended = true;
            return;
        }
        verif_pause::release(P_ADMITTED, cid.verif_raw());
        let clients = self.clients.clone();
        if !wait_until(|| registered(&clients).contains(&cid)).await {
            self.fault("not-registered");
        }
        // ---- registered, actor running
        if stop == "confirmed" {
            r.drop_conn(sp.rst).await;
            return self.await_disconnect(cid).await;
        }
        let data = [7u8, 7, idx as u8, 1, 2, 3, 4, 5];
        let mut ping = vec![9u8];
        ping.extend_from_slice(&data);
        r.send(&ws_frame(2, &ping)).await;
        if stop == "pingsent" {
            r.drop_conn(sp.rst).await;
            return self.await_disconnect(cid).await;
        }
        match r.read_relay().await {
            Some(f) if f.len() == 9 && f[0] == 10 && f[1..] == data => {}
            other => self.fault(format!("no-pong:{:?}", other.map(|f| f.len()))),
        }
        if stop == "pong" {
            r.drop_conn(sp.rst).await;
            return self.await_disconnect(cid).await;
        }
        if stop == "halfframe" {
            let f = ws_frame(2, &ping);
            r.send(&f[..f.len() / 2]).await;
            r.drop_conn(sp.rst).await;
            return self.await_disconnect(cid).await;
        }
        // ---- not dropped: ended by `cause`
        match sp.cause.as_str() {
            "close" => {
                r.send(&ws_frame(8, &[])).await;
                // the server answers the close and/or closes
                let _ = r.read_ws().await;
                r.drop_conn(false).await;
                self.await_disconnect(cid).await;
            }
            "fin" => {
                r.drop_conn(false).await;
                self.await_disconnect(cid).await;
            }
            "errframe" => {
                r.send(&ws_frame(2, &[0x3f, 1, 2, 3])).await;
                self.await_disconnect(cid).await;
                r.drop_conn(sp.rst).await;
            }
            "badws" => {
                r.send(&[0xff, 0xff, 0xff, 0xff, 0, 1, 2, 3]).await;
                self.await_disconnect(cid).await;
                r.drop_conn(sp.rst).await;
            }
            "disc" | "discid" => {
                let sel = if sp.cause == "disc" { Some(cid) } else { None };
                if !self.clients.disconnect(sk.public(), sel) {
                    self.fault("disconnect-returned-false");
                }
                self.await_disconnect(cid).await;
                // by endpoint id: every held connection of this endpoint is gone as well
                r.drop_conn(sp.rst).await;
            }
            "hold" => self.held.push(Held { spec: idx, raw: r }),
            "shutdown" => {
                self.held.push(Held { spec: idx, raw: r });
                if let Some(server) = self.server.take() {
                    if tokio::time::timeout(WAIT, server.shutdown()).await.is_err() {
                        self.fault("shutdown-hangs");
                    }
                }
                let cids: Vec<ConnectionId> = self.cids.iter().map(|c| c.1).collect();
                for c in cids {
                    if self.is_open_admitted(c) {
                        self.await_disconnect(c).await;
                    }
                }
                self.ended = true;
            }
            "shutpark" => unreachable!("handled before registration"),
            "rtdrop" => {
                self.held.push(Held { spec: idx, raw: r });
                self.ended = true;
            }
            _ => unreachable!(),
        }
    }

    /// Admitted and held open by this harness.
    fn is_open_admitted(&self, cid: ConnectionId) -> bool {
        self.cids.iter().any(|(i, c)| *c == cid && self.held.iter().any(|h| h.spec == *i))
    }
}

struct CaseOut {
    ex: Exec,
    gate: Arc<Gate>,
    cids: Vec<(usize, ConnectionId)>,
}

async fn run_case(fwd: bool, specs: Vec<Spec>) -> Result<CaseOut, Exec> {
    verif_pause::reset();
    verif_pause::arm(P_ALLOWED);
    verif_pause::arm(P_ADMITTED);
    let gate = Arc::new(Gate::default());
    let mut relay = RelayConfig::new((Ipv4Addr::LOCALHOST, 0));
    relay.access = Arc::new(GateAccess(gate.clone()));
    let mut config = ServerConfig::default();
    config.relay = Some(relay);
    let server = match Server::spawn(config).await {
        Ok(s) => s,
        Err(e) => return Err(Exec::new(format!("infra:spawn:{e}")).tag("infra")),
    };
    let addr = server.http_addr().expect("http addr");
    let clients = server.relay_service().expect("relay").clients().clone();
    let mut run = Run {
        gate: gate.clone(),
        addr,
        clients,
        server: Some(server),
        held: Vec::new(),
        cids: Vec::new(),
        faults: Vec::new(),
        late: 0,
        ended: false,
    };
    for (i, sp) in specs.iter().enumerate() {
        if run.ended {
            break;
        }
        run.run_spec(i, sp).await;
    }
    // registry at the end of the script: which specs are (still) registered
    let reg = registered(&run.clients);
    let mut held_reg: Vec<usize> = run.cids.iter().filter(|(_, c)| reg.contains(c)).map(|(i, _)| *i).collect();
    held_reg.sort();
    // oracle part: nothing is registered that `on_connect` did not admit
    let admitted: Vec<ConnectionId> = gate
        .log
        .lock()
        .unwrap()
        .iter()
        .filter_map(|c| if let Cb::Decided(c, true) = c { Some(*c) } else { None })
        .collect();
    let mut ex = Exec::new(String::new());
    for c in &reg {
        if !admitted.contains(c) {
            ex.violation("C07:registered-without-admission", format!("connection id {c} is registered but was not admitted"));
        }
    }
    let rtdrop = specs.iter().any(|s| s.cause == "rtdrop") && run.ended && run.server.is_some();
    if !rtdrop {
        // close what is held, in the requested order
        let mut held = std::mem::take(&mut run.held);
        if !fwd {
            held.reverse();
        }
        for h in held {
            let cid = run.cids.iter().find(|(i, _)| *i == h.spec).map(|c| c.1);
            h.raw.drop_conn(false).await;
            if let Some(c) = cid {
                run.await_disconnect(c).await;
            }
        }
        verif_pause::reset();
        if let Some(server) = run.server.take() {
            let _ = tokio::time::timeout(WAIT, server.shutdown()).await;
        }
    } else {
        // leave everything as it is: the runtime is dropped by the caller
        std::mem::forget(run.server.take());
        for h in std::mem::take(&mut run.held) {
            std::mem::forget(h.raw);
        }
    }
    ex.out = format!(
        "held:{}",
        if held_reg.is_empty() { "-".to_string() } else { held_reg.iter().map(|i| i.to_string()).collect::<Vec<_>>().join(",") }
    );
    for f in &run.faults {
        ex.tags.push(format!("fault:{}", f.split(':').next().unwrap_or("")));
    }
    if !run.faults.is_empty() {
        ex.out = format!("{} !{}", ex.out, run.faults.join(","));
    }
    if run.late > 0 {
        ex.tags.push("late-disconnect".into());
    }
    Ok(CaseOut { ex, gate, cids: run.cids })
}

struct C07;

impl Prop for C07 {
    fn id(&self) -> &'static str {
        "C07"
    }

    fn generate(&mut self, rng: &mut Rng, tier: Tier, n: usize, out: &mut Vec<String>) {
        // (1) every stop point x {allow, deny} x {rst, fin}
        for stop in STOPS.iter().filter(|s| **s != "-") {
            for dec in ["allow", "deny"] {
                for how in ["rst", "fin"] {
                    out.push(format!("fwd;0 {dec} {stop} {how} close"));
                }
            }
        }
        // (2) every cause x {allow, deny}; badsig
        for cause in CAUSES {
            for dec in ["allow", "deny"] {
                out.push(format!("fwd;0 {dec} - fin {cause}"));
            }
        }
        out.push("fwd;0 badsig - fin close".into());
        out.push("fwd;0 badsig - rst close;0 allow - fin close".into());
        // (3) displacement: two / three connections of one endpoint, closed in either order, or ended otherwise
        for order in ["fwd", "rev"] {
            out.push(format!("{order};0 allow - fin hold;0 allow - fin hold"));
            out.push(format!("{order};0 allow - fin hold;0 allow - fin hold;0 allow - fin hold"));
            out.push(format!("{order};0 allow - fin hold;0 allow - fin hold;0 allow - fin discid"));
            out.push(format!("{order};0 allow - fin hold;0 allow - fin disc;1 allow - fin hold"));
            out.push(format!("{order};0 allow - fin hold;1 allow - fin hold;0 allow - fin shutdown"));
            out.push(format!("{order};0 allow - fin hold;1 deny - fin hold;0 allow - fin rtdrop"));
            out.push(format!("{order};0 allow - fin hold;0 allow admitted rst close;0 allow allowed fin close"));
        }
        // (4) server shut down while an accept task is parked between admission and registration
        out.push("fwd;0 allow - fin hold;1 allow - fin shutpark".into());
        out.push("rev;0 allow - fin hold;0 allow - fin shutpark".into());
        // (4b) the accept pipeline end to end (`pipe …`, see ../c07pipe.rs)
        pipe::fixed_cases(out);
        // (5) random lists of connections, and random pipeline requests
        let max = if tier == Tier::Thorough { 6 } else { 4 };
        while out.len() < n {
            if rng.chance(2, 5) {
                out.push(pipe::gen_case(rng));
                continue;
            }
            let k = rng.range(1, max) as usize;
            let mut specs = Vec::new();
            for i in 0..k {
                let nkeys = if rng.bool() { 1 } else { 3 };
                let key = rng.below(nkeys);
                let dec = *rng.pick(&["allow", "allow", "allow", "deny", "badsig"]);
                let stop = if rng.chance(1, 2) { "-" } else { *rng.pick(STOPS) };
                let how = if rng.bool() { "rst" } else { "fin" };
                let last = i + 1 == k;
                let cause = if last && rng.chance(1, 4) {
                    *rng.pick(&["shutdown", "rtdrop", "shutpark"])
                } else {
                    *rng.pick(&["close", "fin", "errframe", "badws", "disc", "discid", "hold", "hold", "hold"])
                };
                specs.push(format!("{key} {dec} {stop} {how} {cause}"));
            }
            out.push(format!("{};{}", if rng.bool() { "fwd" } else { "rev" }, specs.join(";")));
        }
    }

    fn execute(&mut self, payload: &str) -> Exec {
        if payload.starts_with("pipe ") {
            let rt = tokio::runtime::Builder::new_current_thread().enable_all().build().expect("runtime");
            let ex = rt.block_on(pipe::run_case(payload));
            rt.shutdown_timeout(Duration::from_millis(200));
            return ex;
        }
        let Some((fwd, specs)) = parse(payload) else {
            return Exec::new("bad-input").tag("bad-input");
        };
        let rt = tokio::runtime::Builder::new_current_thread().enable_all().build().expect("runtime");
        let res = rt.block_on(run_case(fwd, specs.clone()));
        // dropping the runtime drops every task that is still alive: the last chance for a guard to fire
        rt.shutdown_timeout(Duration::from_millis(500));
        verif_pause::reset();
        let CaseOut { mut ex, gate, cids } = match res {
            Ok(c) => c,
            Err(ex) => return ex,
        };
        let log = gate.log.lock().unwrap().clone();

        // ---- canonical output: per `on_connect` call its decision and its number of disconnects
        let mut per = Vec::new();
        let mut connects: Vec<(EndpointId, ConnectionId)> = Vec::new();
        for cb in &log {
            if let Cb::Connect(e, c) = cb {
                connects.push((*e, *c));
            }
        }
        for (e, c) in &connects {
            let decided = log.iter().find_map(|cb| if let Cb::Decided(c2, a) = cb { (c2 == c).then_some(*a) } else { None });
            let n = log.iter().filter(|cb| matches!(cb, Cb::Disconnect(_, c2) if c2 == c)).count();
            per.push(format!("{}:{n}", match decided { Some(true) => "allow", Some(false) => "deny", None => "pending" }));

            // ---- oracle: the statement of C07 on the callback log ------------------------------
            let n_match = log.iter().filter(|cb| matches!(cb, Cb::Disconnect(e2, c2) if c2 == c && e2 == e)).count();
            let first_disc = log.iter().position(|cb| matches!(cb, Cb::Disconnect(_, c2) if c2 == c));
            let decided_at = log.iter().position(|cb| matches!(cb, Cb::Decided(c2, _) if c2 == c));
            match decided {
                Some(true) => {
                    if n == 0 {
                        ex.violation("C07:missing-disconnect", format!("admitted connection {c} never reported as disconnected (after server shutdown and runtime drop)"));
                    } else if n > 1 {
                        ex.violation("C07:duplicate-disconnect", format!("admitted connection {c} reported {n} times"));
                    }
                    if n_match != n {
                        ex.violation("C07:disconnect-wrong-endpoint", format!("connection {c}: on_disconnect with another endpoint id"));
                    }
                    if let (Some(d), Some(a)) = (first_disc, decided_at) {
                        if d < a {
                            ex.violation("C07:disconnect-before-admission", format!("connection {c}"));
                        }
                    }
                }
                _ => {
                    if n != 0 {
                        ex.violation("C07:disconnect-without-admission", format!("connection {c} was not admitted but reported {n} times"));
                    }
                }
            }
            if !seen_cids().lock().unwrap().insert(c.verif_raw()) {
                ex.violation("C07:cid-reused", format!("connection id {c} was handed to on_connect twice"));
            }
        }
        for cb in &log {
            if let Cb::Disconnect(_, c) = cb {
                if !connects.iter().any(|(_, c2)| c2 == c) {
                    ex.violation("C07:disconnect-unknown-connection", format!("on_disconnect for {c} which on_connect never saw"));
                }
            }
        }
        let _ = cids;
        ex.out = format!("{} | {}", if per.is_empty() { "-".to_string() } else { per.join(" ") }, ex.out);
        ex.nontrivial = log.iter().any(|cb| matches!(cb, Cb::Decided(_, true)));
        for sp in &specs {
            ex.tags.push(format!("stop:{}", sp.stop));
            if sp.stop == "-" {
                ex.tags.push(format!("cause:{}", sp.cause));
            }
            ex.tags.push(format!("dec:{}", sp.dec));
        }
        ex
    }
}

fn main() {
    run(C07);
}
