//! C09 — relay per-client receive rate stays within the configured bucket.
//!
//! Drives the real `iroh_relay::server::streams::Bucket` (pub) and the real internal
//! `RateLimited` reader (through the cfg(iroh_verif) hook `verif_hooks::RateLimitedReader`)
//! over an in-memory reader under tokio's paused clock.
//!
//! payload:
//!   `B <max> <bps> <period_ms> <op>;…`  ops `a <ms>` advance | `c <bytes>` `consume(bytes)` |
//!                                        `r <bytes>` consume unless the last `Err(deadline)` is still in the future
//!   `R <cfg> <op>;…`                    ops `a <ms>` | `d <n>` n more bytes (position-dependent pattern) ready in the inner reader |
//!                                        `e` inner reader at EOF after the ready bytes | `x <0..3>` inner reader fails after them |
//!                                        `s <cfg>` live reconfiguration through the watch channel |
//!                                        `w <ms> <buf>` `timeout(ms, reader.read(&mut [0; buf]))`
//!   cfg = `none` | `<bps>,<burst>` | `<bps>,-`
//!   `S <n|t|l|i> <op>;…`               the real relay `Server` and real clients, real time: ops `s <n|t|l|i>`
//!                                        `set_client_rate_limit` (none / tight / loose / invalid) | `c <k>` connect client k |
//!                                        `x <k>` disconnect | `p <k>` probe which limit governs client k (floods, reads the
//!                                        server's rate-limit metric); results `ok|noop|refused|noconn|none|tight|loose`
//! output: `new:invalid` | `new:ok <per-op result>…` | `bad-input`; per-op results
//!   `ok` | `err:<deadline ms>` | `blocked` | `read:<n>:<ms waited>:<limited count>:<fnv32 of the bytes>` |
//!   `eof:<ms waited>:<limited>` | `err:<kind>:<ms waited>:<limited>` | `pending:<limited count>` | `panic` (ends the case)
use std::panic::{AssertUnwindSafe, catch_unwind};
use std::pin::Pin;
use std::sync::Arc;
use std::task::{Context, Poll};
use std::time::Duration;

use futures_util::{SinkExt, StreamExt};
use iroh_relay::client::{Client, ClientBuilder};
use iroh_relay::protos::relay::{ClientToRelayMsg, Datagrams, RelayToClientMsg};
use iroh_relay::server::{ClientRateLimit, RelayConfig, Server, ServerConfig};
use iroh_relay::server::streams::{Bucket, verif_hooks::RateLimitedReader};
use tokio::io::{AsyncRead, AsyncReadExt, ReadBuf};
use tokio::time::Instant;
use vcommon::*;

struct C09;

const MAX_ADVANCE: u128 = 10_000_000_000_000;
const MAX_AVAIL: u128 = 1 << 20;
const MAX_BUF: u128 = 1 << 20;
/// The relay's refill period (the statement's "refill accrued" is rate × time; the period only
/// enters the oracle through the documented rule "at least one token per period").
const RELAY_PERIOD_MS: u128 = 100;

#[derive(Clone, Copy, Debug, PartialEq)]
struct Cfg {
    bps: u32,
    burst: Option<u32>,
}

#[derive(Clone, Debug)]
enum BOp {
    Advance(u64),
    Consume(u64),
    Read(u64),
}

#[derive(Clone, Debug)]
enum ROp {
    Advance(u64),
    Data(u64),
    Eof,
    Fail(u8),
    Set(Option<Cfg>),
    Wait(u64, usize),
}

#[derive(Clone, Copy, Debug, PartialEq)]
enum SCfg {
    None,
    Tight,
    Loose,
    Invalid,
}

#[derive(Clone, Debug)]
enum SOp {
    Set(SCfg),
    Connect(usize),
    Disconnect(usize),
    Probe(usize),
}

enum Case {
    S { cfg: SCfg, ops: Vec<SOp> },
    B { max: i64, bps: i64, pms: u128, ops: Vec<BOp> },
    R { cfg: Option<Cfg>, ops: Vec<ROp> },
}

fn nat(s: &str) -> Option<u128> {
    if s.is_empty() || s.len() > 25 || !s.bytes().all(|b| b.is_ascii_digit()) {
        return None;
    }
    s.parse().ok()
}
fn nat_le(s: &str, hi: u128) -> Option<u128> {
    nat(s).filter(|n| *n <= hi)
}
fn i64_of(s: &str) -> Option<i64> {
    let (neg, digits) = match s.strip_prefix('-') {
        Some(d) => (true, d),
        None => (false, s),
    };
    let n = nat(digits)? as i128;
    let v = if neg { -n } else { n };
    i64::try_from(v).ok()
}
fn cfg_of(s: &str) -> Option<Option<Cfg>> {
    if s == "none" {
        return Some(None);
    }
    let parts: Vec<&str> = s.split(',').collect();
    let [b, m] = parts.as_slice() else { return None };
    let bps = nat_le(b, u32::MAX as u128)? as u32;
    if bps == 0 {
        return None;
    }
    if *m == "-" {
        return Some(Some(Cfg { bps, burst: None }));
    }
    let burst = nat_le(m, u32::MAX as u128)? as u32;
    if burst == 0 {
        return None;
    }
    Some(Some(Cfg { bps, burst: Some(burst) }))
}

fn parse(payload: &str) -> Option<Case> {
    let toks: Vec<&str> = payload.split(' ').filter(|t| !t.is_empty()).collect();
    let split_ops = |rest: &[&str]| -> Option<Vec<Vec<String>>> {
        if rest.is_empty() {
            return None;
        }
        Some(
            rest.join(" ")
                .split(';')
                .map(|op| op.split(' ').filter(|t| !t.is_empty()).map(String::from).collect())
                .collect(),
        )
    };
    match toks.as_slice() {
        ["B", mx, bps, pms, rest @ ..] => {
            let max = i64_of(mx)?;
            let bps = i64_of(bps)?;
            let pms = nat_le(pms, u64::MAX as u128 * 1000 + 999)?;
            let mut ops = Vec::new();
            for op in split_ops(rest)? {
                let t: Vec<&str> = op.iter().map(|s| s.as_str()).collect();
                ops.push(match t.as_slice() {
                    ["a", ms] => BOp::Advance(nat_le(ms, MAX_ADVANCE)? as u64),
                    ["c", n] => BOp::Consume(nat_le(n, u64::MAX as u128)? as u64),
                    ["r", n] => BOp::Read(nat_le(n, u64::MAX as u128)? as u64),
                    _ => return None,
                });
            }
            Some(Case::B { max, bps, pms, ops })
        }
        ["R", c, rest @ ..] => {
            let cfg = cfg_of(c)?;
            let mut ops = Vec::new();
            for op in split_ops(rest)? {
                let t: Vec<&str> = op.iter().map(|s| s.as_str()).collect();
                ops.push(match t.as_slice() {
                    ["a", ms] => ROp::Advance(nat_le(ms, MAX_ADVANCE)? as u64),
                    ["d", n] => ROp::Data(nat_le(n, MAX_AVAIL)? as u64),
                    ["e"] => ROp::Eof,
                    ["x", c] => ROp::Fail(nat_le(c, 3)? as u8),
                    ["s", c] => ROp::Set(cfg_of(c)?),
                    ["w", ms, buf] => ROp::Wait(nat_le(ms, MAX_ADVANCE)? as u64, nat_le(buf, MAX_BUF)? as usize),
                    _ => return None,
                });
            }
            Some(Case::R { cfg, ops })
        }
        ["S", c, rest @ ..] => {
            let cfg = scfg_of(c)?;
            let mut ops = Vec::new();
            for op in split_ops(rest)? {
                let t: Vec<&str> = op.iter().map(|s| s.as_str()).collect();
                ops.push(match t.as_slice() {
                    ["s", c] => SOp::Set(scfg_of(c)?),
                    ["c", k] => SOp::Connect(nat_le(k, 3)? as usize),
                    ["x", k] => SOp::Disconnect(nat_le(k, 3)? as usize),
                    ["p", k] => SOp::Probe(nat_le(k, 3)? as usize),
                    _ => return None,
                });
            }
            Some(Case::S { cfg, ops })
        }
        _ => None,
    }
}

fn scfg_of(s: &str) -> Option<SCfg> {
    Some(match s {
        "n" => SCfg::None,
        "t" => SCfg::Tight,
        "l" => SCfg::Loose,
        "i" => SCfg::Invalid,
        _ => return None,
    })
}

fn rt() -> tokio::runtime::Runtime {
    tokio::runtime::Builder::new_current_thread()
        .enable_all()
        .start_paused(true)
        .build()
        .expect("runtime")
}

fn ms_since(start: Instant, t: Instant) -> u128 {
    let d = t.saturating_duration_since(start);
    assert_eq!(d.subsec_nanos() % 1_000_000, 0, "instant off the millisecond grid");
    d.as_millis()
}

fn dur_ms(pms: u128) -> Duration {
    Duration::new((pms / 1000) as u64, ((pms % 1000) as u32) * 1_000_000)
}

/// The statement's bound, evaluated on what was observed only:
/// bytes admitted since the limit took effect at `t0` ≤ burst + rate·(t − t0) + one chunk.
struct BoundOracle {
    burst: u128,
    bps: u128,
    t0: u128,
    admitted: u128,
    max_chunk: u128,
}

impl BoundOracle {
    fn admit(&mut self, n: u128, now: u128, ex: &mut Exec, i: usize) {
        self.admitted += n;
        self.max_chunk = self.max_chunk.max(n);
        // 1000·(admitted − burst − chunk) ≤ bps·(now − t0)
        let lhs = self.admitted.saturating_sub(self.burst + self.max_chunk).saturating_mul(1000);
        let rhs = self.bps.saturating_mul(now - self.t0);
        if lhs > rhs {
            ex.violation(
                "rate-bound-exceeded",
                format!(
                    "op {i}: {} bytes admitted in {} ms > burst {} + {} B/s accrued + chunk {}",
                    self.admitted,
                    now - self.t0,
                    self.burst,
                    self.bps,
                    self.max_chunk
                ),
            );
        }
    }
}

/// Ideal token bucket in unbounded arithmetic (no saturation, no truncation): the reference for
/// "the instant at which the bucket has refilled enough".
struct Ideal {
    fill: i128,
    max: i128,
    refill: i128,
    period: u128,
    last: u128,
}

impl Ideal {
    fn update(&mut self, now: u128) {
        if now > self.last {
            let k = (now - self.last) / self.period;
            self.fill = (self.fill + (k as i128).saturating_mul(self.refill)).min(self.max);
            self.last += k * self.period;
        }
    }
    /// Consumes; `Some(t)` = first period boundary at which the fill is positive again.
    fn consume(&mut self, n: u128, now: u128) -> Option<u128> {
        self.update(now);
        self.fill -= n as i128;
        if self.fill > 0 {
            None
        } else {
            let k = ((-self.fill) / self.refill) as u128 + 1;
            Some(self.last + k * self.period)
        }
    }
}

fn run_b(max: i64, bps: i64, pms: u128, ops: &[BOp]) -> Exec {
    rt().block_on(async move {
        let mut ex = Exec::default();
        let start = Instant::now();
        let mut out: Vec<String> = Vec::new();
        let b = catch_unwind(AssertUnwindSafe(|| Bucket::new(max, bps, dur_ms(pms))));
        let mut bucket = match b {
            Err(_) => {
                ex.violation("panic", "Bucket::new panicked");
                ex.out = "panic".into();
                return ex;
            }
            Ok(Err(_)) => {
                // documented rejection rule: non-positive parameters or < 1 token per period;
                // since the fix also periods beyond u32 ms
                let documented_invalid = max <= 0
                    || bps <= 0
                    || pms == 0
                    || pms > u32::MAX as u128
                    || (bps as u128).saturating_mul(pms) < 1000;
                if !documented_invalid {
                    ex.violation("valid-config-rejected", format!("Bucket::new({max},{bps},{pms}ms)"));
                }
                ex.out = "new:invalid".into();
                ex.tags.push("B-invalid".into());
                return ex;
            }
            Ok(Ok(b)) => b,
        };
        out.push("new:ok".into());
        let in_domain = max > 0 && bps > 0 && pms > 0 && pms <= u32::MAX as u128;
        if !in_domain {
            ex.violation("invalid-config-accepted", format!("Bucket::new({max},{bps},{pms}ms)"));
        }
        let refill = (bps as i128).saturating_mul(pms as i128).min(i64::MAX as i128) / 1000;
        let mut ideal = Ideal { fill: max as i128, max: max as i128, refill: refill.max(1), period: pms.max(1), last: 0 };
        let mut bound = BoundOracle { burst: max.max(0) as u128, bps: bps.max(0) as u128, t0: 0, admitted: 0, max_chunk: 0 };
        let mut throttled_until: Option<u128> = None;
        let mut disciplined = true; // no raw `c` after an Err: the bound speaks about callers that wait
        let mut any_err = false;
        let mut any_ok = false;
        // exact comparison with the ideal bucket only while nothing saturates / wraps
        let mut exact = max < (1 << 62) && refill < (1 << 62);
        let mut last_touch: u128 = 0;
        for (i, op) in ops.iter().enumerate() {
            let now = ms_since(start, Instant::now());
            match op {
                BOp::Advance(ms) => {
                    tokio::time::sleep(Duration::from_millis(*ms)).await;
                    out.push("ok".into());
                }
                BOp::Consume(n) | BOp::Read(n) => {
                    let is_read = matches!(op, BOp::Read(_));
                    if is_read && throttled_until.is_some_and(|d| now < d) {
                        out.push("blocked".into());
                        continue;
                    }
                    if !is_read && throttled_until.is_some_and(|d| now < d) {
                        disciplined = false;
                    }
                    if now - last_touch + pms >= (1 << 32) {
                        // `as u32` of the ms elapsed since last_fill (> last consume − period) may wrap:
                        // the code then under-credits and its deadline lies in the past
                        exact = false;
                    }
                    last_touch = now;
                    let r = catch_unwind(AssertUnwindSafe(|| bucket.consume(*n as usize)));
                    let r = match r {
                        Err(_) => {
                            ex.violation("panic", format!("op {i}: consume({n}) panicked"));
                            out.push("panic".into());
                            break;
                        }
                        Ok(r) => r,
                    };
                    if *n >= (1 << 62) || ideal.fill < -(1 << 62) {
                        exact = false;
                    }
                    let want = ideal.consume(*n as u128, now);
                    if *n >= u32::MAX as u64 {
                        // a single chunk of 4 GiB or more can need more than u32::MAX refill periods;
                        // the code caps the wait there (observation, outside the relay's read sizes)
                        disciplined = false;
                        ex.tags.push("B-chunk-beyond-u32".into());
                    }
                    if disciplined {
                        bound.admit(*n as u128, now, &mut ex, i);
                    }
                    match r {
                        Ok(()) => {
                            any_ok = true;
                            throttled_until = None;
                            out.push("ok".into());
                            if exact && want.is_some() {
                                ex.violation("empty-bucket-admitted", format!("op {i}: consume({n}) Ok with ideal fill {}", ideal.fill));
                            }
                        }
                        Err(d) => {
                            any_err = true;
                            let d = ms_since(start, d);
                            throttled_until = Some(d);
                            out.push(format!("err:{d}"));
                            // never "stall forever": the deadline is a finite instant within 2^32 periods
                            if d > now + (1u128 << 32) * pms {
                                ex.violation("deadline-unbounded", format!("op {i}: deadline {d} at {now}"));
                            }
                            match want {
                                None if exact => ex.violation(
                                    "full-bucket-throttled",
                                    format!("op {i}: consume({n}) Err({d}) with ideal fill {}", ideal.fill),
                                ),
                                Some(w) if exact && (w - ideal.last) / pms <= u32::MAX as u128 => {
                                    // resumes no later than refilled-enough, and not earlier either
                                    if d > w {
                                        ex.violation("resume-too-late", format!("op {i}: deadline {d}, refilled enough at {w}"));
                                    } else if d < w {
                                        ex.violation("resume-too-early", format!("op {i}: deadline {d}, refilled enough at {w}"));
                                    }
                                }
                                Some(w) if exact && d > w => {
                                    ex.violation("resume-too-late", format!("op {i}: deadline {d}, refilled enough at {w}"))
                                }
                                _ => {}
                            }
                        }
                    }
                }
            }
        }
        ex.out = out.join(" ");
        ex.nontrivial = any_err && any_ok;
        ex.tags.push("B-valid".into());
        if any_err {
            ex.tags.push("B-throttled".into());
        }
        if !exact {
            ex.tags.push("B-extreme-values".into());
        }
        ex
    })
}

/// The inner reader's byte at stream position `i`: position-dependent, so that dropped,
/// duplicated or reordered bytes show.
fn pattern(i: u64) -> u8 {
    ((i * 131 + (i / 256) * 17 + 7) % 256) as u8
}

const KINDS: [std::io::ErrorKind; 4] = [
    std::io::ErrorKind::ConnectionReset,
    std::io::ErrorKind::UnexpectedEof,
    std::io::ErrorKind::Other,
    std::io::ErrorKind::BrokenPipe,
];

#[derive(Clone, Copy, PartialEq, Debug)]
enum Tail {
    Open,
    Eof,
    Err(u8),
}

#[derive(Debug)]
struct SrcState {
    /// stream position of the next byte the reader will hand out
    pos: u64,
    /// bytes ready
    avail: u64,
    /// what follows the ready bytes
    tail: Tail,
    /// number of times `poll_read` was called on the inner reader
    polls: u64,
}

/// In-memory inner reader: `avail` bytes of the pattern ready; once they are used up `Pending`
/// (no waker needed: new data only arrives between polls of the same task), end of stream or
/// an error.
struct Src(Arc<std::sync::Mutex<SrcState>>);

impl AsyncRead for Src {
    fn poll_read(self: Pin<&mut Self>, _cx: &mut Context<'_>, buf: &mut ReadBuf<'_>) -> Poll<std::io::Result<()>> {
        let mut st = self.0.lock().expect("lock");
        st.polls += 1;
        if st.avail == 0 {
            return match st.tail {
                Tail::Open => Poll::Pending,
                Tail::Eof => Poll::Ready(Ok(())),
                Tail::Err(c) => Poll::Ready(Err(std::io::Error::new(KINDS[c as usize], "verif inner error"))),
            };
        }
        let n = (buf.remaining() as u64).min(st.avail);
        let pos = st.pos;
        for (k, b) in buf.initialize_unfilled_to(n as usize).iter_mut().enumerate() {
            *b = pattern(pos + k as u64);
        }
        buf.advance(n as usize);
        st.avail -= n;
        st.pos += n;
        Poll::Ready(Ok(()))
    }
}

fn fnv32(bs: &[u8]) -> u32 {
    let mut h: u32 = 2166136261;
    for b in bs {
        h = (h ^ *b as u32).wrapping_mul(16777619);
    }
    h
}

/// Content oracle: the bytes handed to the caller must be the inner stream's bytes at
/// positions `delivered..delivered+n`.  Classifies a mismatch.
fn check_content(got: &[u8], delivered: u64) -> Option<(&'static str, String)> {
    let ok = got.iter().enumerate().all(|(k, b)| *b == pattern(delivered + k as u64));
    if ok {
        return None;
    }
    // where in the stream do these bytes come from?
    for off in 0..(delivered + got.len() as u64 + 4096) {
        if off != delivered && got.iter().enumerate().all(|(k, b)| *b == pattern(off + k as u64)) {
            let class = if off < delivered { "content-duplicated" } else { "content-dropped" };
            return Some((class, format!("bytes of stream offset {off} handed over at offset {delivered}")));
        }
    }
    let k = got.iter().enumerate().position(|(k, b)| *b != pattern(delivered + k as u64)).unwrap_or(0);
    Some(("content-altered", format!("byte {k} of the chunk at stream offset {delivered} is {:#04x}, inner reader gave {:#04x}", got[k], pattern(delivered + k as u64))))
}

fn to_limit(c: Option<Cfg>) -> Option<ClientRateLimit> {
    c.map(|c| {
        let mut l = ClientRateLimit::new(c.bps.try_into().expect("nonzero"));
        l.max_burst_bytes = c.burst.map(|b| b.try_into().expect("nonzero"));
        l
    })
}

/// Documented validity of a relay rate limit: at least one token per 100 ms period and a positive burst.
fn cfg_valid(c: &Cfg) -> bool {
    let burst = c.burst.unwrap_or(c.bps / 10);
    burst > 0 && (c.bps as u128 * RELAY_PERIOD_MS) / 1000 > 0
}

fn run_r(cfg0: Option<Cfg>, ops: &[ROp]) -> Exec {
    rt().block_on(async move {
        let mut ex = Exec::default();
        let start = Instant::now();
        let mut out: Vec<String> = Vec::new();
        let src = Arc::new(std::sync::Mutex::new(SrcState { pos: 0, avail: 0, tail: Tail::Open, polls: 0 }));
        let (tx, rx) = tokio::sync::watch::channel(to_limit(cfg0));
        let mut reader = match RateLimitedReader::from_watcher(Src(src.clone()), rx) {
            Ok(r) => r,
            Err(_) => {
                if cfg0.is_some_and(|c| cfg_valid(&c)) || cfg0.is_none() {
                    ex.violation("valid-config-rejected", format!("{cfg0:?}"));
                }
                ex.out = "new:invalid".into();
                ex.tags.push("R-invalid".into());
                return ex;
            }
        };
        if cfg0.is_some_and(|c| !cfg_valid(&c)) {
            ex.violation("invalid-config-accepted", format!("{cfg0:?}"));
        }
        out.push("new:ok".into());
        let mk_oracle = |c: Option<Cfg>, t0: u128| {
            c.map(|c| BoundOracle {
                burst: c.burst.unwrap_or(c.bps / 10) as u128,
                bps: c.bps as u128,
                t0,
                admitted: 0,
                max_chunk: 0,
            })
        };
        let mk_ideal = |c: Option<Cfg>, t0: u128| {
            c.map(|c| {
                let burst = c.burst.unwrap_or(c.bps / 10) as i128;
                Ideal { fill: burst, max: burst, refill: (c.bps as i128 * RELAY_PERIOD_MS as i128) / 1000, period: RELAY_PERIOD_MS, last: t0 }
            })
        };
        // limit in effect + limit sent but not yet picked up by a poll
        let mut oracle = mk_oracle(cfg0, 0);
        let mut ideal = mk_ideal(cfg0, 0);
        let mut pending_cfg: Option<Option<Cfg>> = None;
        // earliest instant at which the ideal bucket is positive again after the last read
        let mut resume_at: Option<u128> = None;
        let mut any_throttle = false;
        let mut any_read = false;
        let mut reconfigs = 0u32;
        let mut last_poll: u128 = 0;
        let mut exact = true;
        // bytes handed to the caller so far (= stream offset the next chunk must start at)
        let mut delivered: u64 = 0;
        let mut any_terminal = false;
        let buf_len = ops.iter().map(|o| if let ROp::Wait(_, b) = o { *b } else { 0 }).max().unwrap_or(0);
        let mut buf = vec![0u8; buf_len];
        for (i, op) in ops.iter().enumerate() {
            let now = ms_since(start, Instant::now());
            match op {
                ROp::Advance(ms) => {
                    tokio::time::sleep(Duration::from_millis(*ms)).await;
                    out.push("ok".into());
                }
                ROp::Data(n) => {
                    src.lock().expect("lock").avail += *n;
                    out.push("ok".into());
                }
                ROp::Eof => {
                    src.lock().expect("lock").tail = Tail::Eof;
                    out.push("ok".into());
                }
                ROp::Fail(c) => {
                    src.lock().expect("lock").tail = Tail::Err(*c);
                    out.push("ok".into());
                }
                ROp::Set(c) => {
                    tx.send_replace(to_limit(*c));
                    pending_cfg = Some(*c);
                    out.push("ok".into());
                }
                ROp::Wait(ms, bufsz) => {
                    // a live change takes effect at the first poll after it was sent
                    if let Some(c) = pending_cfg.take() {
                        if c.is_none_or(|c| cfg_valid(&c)) {
                            oracle = mk_oracle(c, now);
                            ideal = mk_ideal(c, now);
                            resume_at = None;
                            reconfigs += 1;
                            last_poll = now;
                        } else {
                            ex.tags.push("R-invalid-live-update-ignored".into());
                        }
                    }
                    let (had, tail, pos0, polls0) = {
                        let st = src.lock().expect("lock");
                        (st.avail, st.tail, st.pos, st.polls)
                    };
                    let res = tokio::time::timeout(Duration::from_millis(*ms), reader.read(&mut buf[..*bufsz])).await;
                    let t1 = ms_since(start, Instant::now());
                    let limited = reader.limited_count();
                    let (pos1, polls1) = {
                        let st = src.lock().expect("lock");
                        (st.pos, st.polls)
                    };
                    // a read ends the no-wrap regime if the gap since the last one is 2^32 − period ms or more
                    if res.is_ok() && t1 - last_poll + RELAY_PERIOD_MS >= (1 << 32) {
                        exact = false;
                    }
                    let has_ideal = ideal.is_some();
                    let wait_end = now + *ms as u128;
                    // is the reader entitled to poll the inner reader by time `t`?
                    let due_by = move |t: u128| !has_ideal || resume_at.is_none() || (exact && resume_at.is_some_and(|r| r <= t));
                    let too_late =
                        move |t1: u128| exact && has_ideal && resume_at.is_some_and(|r| r <= wait_end && t1 > r.max(now));
                    match res {
                        Ok(Ok(n)) => {
                            let got = &buf[..n];
                            // content + order: exactly the next bytes of the inner stream
                            if let Some((class, detail)) = check_content(got, delivered) {
                                ex.violation(class, format!("op {i}: {detail}"));
                            }
                            // nothing kept back: everything taken from the inner reader was handed over
                            if pos1 != delivered + n as u64 || pos1 != pos0 + n as u64 {
                                ex.violation("bytes-kept-back", format!("op {i}: inner reader at offset {pos1}, caller got {} bytes in total", delivered + n as u64));
                            }
                            delivered += n as u64;
                            let is_eof = n == 0 && *bufsz > 0;
                            if is_eof {
                                any_terminal = true;
                                out.push(format!("eof:{}:{limited}", t1 - now));
                                // EOF placement: only after every byte, only when the inner reader is at EOF
                                if had > 0 || tail != Tail::Eof {
                                    ex.violation("spurious-eof", format!("op {i}: Ok(0) with {had} bytes ready, inner tail {tail:?}"));
                                }
                                if too_late(t1) {
                                    ex.violation("terminal-delayed", format!("op {i}: EOF at {t1}, wait over at {resume_at:?}"));
                                }
                            } else {
                                any_read = true;
                                out.push(format!("read:{n}:{}:{limited}:{:08x}", t1 - now, fnv32(got)));
                            }
                            if n as u64 != had.min(*bufsz as u64) {
                                ex.violation("short-read", format!("op {i}: read {n} of {had} ready into {bufsz}"));
                            }
                            last_poll = t1;
                            if let Some(o) = oracle.as_mut() {
                                o.admit(n as u128, t1, &mut ex, i);
                            }
                            if let Some(id) = ideal.as_mut() {
                                // the read must not happen before the ideal bucket is positive again …
                                if exact && resume_at.is_some_and(|r| t1 < r) {
                                    ex.violation("resume-too-early", format!("op {i}: read at {t1}, refilled enough at {resume_at:?}"));
                                }
                                // … and, with data ready and time to wait, no later
                                if had > 0 && too_late(t1) {
                                    ex.violation("resume-too-late", format!("op {i}: read at {t1}, refilled enough at {resume_at:?}"));
                                }
                                resume_at = id.consume(n as u128, t1);
                                any_throttle |= resume_at.is_some();
                            } else if t1 != now {
                                ex.violation("unlimited-delayed", format!("op {i}: unlimited read waited {} ms", t1 - now));
                            }
                        }
                        Ok(Err(e)) => {
                            any_terminal = true;
                            let code = KINDS.iter().position(|k| *k == e.kind()).unwrap_or(9);
                            out.push(format!("err:{code}:{}:{limited}", t1 - now));
                            // errors pass through unchanged, only after every byte, not delayed
                            match tail {
                                Tail::Err(c) if had == 0 => {
                                    if c as usize != code || e.to_string() != "verif inner error" {
                                        ex.violation("error-altered", format!("op {i}: inner error kind {c}, caller saw {e:?}"));
                                    }
                                }
                                _ => ex.violation("spurious-error", format!("op {i}: {e:?} with {had} bytes ready, inner tail {tail:?}")),
                            }
                            if pos1 != pos0 {
                                ex.violation("bytes-kept-back", format!("op {i}: error result but inner reader advanced to {pos1}"));
                            }
                            if too_late(t1) {
                                ex.violation("terminal-delayed", format!("op {i}: error at {t1}, wait over at {resume_at:?}"));
                            }
                            if exact && has_ideal && resume_at.is_some_and(|r| t1 < r) {
                                ex.violation("resume-too-early", format!("op {i}: inner polled at {t1}, refilled enough at {resume_at:?}"));
                            }
                            if !has_ideal && t1 != now {
                                ex.violation("unlimited-delayed", format!("op {i}: unlimited read waited {} ms", t1 - now));
                            }
                        }
                        Err(_) => {
                            out.push(format!("pending:{limited}"));
                            if t1 != now + *ms as u128 {
                                ex.violation("clock", format!("op {i}: waited {} instead of {ms}", t1 - now));
                            }
                            // a pending poll takes nothing from the inner reader
                            if pos1 != pos0 {
                                ex.violation("pending-consumed-inner", format!("op {i}: pending, but inner reader advanced {pos0} -> {pos1}"));
                            }
                            // while throttled the inner reader is not even polled
                            if exact && has_ideal && resume_at.is_some_and(|r| t1 < r) && polls1 != polls0 {
                                ex.violation("throttled-polled-inner", format!("op {i}: inner reader polled at {t1} before {resume_at:?}"));
                            }
                            // no stall: data / EOF / error ready and the wait over ⇒ must have returned it
                            if (had > 0 || tail != Tail::Open) && due_by(t1) {
                                ex.violation(
                                    if had > 0 { "stalled" } else { "terminal-delayed" },
                                    format!("op {i}: {had} bytes ready, tail {tail:?}, refilled enough at {resume_at:?}, still pending at {t1}"),
                                );
                            }
                        }
                    }
                }
            }
        }
        ex.out = out.join(" ");
        ex.nontrivial = any_throttle && any_read;
        ex.tags.push("R-valid".into());
        if any_throttle {
            ex.tags.push("R-throttled".into());
        }
        if reconfigs > 0 {
            ex.tags.push("R-live-reconfig".into());
        }
        if any_terminal {
            ex.tags.push("R-eof-or-error".into());
        }
        ex
    })
}

// ---------------------------------------------------------------------------------------------
// `S` cases: the real relay `Server`, its `set_client_rate_limit`, real clients.

/// tight: burst 1000 B, 1 MB/s — 20 KB at once is throttled.  loose: burst 60 000 B, 3 MB/s —
/// 20 KB at once is not throttled, 150 KB at once is.  invalid: 5 B/s (< 1 token per 100 ms).
fn scfg_limit(c: SCfg) -> Option<ClientRateLimit> {
    let (bps, burst) = match c {
        SCfg::None => return None,
        SCfg::Tight => (1_000_000u32, Some(1000u32)),
        SCfg::Loose => (3_000_000, Some(60_000)),
        SCfg::Invalid => (5, None),
    };
    let mut l = ClientRateLimit::new(bps.try_into().expect("nonzero"));
    l.max_burst_bytes = burst.map(|b| b.try_into().expect("nonzero"));
    Some(l)
}

const WAIT: Duration = Duration::from_secs(8);

/// Sends `n` datagrams of 1000 bytes to an endpoint that is not connected, then a ping, and
/// waits for the matching pong: when it arrives the server has read everything before it.
async fn flood(client: &mut Client, n: usize, tag: u64) -> Result<(), String> {
    let dst = iroh_base::SecretKey::from_bytes(&[0x77; 32]).public();
    let payload = vec![0x5a_u8; 1000];
    for _ in 0..n {
        client
            .feed(ClientToRelayMsg::Datagrams { dst_endpoint_id: dst, datagrams: Datagrams::from(&payload) })
            .await
            .map_err(|e| format!("send: {e}"))?;
    }
    let data = tag.to_be_bytes();
    client.send(ClientToRelayMsg::Ping(data)).await.map_err(|e| format!("send ping: {e}"))?;
    tokio::time::timeout(WAIT, async {
        loop {
            match client.next().await {
                Some(Ok(RelayToClientMsg::Pong(d))) if d == data => return Ok(()),
                Some(Ok(_)) => {}
                Some(Err(e)) => return Err(format!("recv: {e}")),
                None => return Err("stream closed".to_string()),
            }
        }
    })
    .await
    .map_err(|_| "no pong within the bounded wait".to_string())?
}

/// Which limit governs this connection, observed on the server's rate-limit metric only.
async fn classify(server: &Server, client: &mut Client, tag: &mut u64) -> Result<SCfg, String> {
    let limited = || server.metrics().server.bytes_rx_ratelimited_total.get();
    // let a loose bucket refill completely (60 000 B at 3 MB/s = 20 ms)
    tokio::time::sleep(Duration::from_millis(60)).await;
    let m0 = limited();
    *tag += 1;
    flood(client, 20, *tag).await?;
    if limited() > m0 {
        return Ok(SCfg::Tight);
    }
    *tag += 1;
    flood(client, 150, *tag).await?;
    if limited() > m0 {
        return Ok(SCfg::Loose);
    }
    Ok(SCfg::None)
}

fn run_s(cfg0: SCfg, ops: &[SOp]) -> Exec {
    let rt = tokio::runtime::Builder::new_current_thread().enable_all().build().expect("runtime");
    rt.block_on(async move {
        let mut ex = Exec::default();
        let infra = |why: String| Exec { infra: Some(why), ..Default::default() };
        let mut relay = RelayConfig::new((std::net::Ipv4Addr::LOCALHOST, 0));
        relay.limits.client_rx = scfg_limit(cfg0);
        let mut config = ServerConfig::default();
        config.relay = Some(relay);
        let server = match tokio::time::timeout(WAIT, Server::spawn(config)).await {
            Ok(Ok(s)) => s,
            Ok(Err(e)) => return infra(format!("spawn: {e}")),
            Err(_) => return infra("spawn timed out".into()),
        };
        let Some(addr) = server.http_addr() else { return infra("no http addr".into()) };
        let Some(service) = server.relay_service().cloned() else { return infra("no relay service".into()) };
        let url: url::Url = format!("http://{addr}").parse().expect("url");
        let mut clients: [Option<Client>; 4] = [None, None, None, None];
        // the statement's view: the limit most recently set; what each connection was told
        let mut latest = cfg0;
        // per client: (limit it must work with, was that limit set after it connected?)
        let mut expect: [Option<(SCfg, bool)>; 4] = [None; 4];
        let mut out: Vec<String> = Vec::new();
        let mut tag = 0u64;
        let mut idle_set_then_connect = false;
        let mut live_update = false;
        for (i, op) in ops.iter().enumerate() {
            match op {
                SOp::Set(c) => {
                    service.set_client_rate_limit(scfg_limit(*c));
                    latest = *c;
                    if clients.iter().all(|c| c.is_none()) {
                        idle_set_then_connect = true;
                    }
                    // an invalid live update is ignored by connected limiters
                    if *c != SCfg::Invalid {
                        for e in expect.iter_mut().flatten() {
                            *e = (*c, true);
                            live_update = true;
                        }
                    }
                    out.push("ok".into());
                }
                SOp::Connect(k) => {
                    if clients[*k].is_some() {
                        out.push("noop".into());
                        continue;
                    }
                    let key = iroh_base::SecretKey::from_bytes(&[0x30 + *k as u8; 32]);
                    let builder = ClientBuilder::new(url.clone(), key, iroh_dns::dns::DnsResolver::new())
                        .tls_client_config(iroh_relay::tls::make_dangerous_client_config());
                    match tokio::time::timeout(WAIT, builder.connect()).await {
                        Err(_) => return infra(format!("op {i}: connect timed out")),
                        Ok(Ok(c)) => {
                            clients[*k] = Some(c);
                            expect[*k] = Some((latest, false));
                            if latest == SCfg::Invalid {
                                ex.violation("invalid-config-accepted", format!("op {i}: connection accepted under an invalid limit"));
                            }
                            out.push("ok".into());
                        }
                        Ok(Err(e)) => {
                            if latest != SCfg::Invalid {
                                return infra(format!("op {i}: connect failed: {e}"));
                            }
                            out.push("refused".into());
                        }
                    }
                }
                SOp::Disconnect(k) => match clients[*k].take() {
                    None => out.push("noop".into()),
                    Some(mut c) => {
                        let _ = tokio::time::timeout(WAIT, c.close()).await;
                        drop(c);
                        expect[*k] = None;
                        // let the server notice, so that "no client connected" is true
                        let t0 = std::time::Instant::now();
                        while server.metrics().server.disconnects.get() < server.metrics().server.accepts.get()
                            - clients.iter().filter(|c| c.is_some()).count() as u64
                            && t0.elapsed() < Duration::from_secs(2)
                        {
                            tokio::time::sleep(Duration::from_millis(5)).await;
                        }
                        out.push("ok".into());
                    }
                },
                SOp::Probe(k) => {
                    let Some(client) = clients[*k].as_mut() else {
                        out.push("noconn".into());
                        continue;
                    };
                    let (want, live) = expect[*k].expect("connected");
                    let mut got = match classify(&server, client, &mut tag).await {
                        Ok(g) => g,
                        Err(e) => return infra(format!("op {i}: probe: {e}")),
                    };
                    if got != want {
                        // timing-dependent classification: look once more before judging
                        tokio::time::sleep(Duration::from_millis(150)).await;
                        got = match classify(&server, client, &mut tag).await {
                            Ok(g) => g,
                            Err(e) => return infra(format!("op {i}: probe: {e}")),
                        };
                    }
                    if got != want {
                        ex.violation(
                            if live { "live-limit-update-not-applied" } else { "limit-not-applied-to-new-connection" },
                            format!("op {i}: client {k} is governed by {got:?}, the limit in force is {want:?}"),
                        );
                    }
                    out.push(match got {
                        SCfg::None => "none".into(),
                        SCfg::Tight => "tight".into(),
                        SCfg::Loose => "loose".into(),
                        SCfg::Invalid => "other".into(),
                    });
                }
            }
        }
        for c in clients.iter_mut() {
            if let Some(mut c) = c.take() {
                let _ = tokio::time::timeout(Duration::from_secs(1), c.close()).await;
            }
        }
        let _ = tokio::time::timeout(Duration::from_secs(3), server.shutdown()).await;
        ex.out = out.join(" ");
        ex.nontrivial = out.iter().any(|o| o == "tight" || o == "loose");
        ex.tags.push("S-server".into());
        if idle_set_then_connect {
            ex.tags.push("S-set-while-idle".into());
        }
        if live_update {
            ex.tags.push("S-live-update".into());
        }
        ex
    })
}

fn gen_s(rng: &mut Rng) -> String {
    let pick = |rng: &mut Rng| *rng.pick(&["n", "t", "t", "l", "l"]);
    let cfg0 = if rng.chance(1, 12) { "i" } else { pick(rng) };
    let mut ops: Vec<String> = Vec::new();
    let mut conn = [false; 4];
    // most cases contain the pattern "set while nobody is connected, then connect and probe"
    if rng.chance(3, 4) {
        if rng.bool() {
            ops.push("c 0".into());
            ops.push("x 0".into());
        }
        ops.push(format!("s {}", pick(rng)));
        ops.push("c 1".into());
        conn[1] = true;
        ops.push("p 1".into());
    }
    for _ in 0..rng.range(1, 4) {
        let k = rng.usize_below(3);
        match rng.below(8) {
            0..=1 => ops.push(format!("s {}", if rng.chance(1, 10) { "i" } else { pick(rng) })),
            2..=3 => {
                if conn[k] {
                    ops.push(format!("p {k}"));
                } else {
                    ops.push(format!("c {k}"));
                    conn[k] = true;
                    ops.push(format!("p {k}"));
                }
            }
            4 => {
                ops.push(format!("x {k}"));
                conn[k] = false;
            }
            _ => ops.push(format!("p {k}")),
        }
    }
    format!("S {cfg0} {}", ops.join(";"))
}

fn pick_i64(rng: &mut Rng) -> i64 {
    match rng.below(14) {
        0 => i64::MAX,
        1 => i64::MAX - 1,
        2 => (1 << 32) - 1,
        3 => 1 << 32,
        4 => 0,
        5 => -1,
        6 => i64::MIN,
        7 => *rng.pick(&[1, 2, 9, 10, 11, 99, 100, 101, 999, 1000, 1001]),
        8 => rng.range(1, 1 << 40) as i64,
        9 => (rng.u64() >> 1) as i64,
        _ => rng.range(1, 100_000) as i64,
    }
}

fn pick_period(rng: &mut Rng) -> u128 {
    match rng.below(16) {
        0 => 0,
        1 => u32::MAX as u128,
        2 => 1 << 32,
        3 => (1 << 32) + 1,
        4 => (1u128 << 64) + 1,
        5 => (1u128 << 63) + rng.range(0, 1000) as u128,
        6 => u64::MAX as u128 * 1000 + 999,
        7 => rng.range(1, 1 << 34) as u128,
        8 | 9 => *rng.pick(&[1, 2, 9, 10, 11, 999, 1000, 1001, 60_000]),
        _ => 100,
    }
}

fn pick_bytes(rng: &mut Rng, scale: u64) -> u64 {
    match rng.below(14) {
        0 => 0,
        1 => 1,
        2 => u64::MAX,
        3 => i64::MAX as u64,
        4 => i64::MAX as u64 + 1,
        5 => (1 << 32) - 1,
        6 => rng.u64(),
        7 | 8 => rng.range(0, scale.saturating_mul(3).max(1)),
        _ => rng.range(0, scale.max(1)),
    }
}

fn pick_advance(rng: &mut Rng, period: u64) -> u64 {
    match rng.below(14) {
        0 => 0,
        1 => 1,
        2 => period.saturating_sub(1),
        3 => period,
        4 => period + 1,
        5 => (1 << 32) - 1,
        6 => 1 << 32,
        7 => (1u64 << 32) + period.min(1 << 20) + 5,
        8 => rng.range(0, 200_000),
        9 => rng.range(0, 10u64.pow(13)),
        _ => rng.range(0, period.saturating_mul(12).min(10u64.pow(12)).max(1)),
    }
}

fn gen_b(rng: &mut Rng, len_cap: u64) -> String {
    let realistic = rng.chance(3, 5);
    let (max, bps, pms): (i64, i64, u128) = if realistic {
        let bps = *rng.pick(&[10i64, 11, 99, 1000, 12_345, 123_456, 4_000_000, (1 << 32) - 1]);
        let max = if rng.bool() { (bps / 10).max(1) } else { rng.range(1, 1 << 20) as i64 };
        (max, bps, if rng.chance(4, 5) { 100 } else { pick_period(rng) })
    } else {
        (pick_i64(rng), pick_i64(rng), pick_period(rng))
    };
    let scale = (max.max(1) as u64).min(1 << 40);
    let period = (pms.min(1 << 40) as u64).max(1);
    let n = rng.range(1, len_cap);
    let mut ops = Vec::new();
    for _ in 0..n {
        ops.push(match rng.below(10) {
            0..=2 => format!("a {}", if realistic { pick_advance(rng, period).min(500_000) } else { pick_advance(rng, period) }),
            3..=4 => format!("c {}", if realistic { pick_bytes(rng, scale).min(1 << 30) } else { pick_bytes(rng, scale) }),
            _ => format!("r {}", if realistic { rng.range(0, scale.saturating_mul(2).max(2)) } else { pick_bytes(rng, scale) }),
        });
    }
    format!("B {max} {bps} {pms} {}", ops.join(";"))
}

fn gen_cfg(rng: &mut Rng) -> String {
    if rng.chance(1, 8) {
        return "none".into();
    }
    let bps: u64 = match rng.below(10) {
        0 => *rng.pick(&[1, 2, 9]),
        1 => *rng.pick(&[10, 11, 19, 20]),
        2 => u32::MAX as u64,
        3 => rng.range(1, u32::MAX as u64),
        _ => *rng.pick(&[100, 1000, 12_345, 123_456, 1_000_000]),
    };
    let burst = match rng.below(6) {
        0 | 1 => "-".to_string(),
        2 => "1".to_string(),
        3 => u32::MAX.to_string(),
        _ => rng.range(1, (bps * 2).min(u32::MAX as u64)).to_string(),
    };
    format!("{bps},{burst}")
}

fn gen_r(rng: &mut Rng, len_cap: u64) -> String {
    let n = rng.range(2, len_cap);
    let mut ops = vec![format!("d {}", rng.range(1, 1 << 13))];
    for _ in 0..n {
        ops.push(match rng.below(20) {
            0..=2 => format!("a {}", pick_advance(rng, 100).min(if rng.chance(1, 10) { u64::MAX } else { 100_000 })),
            3..=5 => format!("d {}", match rng.below(50) { 0..=2 => 0, 3..=5 => 1, 6 => rng.range(0, 1 << 17), 7..=11 => rng.range(0, 20_000), _ => rng.range(0, 3_000) }),
            6 if rng.chance(1, 3) => if rng.chance(2, 3) { "e".to_string() } else { format!("x {}", rng.below(4)) },
            6..=7 => format!("s {}", gen_cfg(rng)),
            _ => format!(
                "w {} {}",
                match rng.below(6) { 0 => 0, 1 => 99, 2 => 100, 3 => rng.range(0, 100_000_000), _ => rng.range(0, 5_000) },
                match rng.below(8) { 0 => 0, 1 => 1, 2 => 1 << 20, 3 => 4096, _ => rng.range(1, 10_000) }
            ),
        });
    }
    format!("R {} {}", gen_cfg(rng), ops.join(";"))
}

impl Prop for C09 {
    fn id(&self) -> &'static str {
        "C09"
    }

    fn generate(&mut self, rng: &mut Rng, tier: Tier, n: usize, out: &mut Vec<String>) {
        for s in [
            // the repo's own edge configurations
            "B 9223372036854775807 9223372036854775807 100 a 100;c 1000000;a 100;c 1000000",
            "B 12345 123456 100 c 18446744073709551615;a 100000;c 18446744073709551615",
            // D3 and its siblings (fixed): long idle with huge refill, saturated debt with refill 1,
            // periods beyond u32 ms
            "B 9223372036854775807 9223372036854775807 100 a 200000;c 1",
            "B 1 1000 1 c 18446744073709551615;c 18446744073709551615",
            "B 1000 1000 4294967297 r 1000;a 10;r 999",
            "B 1000 1000 18446744073709551617 a 1000;c 1",
            "B 1 1 1099511627776001 c 18446744073709551615",
            // plain throttling
            "B 1000 1000 100 c 1000;a 100;c 1;a 250;r 500;r 1;a 1000;r 1",
            "R 1000,- d 5000;w 0 4096;w 0 4096;w 10000 50;s 20,1;w 0 10;w 5000 10",
            "R none d 100000;w 0 4096;s 12345,1234;w 0 4096;w 0 4096;w 100000 4096;s 5,-;w 100000 4096;s none;w 0 4096",
            "R 9,- d 1",
            "R 4294967295,4294967295 d 1048576;w 0 1048576;a 4294967296;d 1048576;w 0 1048576",
            // content, EOF and errors: EOF waits for the throttle deadline, then errors pass at once
            "R 1000,- d 5000;w 0 4096;w 0 4096;w 10000 50;s 20,1;w 0 10;w 5000 10;e;w 100000 4096;w 100000 4096;w 0 0;x 2;w 100000 7",
            "R none d 10;e;w 0 4;w 0 4;w 0 4;w 0 4;x 0;w 5 4",
            "R 100,10 d 300;x 3;w 0 300;w 0 8;w 2999 8;w 1 8;w 0 8",
        ] {
            out.push(s.to_string());
        }
        // the service cell: a limit set while nobody is connected governs the next connection
        for s in [
            "S n s t;c 0;p 0",
            "S t s n;c 0;p 0",
            "S n c 0;x 0;s l;c 1;p 1;s t;p 1",
            "S l c 0;p 0;s t;p 0;x 0;s n;c 0;p 0",
            "S t s i;c 0;s l;c 0;p 0;s i;p 0",
        ] {
            out.push(s.to_string());
        }
        for s in ["", "B", "B 1 1 1", "B 1 1 x a 1", "B 9223372036854775808 1 1 a 1", "R 0,- d 1", "R 1,0 d 1", "R 1 d 1", "R none w 1", "R none w 1 1048577", "R none d 1048577", "R none x 4", "R none e 1", "Q 1", "B 1 1 1 a 1;;a 1"] {
            out.push(s.to_string());
        }
        let len_cap = if tier == Tier::Thorough { 60 } else { 30 };
        // real-server cases run in real time (≈ 0.3 s each): a fixed small share
        let n_server = if tier == Tier::Thorough { 150 } else { 16 };
        for _ in 0..n_server {
            if out.len() < n {
                let c = gen_s(rng);
                out.push(c);
            }
        }
        while out.len() < n {
            let c = if rng.bool() { gen_b(rng, len_cap) } else { gen_r(rng, len_cap) };
            out.push(c);
        }
    }

    fn execute(&mut self, payload: &str) -> Exec {
        match parse(payload) {
            None => Exec::new("bad-input").tag("bad-input"),
            Some(Case::B { max, bps, pms, ops }) => run_b(max, bps, pms, &ops),
            Some(Case::R { cfg, ops }) => run_r(cfg, &ops),
            Some(Case::S { cfg, ops }) => run_s(cfg, &ops),
        }
    }
}

fn main() {
    run(C09);
}
