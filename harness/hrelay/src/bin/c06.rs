//! C06 — relay connection registry: newest connection wins, older ones resume.
//!
//! payload: a registry script (grammar in `../relayreg.rs`), e.g.
//!   `2;reg 0 2;reg 1 2;send 1 0 s 0 0 aabb;reg 0 1;close 2`
//! output : per operation (joined by `|`): result, frames every connection received,
//!   connections whose actor ended, registry snapshot (`R id:active/inactive…`), `sent_to` (`T`).
//!
//! The script drives the REAL `Clients` registry through its public API on a current-thread
//! runtime; every operation is run to quiescence, so one script = one schedule (each case is
//! executed twice and must reproduce, otherwise the output is `nondeterministic…`).
//!
//! Oracle (independent of the Lean model): the property statement evaluated on what was
//! observed —
//!  * `registry-mismatch`: the entry of an id exists iff one of its connections is open, the
//!    active connection is the most recently registered open one, the inactive ones are the
//!    others in registration order;
//!  * `misrouted`: a datagram sent to an id arrives exactly on the connection that was active;
//!  * `notice-mismatch`: displaced ⇒ told "same endpoint id connected", promoted ⇒ told
//!    "healthy" (V1: as Health text), entry removed ⇒ exactly the peers in its `sent_to` set are
//!    told "endpoint gone" — each iff the receiving queue has room — and no other notice;
//!  * `not-promoted-after-exit`: timed cases (`cap:T` = write timeout, `slow c ms`, paused clock) —
//!    a connection whose client stopped reading (never accepts a frame within the write timeout)
//!    and that was written to must have left the registry by the time the relay is quiescent
//!    again: its actor hit the write timeout, so it unregisters at once, whatever is still unsent,
//!    and the previous connection of the id is promoted (checked by `registry-mismatch`).
#[path = "../relayreg.rs"]
mod relayreg;
use relayreg::*;
use std::collections::BTreeMap;
use vcommon::*;

struct C06;

/// Generator bookkeeping: which connections the script has created and (roughly) killed.
#[derive(Default)]
struct Gen {
    owner: Vec<usize>,
    dead: Vec<bool>,
    stalled: Vec<bool>,
}

impl Gen {
    fn alive(&self) -> Vec<usize> {
        (0..self.owner.len()).filter(|c| !self.dead[*c]).collect()
    }
    fn reg(&mut self, id: usize) -> usize {
        self.owner.push(id);
        self.dead.push(false);
        self.stalled.push(false);
        self.owner.len() - 1
    }
}

fn small_tok(rng: &mut Rng) -> String {
    match rng.below(8) {
        0 => format!("p{}.{}", rng.range(33, 1500), rng.below(1000)),
        _ => {
            let n = rng.range(1, 4) as usize;
            hex(&rng.bytes(n))
        }
    }
}

fn send_op(rng: &mut Rng, c: usize, dst: usize) -> Op {
    let batch = rng.chance(1, 4);
    Op::Send {
        c,
        dst,
        batch,
        ecn: rng.below(4) as u8,
        seg: if batch { rng.range(0, 3) as u16 } else { 0 },
        tok: small_tok(rng),
    }
}

fn random_script(rng: &mut Rng, max_ops: usize) -> Script {
    let cap = *rng.pick(&[1usize, 1, 2, 2, 3, 0]);
    let mut g = Gen::default();
    let mut ops = Vec::new();
    // two peers and a first connection of the main id
    let npeers = rng.range(1, 2) as usize;
    for p in 0..npeers {
        g.reg(p + 1);
        ops.push(Op::Reg { id: p + 1, v1: rng.chance(1, 4) });
    }
    let nops = rng.range(4, max_ops as u64) as usize;
    while ops.len() < nops {
        let alive = g.alive();
        let pick_conn = |rng: &mut Rng, g: &Gen| -> usize {
            let alive = g.alive();
            if alive.is_empty() || rng.chance(1, 12) {
                rng.usize_below(g.owner.len().max(1) + 1)
            } else {
                *rng.pick(&alive)
            }
        };
        let main_conns: Vec<usize> = alive.iter().copied().filter(|c| g.owner[*c] == 0).collect();
        match rng.below(100) {
            0..=24 => {
                // register: mostly the main id, up to ~4 open connections
                let id = if main_conns.len() < 4 && rng.chance(3, 4) { 0 } else { rng.range(0, 3) as usize };
                g.reg(id);
                ops.push(Op::Reg { id, v1: rng.chance(1, 4) });
            }
            25..=49 => {
                let c = pick_conn(rng, &g);
                let dst = if rng.chance(2, 3) { 0 } else { rng.range(0, 4) as usize };
                ops.push(send_op(rng, c, dst));
            }
            50..=64 => {
                let c = if !main_conns.is_empty() && rng.chance(2, 3) { *rng.pick(&main_conns) } else { pick_conn(rng, &g) };
                if c < g.dead.len() && !g.stalled[c] {
                    g.dead[c] = true;
                }
                ops.push(if rng.chance(1, 6) { Op::Bad { c } } else { Op::Close { c } });
            }
            65..=74 => {
                let id = if rng.chance(2, 3) { 0 } else { rng.range(0, 3) as usize };
                let sel = match rng.below(4) {
                    0 => DiscSel::All,
                    1 => DiscSel::Unknown,
                    _ => DiscSel::Conn(pick_conn(rng, &g)),
                };
                match &sel {
                    DiscSel::All => {
                        for c in 0..g.owner.len() {
                            if g.owner[c] == id && !g.stalled[c] {
                                g.dead[c] = true;
                            }
                        }
                    }
                    DiscSel::Conn(c) if *c < g.owner.len() && g.owner[*c] == id && !g.stalled[*c] => g.dead[*c] = true,
                    _ => {}
                }
                ops.push(Op::Disc { id, sel });
            }
            75..=82 => {
                let c = pick_conn(rng, &g);
                if c < g.stalled.len() {
                    g.stalled[c] = true;
                }
                ops.push(Op::Stall { c });
            }
            83..=90 => {
                let st: Vec<usize> = (0..g.owner.len()).filter(|c| g.stalled[*c]).collect();
                let c = if st.is_empty() { pick_conn(rng, &g) } else { *rng.pick(&st) };
                if c < g.stalled.len() {
                    g.stalled[c] = false;
                }
                ops.push(Op::Unstall { c });
            }
            91..=94 => {
                let c = pick_conn(rng, &g);
                let mut d = [0u8; 8];
                rng.fill(&mut d);
                ops.push(if rng.bool() { Op::Ping { c, data: d } } else { Op::Pong { c, data: d } });
            }
            95..=97 => {
                let id = rng.range(0, 2) as usize;
                for d in g.dead.iter_mut() {
                    *d = true;
                }
                g.reg(id);
                ops.push(Op::ShutReg { id, v1: rng.chance(1, 4) });
            }
            _ => {
                for d in g.dead.iter_mut() {
                    *d = true;
                }
                ops.push(Op::Shutdown);
            }
        }
        // after a change of the main id, often probe who is active now
        if matches!(ops.last(), Some(Op::Reg { .. } | Op::Close { .. } | Op::Disc { .. } | Op::Unstall { .. }))
            && rng.chance(1, 2)
        {
            let senders: Vec<usize> = g.alive().into_iter().filter(|c| g.owner[*c] != 0 && !g.stalled[*c]).collect();
            if let Some(c) = senders.first() {
                ops.push(send_op(rng, *c, 0));
            }
        }
    }
    Script { cap, write_timeout_ms: None, ops }
}

/// 2–3 connections of endpoint 0 and a peer; the active one's client stops reading (or is merely
/// slow, within the budget) and gets a burst; then probes show who is active.
fn timed_case(rng: &mut Rng) -> String {
    let t = *rng.pick(&[20u64, 50, 100]);
    let nmain = rng.range(2, 3) as usize;
    let mut ops: Vec<String> = Vec::new();
    for _ in 0..nmain {
        ops.push(format!("reg 0 {}", rng.range(1, 2)));
    }
    let peer = nmain;
    ops.push("reg 1 2".into());
    if rng.chance(1, 2) {
        // the main endpoint has sent to the peer: a peer-gone notice is owed when its entry goes
        ops.push(format!("send {} 1 s 0 0 {}", nmain - 1, hex(&rng.bytes(2))));
    }
    let mut dead = 0;
    let rounds = rng.range(1, nmain as u64) as usize;
    for r in 0..rounds {
        let active = nmain - 1 - dead;
        let never = rng.chance(3, 4);
        let ms = if never { 100_000 } else { rng.range(t / 2, t - 1) };
        ops.push(format!("slow {active} {ms}"));
        let burst = rng.range(1, 8);
        if rng.bool() {
            ops.push(format!("stall {peer}"));
            for i in 0..burst {
                ops.push(format!("send {peer} 0 s 0 0 {}", hex(&[r as u8, i as u8])));
            }
            ops.push(format!("unstall {peer}"));
        } else {
            for i in 0..burst {
                ops.push(format!("send {peer} 0 s 0 0 {}", hex(&[r as u8, i as u8])));
            }
        }
        if never {
            dead += 1;
        } else {
            ops.push(format!("slow {active} 0"));
        }
        ops.push(format!("send {peer} 0 s 1 0 {}", hex(&rng.bytes(3))));
    }
    format!("{}:{t};{}", rng.pick(&[2usize, 4, 16]), ops.join(";"))
}

/// The alphabet of the exhaustive small-scope enumeration (after the prelude `reg 1 2`).
fn alphabet() -> Vec<Op> {
    let send = |c: usize, dst: usize, t: &str| Op::Send { c, dst, batch: false, ecn: 0, seg: 0, tok: t.into() };
    vec![
        Op::Reg { id: 0, v1: false },
        Op::Reg { id: 0, v1: true },
        Op::Close { c: 1 },
        Op::Close { c: 2 },
        Op::Close { c: 3 },
        Op::Disc { id: 0, sel: DiscSel::All },
        Op::Disc { id: 0, sel: DiscSel::Conn(1) },
        send(0, 0, "aa"),
        send(1, 1, "bb"),
        Op::Close { c: 0 },
        Op::Stall { c: 1 },
        Op::Unstall { c: 1 },
        Op::ShutReg { id: 0, v1: false },
    ]
}

impl Prop for C06 {
    fn id(&self) -> &'static str {
        "C06"
    }

    fn generate(&mut self, rng: &mut Rng, tier: Tier, n: usize, out: &mut Vec<String>) {
        // fixed scenarios: three connections of one id, LIFO promotion, peer-gone, stale unregister
        for s in [
            "2;reg 0 2;reg 0 1;reg 0 2;reg 1 2;send 3 0 s 0 0 aa;close 2;send 3 0 s 0 0 bb;close 1;send 3 0 s 0 0 cc;close 0;send 3 0 s 0 0 dd",
            "2;reg 0 2;reg 0 2;reg 0 2;reg 1 2;close 1;close 2;send 3 0 s 1 0 aa;close 0",
            "1;reg 0 2;reg 1 2;reg 2 1;send 0 1 s 0 0 aa;send 0 2 s 0 0 bb;send 1 0 s 0 0 cc;close 0;close 1;close 2",
            "2;reg 0 2;reg 0 1;shutreg 0 2;send 2 0 s 0 0 aa;reg 0 2;close 2;close 3",
            "1;reg 0 2;reg 1 2;stall 0;send 1 0 s 0 0 aa;reg 0 2;reg 0 2;close 1;unstall 0",
            "1;reg 1 2;reg 0 2;send 1 1 s 0 0 aa;stall 0;reg 1 2;close 2;close 1;unstall 0",
            "2;reg 0 2;reg 0 2;reg 1 2;disc 0 0;disc 0 1;send 2 0 s 0 0 aa",
            "2;reg 0 2;reg 0 2;stall 1;disc 0 *;reg 0 2;unstall 1;close 2",
        ] {
            out.push(s.to_string());
        }
        // timed: the ACTIVE connection's client stops reading and gets a burst — its actor hits the
        // write timeout (50 ms), must unregister at once, the previous connection resumes
        for s in [
            "4:50;reg 0 2;reg 0 2;reg 1 2;slow 1 100000;stall 2;send 2 0 s 0 0 aa;send 2 0 s 0 0 bb;send 2 0 s 0 0 cc;unstall 2;send 2 0 s 0 0 dd;close 0;send 2 0 s 0 0 ee",
            "4:50;reg 0 1;reg 0 2;reg 0 2;reg 1 2;slow 2 100000;slow 1 100000;send 3 0 s 0 0 aa;send 3 0 s 0 0 bb;send 3 0 s 0 0 cc",
            "4:50;reg 0 2;reg 1 2;send 0 1 s 0 0 aa;slow 0 100000;send 1 0 s 0 0 bb;send 1 0 s 0 0 cc",
            "4:50;reg 0 2;reg 0 2;reg 1 2;slow 1 30;stall 2;send 2 0 s 0 0 aa;send 2 0 s 0 0 bb;send 2 0 s 0 0 cc;unstall 2;slow 1 0;send 2 0 s 0 0 dd",
            "4;reg 0 2;reg 0 2;reg 1 2;slow 1 2001;send 2 0 s 0 0 aa;send 2 0 s 0 0 bb",
        ] {
            out.push(s.to_string());
        }
        let ntimed = if tier == Tier::Thorough { 200 } else { 25 };
        for _ in 0..ntimed {
            out.push(timed_case(rng));
        }
        // a queue of the crate's default depth filled exactly to the brim
        {
            let mut ops = vec![
                Op::Reg { id: 0, v1: false },
                Op::Reg { id: 1, v1: false },
                Op::Stall { c: 0 },
            ];
            let depth = iroh_relay::protos::relay::PER_CLIENT_SEND_QUEUE_DEPTH;
            for i in 0..depth + 2 {
                ops.push(Op::Send { c: 1, dst: 0, batch: false, ecn: 0, seg: 0, tok: hex(&(i as u16).to_be_bytes()) });
            }
            ops.push(Op::Reg { id: 0, v1: false });
            ops.push(Op::Unstall { c: 0 });
            out.push(Script { cap: 0, write_timeout_ms: None, ops }.render());
        }
        // exhaustive small scope
        let alpha = alphabet();
        let depth = if tier == Tier::Thorough { 4 } else { 2 };
        let mut stack: Vec<Vec<usize>> = vec![vec![]];
        while let Some(seq) = stack.pop() {
            if !seq.is_empty() {
                let mut ops = vec![Op::Reg { id: 1, v1: false }];
                ops.extend(seq.iter().map(|i| alpha[*i].clone()));
                out.push(Script { cap: 1, write_timeout_ms: None, ops }.render());
            }
            if seq.len() < depth {
                for i in 0..alpha.len() {
                    let mut s = seq.clone();
                    s.push(i);
                    stack.push(s);
                }
            }
        }
        // random scripts
        let max_ops = if tier == Tier::Thorough { 40 } else { 28 };
        let target = out.len() + n;
        while out.len() < target {
            out.push(random_script(rng, max_ops).render());
        }
    }

    fn execute(&mut self, payload: &str) -> Exec {
        let Some(script) = Script::parse(payload) else {
            return Exec::new("bad-input").tag("bad-input");
        };
        let tr = match run_checked(&script) {
            Ok(tr) => tr,
            Err(e) => return Exec::new(e).tag("nondeterministic"),
        };
        let mut ex = Exec::new(tr.render());
        oracle(&script, &tr, &mut ex);
        ex
    }
}

#[derive(Clone, Copy, PartialEq, Eq, Debug)]
enum Notice {
    Healthy,
    SameId,
    Gone(usize),
}

fn notice_of(tr: &Trace, c: usize, f: &Frame) -> Option<Result<Notice, String>> {
    let v1 = tr.v1[c];
    match f {
        Frame::Status(n) => Some(match (v1, n) {
            (false, 0) => Ok(Notice::Healthy),
            (false, 1) => Ok(Notice::SameId),
            _ => Err(format!("status frame {n} on a v{} connection", if v1 { 1 } else { 2 })),
        }),
        Frame::Health(t) => Some(match (v1, HEALTH_TEXTS.iter().position(|x| x.as_bytes() == &t[..])) {
            (true, Some(0)) => Ok(Notice::Healthy),
            (true, Some(1)) => Ok(Notice::SameId),
            _ => Err("unexpected health frame".into()),
        }),
        Frame::Gone(k) => Some(match (0..NUM_IDS).find(|i| key(*i).as_bytes() == k) {
            Some(i) => Ok(Notice::Gone(i)),
            None => Err("endpoint-gone for an unknown id".into()),
        }),
        Frame::Other(_) | Frame::Ping(_) => Some(Err("unexpected frame".into())),
        Frame::Datagrams { .. } | Frame::Pong(_) => None,
    }
}

fn oracle(script: &Script, tr: &Trace, ex: &mut Exec) {
    let cap = if script.cap == 0 { iroh_relay::protos::relay::PER_CLIENT_SEND_QUEUE_DEPTH } else { script.cap };
    let mut open: BTreeMap<usize, Vec<usize>> = BTreeMap::new(); // id -> open connections, oldest first
    let mut gone_conn: Vec<bool> = Vec::new(); // actor ended
    let mut stalled: Vec<bool> = Vec::new();
    let mut doomed: Vec<bool> = Vec::new(); // closed / cancelled while stalled: exits on unstall without delivering
    let mut queued: Vec<Vec<Notice>> = Vec::new(); // notices waiting in a stalled connection's queue
    let mut queued_pkts: Vec<usize> = Vec::new();
    let mut slow: Vec<u64> = Vec::new(); // ms the client takes to accept one frame
    // frames a stalled connection's client has sent and the relay has not read yet:
    // Some((dst, forwardable)) = datagram, None = end of stream / undecodable frame
    let mut backlog: Vec<Vec<Option<(usize, bool)>>> = Vec::new();
    let mut cancelled: Vec<bool> = Vec::new();
    let mut prev = Snapshot::default();
    let mut nconn = 0usize;
    let mut promoted_seen = false;
    let mut displaced_seen = false;
    let mut gone_seen = false;
    for (i, st) in tr.steps.iter().enumerate() {
        if st.timeout {
            ex.violation("timeout", format!("step {i} did not reach quiescence"));
            return;
        }
        let mut expected: BTreeMap<usize, Vec<Notice>> = BTreeMap::new();
        let shutdown_step = matches!(st.op, Op::Shutdown | Op::ShutReg { .. });
        if shutdown_step {
            open.clear();
        }
        // -- what the operation itself does
        match &st.op {
            Op::Reg { id, .. } | Op::ShutReg { id, .. } => {
                let c = nconn;
                nconn += 1;
                gone_conn.push(false);
                stalled.push(false);
                doomed.push(false);
                queued.push(Vec::new());
                queued_pkts.push(0);
                slow.push(0);
                backlog.push(Vec::new());
                cancelled.push(false);
                let l = open.entry(*id).or_default();
                if let Some(&old) = l.last() {
                    expected.entry(old).or_default().push(Notice::SameId);
                    displaced_seen = true;
                }
                l.push(c);
            }
            Op::Stall { c } if *c < nconn && !gone_conn[*c] => stalled[*c] = true,
            Op::Slow { c, ms } if *c < nconn => slow[*c] = *ms,
            Op::Close { c } | Op::Bad { c } if *c < nconn && stalled[*c] => {
                doomed[*c] = true;
                backlog[*c].push(None);
            }
            Op::Disc { id, sel } => {
                // the result tells whether a matching connection is registered
                let l = open.get(id).cloned().unwrap_or_default();
                let want = match sel {
                    DiscSel::All => !l.is_empty(),
                    DiscSel::Conn(c) => l.contains(c),
                    DiscSel::Unknown => false,
                };
                if (st.res == "t") != want {
                    ex.violation("registry-mismatch", format!("step {i}: disconnect returned {} but open={l:?}", st.res));
                }
                for c in l {
                    let hit = match sel {
                        DiscSel::All => true,
                        DiscSel::Conn(x) => *x == c,
                        DiscSel::Unknown => false,
                    };
                    if hit && stalled[c] {
                        doomed[c] = true;
                        cancelled[c] = true;
                    }
                }
            }
            _ => {}
        }
        // -- datagram routing: a send by a live, unstalled sender is delivered in this very step
        //    on the connection that is active for the destination, and nowhere else
        if let Op::Send { c, dst, batch, tok, .. } = &st.op {
            let sender_ok = *c < nconn && !gone_conn[*c] && !stalled[*c];
            let len = tok_len(tok);
            let decodable = 32 + 1 + if *batch { 2 } else { 0 } + len <= 65536;
            let seg_on = *batch && matches!(&st.op, Op::Send { seg, .. } if *seg != 0);
            let forwardable = len != 0 && 1 + 32 + 1 + if seg_on { 2 } else { 0 } + len <= 65536;
            if *c < nconn && !gone_conn[*c] && stalled[*c] {
                backlog[*c].push(if decodable { Some((*dst, forwardable)) } else { None });
            }
            if sender_ok && decodable {
                let target = prev.entries.get(dst).map(|e| e.0);
                let mut got: Vec<usize> = Vec::new();
                for (r, fs) in &st.frames {
                    for f in fs {
                        if matches!(f, Frame::Datagrams { .. }) {
                            got.push(*r);
                        }
                    }
                }
                let want: Vec<usize> = match target {
                    Some(t) if forwardable && !stalled[t] => vec![t],
                    _ => vec![],
                };
                if got != want {
                    ex.violation("misrouted", format!("step {i}: datagram for id {dst} arrived on {got:?}, active was {target:?}"));
                }
                if let Some(t) = target {
                    if forwardable && stalled[t] && queued_pkts[t] < cap {
                        queued_pkts[t] += 1;
                    }
                }
            }
        }
        // -- a resumed connection first reads what its client sent meanwhile (unless cancelled);
        //    what the relay accepts of that adds to the sender's sent_to set within this step
        let mut extra_sent: BTreeMap<usize, Vec<usize>> = BTreeMap::new();
        if let Op::Unstall { c } = &st.op {
            if *c < nconn && stalled[*c] && !cancelled[*c] {
                let mut room: BTreeMap<usize, usize> = BTreeMap::new();
                for item in std::mem::take(&mut backlog[*c]) {
                    let Some((dst, forwardable)) = item else { break };
                    let Some((t, _)) = prev.entries.get(&dst) else { continue };
                    if !forwardable {
                        continue;
                    }
                    let r = room.entry(*t).or_insert_with(|| if stalled[*t] && *t != *c { cap.saturating_sub(queued_pkts[*t]) } else { cap });
                    if *r > 0 {
                        *r -= 1;
                        if stalled[*t] && *t != *c {
                            queued_pkts[*t] += 1;
                        }
                        extra_sent.entry(tr.owner[*c]).or_default().push(dst);
                    }
                }
            }
        }
        // -- a client that does not accept a frame within the write timeout: the actor's write
        //    times out, the actor exits and unregisters at once
        for (c, fs) in &st.frames {
            if slow[*c] > tr.wt_ms && !fs.is_empty() && !st.ended.contains(c) && !gone_conn[*c] {
                ex.violation(
                    "not-promoted-after-exit",
                    format!(
                        "step {i}: connection {c} was written to, its client never accepted the frame within {} ms, but it is still there: {}",
                        tr.wt_ms,
                        Trace::snap_str(&st.snap)
                    ),
                );
            }
        }
        // -- connections that ended
        for &c in &st.ended {
            gone_conn[c] = true;
            stalled[c] = false;
            for l in open.values_mut() {
                l.retain(|x| *x != c);
            }
        }
        open.retain(|_, l| !l.is_empty());
        // -- registry shape (checked against the implementation's own snapshot)
        let mut want = Snapshot::default();
        for (id, l) in &open {
            want.entries.insert(*id, (*l.last().unwrap(), l[..l.len() - 1].to_vec()));
        }
        if want.entries != st.snap.entries {
            ex.violation(
                "registry-mismatch",
                format!("step {i}: open connections {open:?} but registry {}", Trace::snap_str(&st.snap)),
            );
            return;
        }
        // -- promotions and peer-gone notices owed by this step
        if !shutdown_step {
            for (id, (pre_active, _)) in &prev.entries {
                match st.snap.entries.get(id) {
                    Some((a, _)) if a != pre_active && !matches!(&st.op, Op::Reg { id: rid, .. } if rid == id) => {
                        expected.entry(*a).or_default().push(Notice::Healthy);
                        promoted_seen = true;
                    }
                    None => {
                        let mut peers = prev.sent_to.get(id).cloned().unwrap_or_default();
                        for p in extra_sent.get(id).cloned().unwrap_or_default() {
                            if !peers.contains(&p) {
                                peers.push(p);
                            }
                        }
                        for p in peers {
                            if p == *id {
                                continue;
                            }
                            if let Some((pa, _)) = st.snap.entries.get(&p) {
                                expected.entry(*pa).or_default().push(Notice::Gone(*id));
                                gone_seen = true;
                            }
                        }
                        if st.snap.sent_to.contains_key(id) {
                            ex.violation("registry-mismatch", format!("step {i}: sent_to of removed id {id} not cleared"));
                        }
                    }
                    _ => {}
                }
            }
        }
        // -- what every connection received
        let mut want_now: BTreeMap<usize, Vec<Notice>> = BTreeMap::new();
        if let Op::Unstall { c } = &st.op {
            if *c < nconn && stalled[*c] {
                stalled[*c] = false;
                if !doomed[*c] {
                    want_now.insert(*c, std::mem::take(&mut queued[*c]));
                }
                queued_pkts[*c] = 0;
            }
        }
        for (c, ns) in expected {
            for n in ns {
                if gone_conn[c] {
                    continue;
                }
                if stalled[c] {
                    if queued[c].len() < cap {
                        queued[c].push(n);
                    }
                } else if doomed[c] {
                    // cancelled or closed: exits without draining its queues
                } else {
                    want_now.entry(c).or_default().push(n);
                }
            }
        }
        for c in 0..nconn {
            let mut got = Vec::new();
            for f in st.frames.get(&c).map(|v| &v[..]).unwrap_or(&[]) {
                match notice_of(tr, c, f) {
                    Some(Ok(n)) => got.push(n),
                    Some(Err(e)) => ex.violation("notice-mismatch", format!("step {i} conn {c}: {e}")),
                    None => {}
                }
            }
            let want = want_now.remove(&c).unwrap_or_default();
            // a connection whose client stopped reading may have written one notice into the pipe
            // before its write timed out
            if st.ended.contains(&c) && slow[c] > tr.wt_ms {
                continue;
            }
            if got != want {
                ex.violation("notice-mismatch", format!("step {i} conn {c}: notices {got:?}, expected {want:?}"));
            }
        }
        prev = st.snap.clone();
    }
    ex.nontrivial = promoted_seen || displaced_seen || gone_seen;
    for (b, t) in [(promoted_seen, "promotion"), (displaced_seen, "displacement"), (gone_seen, "peer-gone")] {
        if b {
            ex.tags.push(t.into());
        }
    }
    if script.ops.iter().any(|o| matches!(o, Op::ShutReg { .. } | Op::Shutdown)) {
        ex.tags.push("stale-unregister".into());
    }
    if script.ops.iter().any(|o| matches!(o, Op::Stall { .. })) {
        ex.tags.push("stall".into());
    }
}

fn main() {
    run(C06);
}
