//! C12 — relay auth token extraction (`ClientRequest::auth_token`, `query_pairs`).
//!
//! payload: `<query> <hdr>*`   query = `none` (URI without `?`) | hex of the raw bytes after `?`
//!                              hdr   = hex of one `Authorization` header value, in order
//!          `enc <token>`      hex of a UTF-8 token; the query is produced by the `url` crate's
//!                              `query_pairs_mut().append_pair("token", token)` — the call the
//!                              (wasm) relay client makes — and fed to the real `auth_token`
//! output : `illegal-header` | `illegal-uri` | (enc) `<query hex> <none|some:HEX>`
//!        | `<none|some:HEX> [k=v;k=v...]`   token and `query_pairs()` (hex of the UTF-8 bytes)
//!
//! The request is built with the public `http` API (`Request::builder`, `HeaderValue::from_bytes`,
//! `Uri::from_maybe_shared`) and handed to the public `ClientRequest::new(..)`; no hook.
use http::header::{AUTHORIZATION, HeaderName, HeaderValue};
use iroh_relay::{http::ProtocolVersion, server::ClientRequest};
use vcommon::*;

struct C12 {
    endpoint: iroh_base::EndpointId,
}

/// Header values: the alphabet of the exhaustive part.
fn header_alphabet() -> Vec<Vec<u8>> {
    let mut v: Vec<Vec<u8>> = [
        "Bearer tokA",
        "bearer tokB",
        "BEARER tokC",
        "bEaReR x y",
        "Basic dXNlcjpwYXNz",
        "Bearer",
        "Bearer  two",
        "Bearer ",
        " Bearer lead",
        "Bearer\ttab",
        "Bearerx y",
        "Digest bearer z",
        "",
    ]
    .iter()
    .map(|s| s.as_bytes().to_vec())
    .collect();
    v.push(b"Bearer caf\xc3\xa9".to_vec()); // valid UTF-8, not visible ASCII
    v.push(b"\xff".to_vec()); // obs-text only
    v.push(b"Basic \x80".to_vec());
    v
}

fn query_alphabet() -> Vec<Option<Vec<u8>>> {
    let mut v: Vec<Option<Vec<u8>>> = vec![None];
    for s in [
        "",
        "token=",
        "token=q1",
        "token=a%20b+c",
        "x=1&token=t2",
        "token=first&token=second",
        "token",
        "Token=upper",
        "%74oken=pct-name",
        "tok+en=plus",
        "&&token=q&",
        "token=a=b",
        "token=%ff%fe",
        "token=%E2%82%AC",
        "token=%e2%82",
        "token=%F0%9F%98%80x",
        "token=%",
        "token=%4",
        "token=%zz%41",
        "token=%2B%26%3D",
        "token=a#frag&token=b",
        "a=1;token=2",
        "=novalue&token=t",
        "x&y=&token=%00",
    ] {
        v.push(Some(s.as_bytes().to_vec()));
    }
    v.push(Some("token=caf\u{e9}&x=\u{20ac}".as_bytes().to_vec())); // raw, valid UTF-8
    v.push(Some(b"token=\xff".to_vec())); // raw, invalid UTF-8 → illegal URI
    v.push(Some(b"token=a b".to_vec())); // raw space → illegal URI
    v.push(Some(b"token=<x>".to_vec()));
    v
}

fn payload(q: &Option<Vec<u8>>, hs: &[Vec<u8>]) -> String {
    let mut s = match q {
        None => "none".to_string(),
        Some(q) => hex(q),
    };
    for h in hs {
        s.push(' ');
        s.push_str(&hex(h));
    }
    s
}

fn random_case(rng: &mut Rng, s: &str) -> Vec<u8> {
    s.bytes()
        .map(|b| if rng.bool() { b.to_ascii_uppercase() } else { b.to_ascii_lowercase() })
        .collect()
}

fn random_header(rng: &mut Rng, malformed_stream: bool) -> Vec<u8> {
    let mut v = match rng.below(8) {
        0..=2 => random_case(rng, "bearer"),
        3 => random_case(rng, "basic"),
        4 => random_case(rng, "bearer")[..rng.range(0, 6) as usize].to_vec(),
        5 => {
            let mut s = random_case(rng, "bearer");
            let extra = *rng.pick(b"xs_-1 \t");
            let at = rng.usize_below(s.len() + 1);
            s.insert(at, extra);
            s
        }
        6 => Vec::new(),
        _ => (0..rng.range(1, 8)).map(|_| *rng.pick(b"abBEeaArR6 =/")).collect(),
    };
    match rng.below(10) {
        0 => {}
        1 => v.push(b'\t'),
        2 => v.extend_from_slice(b"  "),
        _ => v.push(b' '),
    }
    let tlen = rng.range(0, 12) as usize;
    for _ in 0..tlen {
        let b = match rng.below(40) {
            0 => b' ',
            1 => b'\t',
            2 => 0x80 + (rng.byte() & 0x7f),
            3 => 0x7e,
            4 if malformed_stream => *rng.pick(&[0u8, 0x0a, 0x0d, 0x1f, 0x7f]),
            _ => *rng.pick(b"abcxyzABC0189-._~+/="),
        };
        v.push(b);
    }
    v
}

fn random_query(rng: &mut Rng, malformed_stream: bool) -> Option<Vec<u8>> {
    if rng.chance(1, 8) {
        return None;
    }
    let names: [&[u8]; 10] = [
        b"token", b"token", b"token", b"Token", b"tok", b"tokens", b"%74oken", b"t%6Fken", b"x", b"",
    ];
    let mut q = Vec::new();
    let nseg = rng.range(0, 4);
    for i in 0..nseg {
        if i > 0 || rng.chance(1, 10) {
            q.push(b'&');
            if rng.chance(1, 10) {
                q.push(b'&');
            }
        }
        q.extend_from_slice(*rng.pick(&names[..]));
        if rng.chance(9, 10) {
            q.push(b'=');
            for _ in 0..rng.range(0, 10) {
                match rng.below(24) {
                    0 => q.push(b'+'),
                    1 => q.push(b'='),
                    2 | 3 => {
                        // a percent escape, mostly well-formed; bytes chosen to hit UTF-8 edges
                        let b = *rng.pick(&[
                            0x20u8, 0x26, 0x3d, 0x25, 0x2b, 0x41, 0x7f, 0x80, 0xbf, 0xc2, 0xc3, 0xa9, 0xe0, 0xa0,
                            0xe2, 0x82, 0xac, 0xed, 0x9f, 0xed, 0xa0, 0xf0, 0x90, 0x9f, 0x98, 0xf4, 0x8f, 0x90,
                            0xf5, 0xff, 0x00, 0xc0, 0xc1, 0xef, 0xbf, 0xbd,
                        ]);
                        let s = if rng.bool() { format!("%{b:02X}") } else { format!("%{b:02x}") };
                        q.extend_from_slice(s.as_bytes());
                    }
                    4 => q.extend_from_slice(*rng.pick(&[&b"%"[..], b"%4", b"%g1", b"%1g", b"%%41"])),
                    5 => q.extend_from_slice("\u{e9}".as_bytes()),
                    6 if malformed_stream => q.push(*rng.pick(&[b' ', b'"', b'<', b'>', 0x7f, 0x00, 0xff, 0x80, b'#'])),
                    _ => q.push(*rng.pick(b"abcxyzABC0189-._~*!$'(),/:;?@[]^`{|}")),
                }
            }
        }
    }
    Some(q)
}

/// `application/x-www-form-urlencoded` decoding written from the WHATWG description
/// (independent of the `url` crate): `+` → space, `%HH` → byte, lossy UTF-8.
fn spec_form_decode(s: &[u8]) -> String {
    let mut out = Vec::with_capacity(s.len());
    let mut i = 0;
    while i < s.len() {
        let b = s[i];
        if b == b'+' {
            out.push(b' ');
            i += 1;
        } else if b == b'%'
            && i + 2 < s.len()
            && (s[i + 1] as char).is_ascii_hexdigit()
            && (s[i + 2] as char).is_ascii_hexdigit()
        {
            let h = (s[i + 1] as char).to_digit(16).unwrap() as u8;
            let l = (s[i + 2] as char).to_digit(16).unwrap() as u8;
            out.push(h << 4 | l);
            i += 3;
        } else {
            out.push(b);
            i += 1;
        }
    }
    String::from_utf8_lossy(&out).into_owned()
}

fn spec_pairs(q: &[u8]) -> Vec<(String, String)> {
    q.split(|&b| b == b'&')
        .filter(|seg| !seg.is_empty())
        .map(|seg| match seg.iter().position(|&b| b == b'=') {
            Some(p) => (spec_form_decode(&seg[..p]), spec_form_decode(&seg[p + 1..])),
            None => (spec_form_decode(seg), String::new()),
        })
        .collect()
}

/// The statement of C12, evaluated directly.
enum Expect {
    Bearer(Vec<u8>, usize),
    Malformed(usize),
    Query(Option<String>),
}

fn spec_expect(headers: &[Vec<u8>], pairs: &[(String, String)]) -> Expect {
    for (i, h) in headers.iter().enumerate() {
        if !h.iter().all(|&b| b == b'\t' || (0x20..=0x7e).contains(&b)) {
            return Expect::Malformed(i);
        }
        if let Some(p) = h.iter().position(|&b| b == b' ') {
            if h[..p].to_ascii_lowercase() == b"bearer" {
                return Expect::Bearer(h[p + 1..].to_vec(), i);
            }
        }
    }
    Expect::Query(pairs.iter().find(|(n, _)| n == "token").map(|(_, v)| v.clone()))
}

impl C12 {
    /// Client encoder → server decoder round trip.
    fn execute_enc(&mut self, token: &[u8]) -> Exec {
        let token = std::str::from_utf8(token).expect("enc payloads are UTF-8");
        // iroh-relay/src/client.rs (wasm): dial_url.query_pairs_mut().append_pair(AUTH_TOKEN_URL_QUERY_PARAM, token)
        let mut url: url::Url = "https://relay.test/relay".parse().unwrap();
        url.query_pairs_mut().append_pair("token", token);
        let query = url.query().expect("query").as_bytes().to_vec();
        let mut target = b"/relay?".to_vec();
        target.extend_from_slice(&query);
        let uri = http::Uri::from_maybe_shared(bytes::Bytes::from(target)).expect("serialized query is a legal URI");
        let (parts, ()) = http::Request::builder().uri(uri).body(()).unwrap().into_parts();
        let req = ClientRequest::new(self.endpoint, ProtocolVersion::V2, parts);
        let got = req.auth_token();
        let tok = match &got {
            None => "none".to_string(),
            Some(t) => format!("some:{}", hex(t.as_bytes())),
        };
        let mut ex = Exec::new(format!("{} {tok}", hex(&query)));
        if got.as_deref() != Some(token) {
            ex.violation("client-token-not-recovered", format!("sent {token:?} got {got:?}"));
        }
        ex.tags.push("enc-roundtrip".into());
        ex.tags.push(if token.is_ascii() { "enc-ascii".into() } else { "enc-unicode".into() });
        ex.nontrivial = true;
        ex
    }
}

impl Prop for C12 {
    fn id(&self) -> &'static str {
        "C12"
    }

    fn generate(&mut self, rng: &mut Rng, tier: Tier, n: usize, out: &mut Vec<String>) {
        let hs = header_alphabet();
        let qs = query_alphabet();
        // every query of the alphabet × {no header, skippable header, bearer, malformed}
        for q in &qs {
            out.push(payload(q, &[]));
            out.push(payload(q, &[hs[4].clone()]));
            out.push(payload(q, &[hs[4].clone(), hs[0].clone()]));
            out.push(payload(q, &[hs[4].clone(), hs[14].clone(), hs[0].clone()]));
        }
        // header lists of length ≤ 2 (quick) / ≤ 3 (thorough) over the alphabet × key queries
        let key_q: Vec<&Option<Vec<u8>>> = if tier == Tier::Thorough {
            qs.iter().collect()
        } else {
            vec![&qs[0], &qs[3], &qs[6]]
        };
        let max_len = if tier == Tier::Thorough { 3 } else { 2 };
        let mut lists: Vec<Vec<Vec<u8>>> = vec![vec![]];
        let mut frontier: Vec<Vec<Vec<u8>>> = vec![vec![]];
        for _ in 0..max_len {
            let mut next = Vec::new();
            for l in &frontier {
                for h in &hs {
                    let mut l2 = l.clone();
                    l2.push(h.clone());
                    next.push(l2);
                }
            }
            lists.extend(next.iter().cloned());
            frontier = next;
        }
        if tier == Tier::Thorough {
            // 4 369 lists × 29 queries is too many for the budget: all lists × 3 queries,
            // lists of length ≤ 2 × all queries
            for l in &lists {
                for q in [&qs[0], &qs[3], &qs[6]] {
                    out.push(payload(q, l));
                }
            }
            for l in lists.iter().filter(|l| l.len() <= 2) {
                for q in &key_q {
                    out.push(payload(q, l));
                }
            }
        } else {
            for l in &lists {
                for q in &key_q {
                    out.push(payload(q, l));
                }
            }
        }
        // every byte value as the scheme/token separator, inside the scheme, inside the token
        for b in 0..=255u8 {
            for (pre, post) in [(&b"Bearer"[..], &b"tok"[..]), (b"Bea", b"rer t"), (b"Bearer t", b"k")] {
                let mut v = pre.to_vec();
                v.push(b);
                v.extend_from_slice(post);
                out.push(payload(&qs[3], &[v]));
            }
            // every byte value raw in the query and as a percent escape
            let mut q = b"token=a".to_vec();
            q.push(b);
            q.extend_from_slice(b"z&x=1");
            out.push(payload(&Some(q), &[]));
            out.push(payload(&Some(format!("token=a%{b:02x}z").into_bytes()), &[]));
        }
        // the client's encoder: every ASCII byte inside a token, plus unicode and random tokens
        for b in 0..=127u8 {
            out.push(format!("enc {}", hex(&[b'a', b, b'z'])));
        }
        for t in ["", "secret-Token_1.*", "a b+c&d=e%f", "caf\u{e9} \u{20ac} \u{1f600}", "%41%zz+", "token=token&token"] {
            out.push(format!("enc {}", hex(t.as_bytes())));
        }
        let enc_n = if tier == Tier::Thorough { 4000 } else { 300 };
        for _ in 0..enc_n {
            let len = rng.range(0, 16) as usize;
            let t: String = (0..len)
                .map(|_| match rng.below(10) {
                    0 => *rng.pick(&['\u{e9}', '\u{20ac}', '\u{1f600}', '\u{fffd}', '\u{7f}', '\u{80}']),
                    1 => *rng.pick(&[' ', '+', '%', '&', '=', '#', '?', '/', '\0', '\n', '~', '*']),
                    _ => *rng.pick(b"abcxyzABC0189-._") as char,
                })
                .collect();
            out.push(format!("enc {}", hex(t.as_bytes())));
        }
        // random: mostly valid stream, then a malformed stream (illegal header / URI bytes)
        while out.len() < n {
            let malformed_stream = rng.chance(1, 6);
            let nh = match rng.below(10) {
                0..=2 => 0,
                3..=5 => 1,
                6..=7 => 2,
                8 => 3,
                _ => rng.range(4, 6),
            } as usize;
            let headers: Vec<Vec<u8>> = (0..nh)
                .map(|_| if rng.chance(1, 3) { rng.pick(&hs).clone() } else { random_header(rng, malformed_stream) })
                .collect();
            let q = if rng.chance(1, 4) { rng.pick(&qs).clone() } else { random_query(rng, malformed_stream) };
            out.push(payload(&q, &headers));
        }
    }

    fn execute(&mut self, payload: &str) -> Exec {
        let mut toks = payload.split(' ').filter(|t| !t.is_empty());
        let q = toks.next().expect("query token");
        if q == "enc" {
            return self.execute_enc(&unhex(toks.next().expect("token")).expect("hex token"));
        }
        let query: Option<Vec<u8>> = if q == "none" { None } else { Some(unhex(q).expect("hex query")) };
        let headers: Vec<Vec<u8>> = toks.map(|t| unhex(t).expect("hex header")).collect();

        // ---- build the request exactly as an HTTP server would hand it over -------------
        let mut values = Vec::new();
        for h in &headers {
            match HeaderValue::from_bytes(h) {
                Ok(v) => values.push(v),
                Err(_) => return Exec::new("illegal-header").tag("illegal-header"),
            }
        }
        let mut target = b"/relay".to_vec();
        if let Some(q) = &query {
            target.push(b'?');
            target.extend_from_slice(q);
        }
        let Ok(uri) = http::Uri::from_maybe_shared(bytes::Bytes::from(target)) else {
            return Exec::new("illegal-uri").tag("illegal-uri");
        };
        let mut builder = http::Request::builder().method("GET").uri(uri);
        // unrelated headers around and between the Authorization values must not matter
        builder = builder
            .header("proxy-authorization", "Bearer decoy-proxy")
            .header("x-authorization", "Bearer decoy-x");
        for (i, v) in values.iter().enumerate() {
            let name = match i % 3 {
                0 => AUTHORIZATION,
                1 => HeaderName::from_bytes(b"Authorization").unwrap(),
                _ => HeaderName::from_bytes(b"AUTHORIZATION").unwrap(),
            };
            builder = builder.header(name, v.clone());
            builder = builder.header("token", "Bearer decoy-token");
        }
        let (parts, ()) = builder.body(()).expect("request").into_parts();
        let uri_query: Option<Vec<u8>> = parts.uri.query().map(|s| s.as_bytes().to_vec());
        let req = ClientRequest::new(self.endpoint, ProtocolVersion::V2, parts);

        // ---- the implementation ------------------------------------------------------
        let got: Option<String> = req.auth_token();
        let got_pairs: Vec<(String, String)> =
            req.query_pairs().map(|(k, v)| (k.into_owned(), v.into_owned())).collect();
        let again = req.clone().auth_token();

        let tok = match &got {
            None => "none".to_string(),
            Some(t) => format!("some:{}", hex(t.as_bytes())),
        };
        let pairs_s: Vec<String> =
            got_pairs.iter().map(|(k, v)| format!("{}={}", hex(k.as_bytes()), hex(v.as_bytes()))).collect();
        let mut ex = Exec::new(format!("{tok} [{}]", pairs_s.join(";")));

        // ---- oracle: the property statement, independent of the Lean model -------------
        if again != got {
            ex.violation("not-deterministic", "second call / clone returned a different token");
        }
        // the query the statement talks about is the text after `?` up to a fragment
        let spec_q: Vec<u8> = match &query {
            None => Vec::new(),
            Some(q) => q.iter().copied().take_while(|&b| b != b'#').collect(),
        };
        if uri_query.clone().unwrap_or_default() != spec_q {
            ex.violation("uri-query-mismatch", "http::Uri::query() is not the text between `?` and `#`");
        }
        let want_pairs = spec_pairs(&spec_q);
        if want_pairs != got_pairs {
            ex.violation("query-pairs-not-form-decoded", format!("want {want_pairs:?} got {got_pairs:?}"));
        }
        let expect = spec_expect(&headers, &want_pairs);
        match &expect {
            Expect::Bearer(t, i) => {
                ex.tags.push(format!("bearer-at-{}", (*i).min(3)));
                match &got {
                    Some(g) if g.as_bytes() == &t[..] => {}
                    Some(g) => ex.violation("wrong-bearer-token", format!("header {i}: want {} got {}", hex(t), hex(g.as_bytes()))),
                    None => ex.violation("bearer-missed", format!("header {i} is the first Bearer header, got none")),
                }
            }
            Expect::Malformed(i) => {
                ex.tags.push(format!("malformed-at-{}", (*i).min(3)));
                if let Some(g) = &got {
                    ex.violation("malformed-did-not-stop", format!("header {i} is not text, got {}", hex(g.as_bytes())));
                }
            }
            Expect::Query(Some(v)) => {
                ex.tags.push("query-token".into());
                match &got {
                    Some(g) if g == v => {}
                    Some(g) => ex.violation("wrong-query-token", format!("want {v:?} got {g:?}")),
                    None => ex.violation("query-token-missed", format!("want {v:?}")),
                }
            }
            Expect::Query(None) => {
                ex.tags.push("no-token".into());
                if let Some(g) = &got {
                    ex.violation("token-from-nowhere", format!("got {g:?}"));
                }
            }
        }
        ex.tags.push(format!("headers-{}", headers.len().min(4)));
        ex.tags.push(match &query {
            None => "query-absent".into(),
            Some(_) => format!("pairs-{}", got_pairs.len().min(3)),
        });
        ex.nontrivial = !matches!(expect, Expect::Query(None)) || !headers.is_empty();
        ex
    }
}

fn main() {
    let endpoint = iroh_base::SecretKey::from_bytes(&[7u8; 32]).public();
    run(C12 { endpoint });
}
