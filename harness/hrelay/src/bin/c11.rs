//! C11 — relay protocol version negotiation.
//!
//! payloads
//!   `srv <hdr>*`   raw HTTP/1.1 upgrade request to a REAL relay server (public `Server::spawn`,
//!                  plain HTTP on loopback) carrying the given `Sec-WebSocket-Protocol` header
//!                  lines (hex of the value bytes, in order; none = header absent)
//!   `cli <ans>`    the client's acceptance test on a response header value (`none` = absent):
//!                  the exact combinator chain of `ClientBuilder::connect`
//!                  (`HeaderValue::to_str().ok().and_then(ProtocolVersion::match_from_str)`)
//!   `rcli <ans>`   a REAL `ClientBuilder::connect()` against the real server through a tampering
//!                  proxy that replaces the response's `Sec-WebSocket-Protocol` value by `<ans>`
//!   `offer`        what the real client offers (`ProtocolVersion::all_as_header_value()`), sent
//!                  to the real server, and the client's verdict on the answer
//! outputs
//!   srv   → `<status> <answer hex|none> <switching:vN|missing|not-ascii|unsupported>` | `illegal-header`
//!   cli   → `accept:vN` | `reject` | `illegal-header`;   rcli → `accept` | `reject`
//!   offer → `<offer hex> <srv output> <cli output>`
use std::{net::SocketAddr, sync::Arc, time::Duration};

use http::HeaderValue;
use iroh_relay::{
    client::{ClientBuilder, ConnectError},
    http::ProtocolVersion,
    server::{AllowAll, Limits, RelayConfig, Server, ServerConfig},
};
use tokio::{
    io::{AsyncReadExt, AsyncWriteExt},
    net::{TcpListener, TcpStream},
};
use vcommon::*;

const V1: &[u8] = b"iroh-relay-v1";
const V2: &[u8] = b"iroh-relay-v2";

struct C11 {
    rt: tokio::runtime::Runtime,
    _server: Server,
    addr: SocketAddr,
}

fn token_alphabet() -> Vec<Vec<u8>> {
    vec![
        V1.to_vec(),
        V2.to_vec(),
        b"iroh-relay-v3".to_vec(),
        b"".to_vec(),
        b" iroh-relay-v1 ".to_vec(),
        b"\tiroh-relay-v2\t ".to_vec(),
        b"IROH-RELAY-V2".to_vec(),
        b"foo".to_vec(),
        b"iroh-relay-v1\xc3\xa9".to_vec(),
    ]
}

fn join(tokens: &[&Vec<u8>], sep: &[u8]) -> Vec<u8> {
    let mut v = Vec::new();
    for (i, t) in tokens.iter().enumerate() {
        if i > 0 {
            v.extend_from_slice(sep);
        }
        v.extend_from_slice(t);
    }
    v
}

fn srv(hdrs: &[Vec<u8>]) -> String {
    let mut s = "srv".to_string();
    for h in hdrs {
        s.push(' ');
        s.push_str(&hex(h));
    }
    s
}

/// Reads an HTTP/1.1 response head (and the body when `Content-Length` is given).
async fn read_response(stream: &mut TcpStream) -> std::io::Result<(u16, Vec<(String, Vec<u8>)>, Vec<u8>)> {
    let mut buf = Vec::new();
    let head_end = loop {
        if let Some(p) = buf.windows(4).position(|w| w == b"\r\n\r\n") {
            break p + 4;
        }
        let mut chunk = [0u8; 2048];
        let n = stream.read(&mut chunk).await?;
        if n == 0 {
            return Err(std::io::Error::new(std::io::ErrorKind::UnexpectedEof, "eof in head"));
        }
        buf.extend_from_slice(&chunk[..n]);
    };
    let head = &buf[..head_end - 4];
    let mut lines = head.split(|&b| b == b'\n').map(|l| l.strip_suffix(b"\r").unwrap_or(l));
    let status_line = lines.next().unwrap_or(b"");
    let status: u16 = std::str::from_utf8(status_line)
        .ok()
        .and_then(|l| l.split(' ').nth(1))
        .and_then(|c| c.parse().ok())
        .unwrap_or(0);
    let mut headers = Vec::new();
    for l in lines {
        if let Some(p) = l.iter().position(|&b| b == b':') {
            let name = String::from_utf8_lossy(&l[..p]).to_ascii_lowercase();
            let mut v = &l[p + 1..];
            while let [b' ' | b'\t', rest @ ..] = v {
                v = rest;
            }
            while let [rest @ .., b' ' | b'\t'] = v {
                v = rest;
            }
            headers.push((name, v.to_vec()));
        }
    }
    let mut body = buf[head_end..].to_vec();
    if status != 101 {
        let len: usize = headers
            .iter()
            .find(|(n, _)| n == "content-length")
            .and_then(|(_, v)| std::str::from_utf8(v).ok()?.parse().ok())
            .unwrap_or(0);
        while body.len() < len {
            let mut chunk = [0u8; 2048];
            let n = stream.read(&mut chunk).await?;
            if n == 0 {
                break;
            }
            body.extend_from_slice(&chunk[..n]);
        }
    }
    Ok((status, headers, body))
}

/// The statement of C11 for the server, evaluated on the first header line, written as a
/// hand-rolled scanner (no `split`/`trim`): which supported versions does the header offer?
fn spec_offered(h: &[u8]) -> (bool, bool) {
    let (mut v1, mut v2) = (false, false);
    let mut start = 0;
    for i in 0..=h.len() {
        if i == h.len() || h[i] == b',' {
            let (mut a, mut b) = (start, i);
            while a < b && (h[a] == b' ' || h[a] == b'\t') {
                a += 1;
            }
            while b > a && (h[b - 1] == b' ' || h[b - 1] == b'\t') {
                b -= 1;
            }
            v1 |= &h[a..b] == V1;
            v2 |= &h[a..b] == V2;
            start = i + 1;
        }
    }
    (v1, v2)
}

impl C11 {
    fn new() -> Self {
        let rt = tokio::runtime::Builder::new_multi_thread().worker_threads(2).enable_all().build().expect("runtime");
        let server = rt.block_on(async {
            // `ServerConfig`/`RelayConfig` are non-exhaustive: start from the crate's test config
            // (test-utils) and switch TLS and QUIC off → plain HTTP on an OS-assigned loopback port.
            let mut cfg: ServerConfig = iroh_relay::server::testing::server_config();
            cfg.quic = None;
            let relay: &mut RelayConfig = cfg.relay.as_mut().expect("relay config");
            relay.tls = None;
            relay.http_bind_addr = "127.0.0.1:0".parse().unwrap();
            relay.limits = Limits::default();
            relay.access = Arc::new(AllowAll);
            Server::spawn(cfg)
            .await
            .expect("relay server")
        });
        let addr = server.http_addr().expect("http addr");
        C11 { rt, _server: server, addr }
    }

    /// One raw upgrade request to the real server.
    fn upgrade(&self, idx: usize, hdrs: &[Vec<u8>]) -> Result<(u16, Option<Vec<u8>>, String), String> {
        let mut req = Vec::new();
        req.extend_from_slice(b"GET /relay HTTP/1.1\r\nHost: relay.test\r\nConnection: Upgrade\r\nUpgrade: websocket\r\n");
        req.extend_from_slice(b"Sec-WebSocket-Key: dGhlIHNhbXBsZSBub25jZQ==\r\nSec-WebSocket-Version: 13\r\n");
        for (i, h) in hdrs.iter().enumerate() {
            req.extend_from_slice(match (idx + i) % 3 {
                0 => b"Sec-WebSocket-Protocol",
                1 => b"sec-websocket-protocol",
                _ => b"SEC-WEBSOCKET-PROTOCOL",
            });
            req.extend_from_slice(if (idx + i) % 2 == 0 { b": " } else { b":" });
            req.extend_from_slice(h);
            req.extend_from_slice(b"\r\n");
        }
        req.extend_from_slice(b"\r\n");
        let addr = self.addr;
        self.rt.block_on(async move {
            let fut = async {
                let mut s = TcpStream::connect(addr).await?;
                s.set_nodelay(true)?;
                s.write_all(&req).await?;
                let r = read_response(&mut s).await?;
                // reset instead of lingering in TIME_WAIT: tens of thousands of connections
                let _ = socket_linger_zero(&s);
                Ok::<_, std::io::Error>(r)
            };
            match tokio::time::timeout(Duration::from_secs(10), fut).await {
                Err(_) => Err("timeout".to_string()),
                Ok(Err(e)) => Err(format!("io:{:?}", e.kind())),
                Ok(Ok((status, headers, body))) => {
                    let answers: Vec<&Vec<u8>> =
                        headers.iter().filter(|(n, _)| n == "sec-websocket-protocol").map(|(_, v)| v).collect();
                    if answers.len() > 1 {
                        return Err("multiple-answer-headers".into());
                    }
                    Ok((status, answers.first().map(|v| (*v).clone()), String::from_utf8_lossy(&body).into_owned()))
                }
            }
        })
    }

    fn exec_srv(&self, idx: usize, hdrs: &[Vec<u8>]) -> Exec {
        if hdrs.iter().any(|h| HeaderValue::from_bytes(h).is_err()) {
            return Exec::new("illegal-header").tag("illegal-header");
        }
        let (status, answer, body) = match self.upgrade(idx, hdrs) {
            Ok(r) => r,
            Err(e) => {
                let mut ex = Exec::new(e.clone());
                ex.violation("transport", e);
                return ex;
            }
        };
        let class = if status == 101 {
            match answer.as_deref() {
                Some(V1) => "switching:v1".to_string(),
                Some(V2) => "switching:v2".to_string(),
                other => format!("switching:unknown-answer:{}", other.map(hex).unwrap_or("none".into())),
            }
        } else if body.starts_with("missing header: sec-websocket-protocol") {
            "missing".to_string()
        } else if body.contains("header value is not ascii") {
            "not-ascii".to_string()
        } else if body.contains("unsupported relay version") {
            "unsupported".to_string()
        } else {
            format!("other:{}", body.chars().take(60).filter(|c| !c.is_whitespace()).collect::<String>())
        };
        let mut ex = Exec::new(format!(
            "{status} {} {class}",
            answer.as_deref().map(hex).unwrap_or("none".into())
        ));

        // ---- oracle: the statement, on the first header line -----------------------------
        let first = hdrs.first();
        let is_text = first.is_some_and(|h| h.iter().all(|&b| b == b'\t' || (0x20..=0x7e).contains(&b)));
        let (o1, o2) = match first {
            Some(h) if is_text => spec_offered(h),
            _ => (false, false),
        };
        let upgraded = status == 101;
        if upgraded && !(o1 || o2) {
            ex.violation("upgrade-without-supported-version", format!("answer {:?}", answer.as_deref().map(hex)));
        }
        if !upgraded && (o1 || o2) {
            ex.violation("refused-supported-offer", format!("status {status} body {body:?}"));
        }
        if !upgraded && status != 400 {
            ex.violation("refusal-not-400", format!("status {status}"));
        }
        if !upgraded && answer.is_some() {
            ex.violation("version-header-on-refusal", "400 carries Sec-WebSocket-Protocol");
        }
        if upgraded && (o1 || o2) {
            let newest: &[u8] = if o2 { V2 } else { V1 };
            match answer.as_deref() {
                Some(a) if a == newest => {}
                Some(a) if (a == V1 && o1) || (a == V2 && o2) => {
                    ex.violation("not-newest-offered", format!("answer {} newest {}", hex(a), hex(newest)))
                }
                Some(a) => ex.violation("answer-not-offered", format!("answer {}", hex(a))),
                None => ex.violation("no-answer-header", "101 without Sec-WebSocket-Protocol"),
            }
            // the client's side of the same exchange: it must accept and speak that version
            let acc = answer
                .as_deref()
                .and_then(|a| HeaderValue::from_bytes(a).ok())
                .and_then(|v| v.to_str().ok().and_then(ProtocolVersion::match_from_str));
            match acc {
                Some(v) if v.to_str().as_bytes() == newest => {}
                other => ex.violation("ends-disagree", format!("client side got {other:?}")),
            }
        }
        ex.tags.push(match hdrs.len() {
            0 => "hdr-absent".into(),
            1 => "hdr-single".into(),
            _ => "hdr-multi-line".to_string(),
        });
        if hdrs.len() > 1 {
            // RFC 9110 reads several lines as one comma-joined list; the relay reads the first line
            // only.  Outside C11's quantifier (one header); recorded in the distribution, not judged.
            let joined = join(&hdrs.iter().collect::<Vec<_>>(), b",");
            let jt = joined.iter().all(|&b| b == b'\t' || (0x20..=0x7e).contains(&b));
            let (j1, j2) = if jt { spec_offered(&joined) } else { (false, false) };
            if (j1, j2) != (o1, o2) {
                ex.tags.push("multi-line-differs-from-joined-reading".into());
            }
        }
        ex.tags.push(class.split(':').take(2).collect::<Vec<_>>().join(":"));
        ex.nontrivial = o1 || o2 || first.is_some_and(|h| !h.is_empty());
        ex
    }

    fn exec_cli(&self, ans: Option<Vec<u8>>) -> Exec {
        let value = match &ans {
            None => None,
            Some(a) => match HeaderValue::from_bytes(a) {
                Ok(v) => Some(v),
                Err(_) => return Exec::new("illegal-header").tag("illegal-header"),
            },
        };
        // iroh-relay/src/client.rs: response.headers().get(SEC_WEBSOCKET_PROTOCOL)
        //   .and_then(|s| s.to_str().ok()).and_then(ProtocolVersion::match_from_str)
        let mut headers = http::HeaderMap::new();
        if let Some(v) = value {
            headers.insert(http::header::SEC_WEBSOCKET_PROTOCOL, v);
        }
        let got = headers
            .get(http::header::SEC_WEBSOCKET_PROTOCOL)
            .and_then(|s| s.to_str().ok())
            .and_then(ProtocolVersion::match_from_str);
        let out = match got {
            Some(ProtocolVersion::V1) => "accept:v1".to_string(),
            Some(ProtocolVersion::V2) => "accept:v2".to_string(),
            Some(other) => format!("accept:{other}"),
            None => "reject".to_string(),
        };
        let mut ex = Exec::new(out);
        let supported = ans.as_deref() == Some(V1) || ans.as_deref() == Some(V2);
        match got {
            Some(v) if !supported => ex.violation("client-accepts-unsupported", format!("{v:?}")),
            Some(v) if Some(v.to_str().as_bytes()) != ans.as_deref() => {
                ex.violation("client-speaks-other-version", format!("{v:?}"))
            }
            None if supported => ex.violation("client-rejects-supported", "exact name rejected"),
            _ => {}
        }
        // every supported version must be offered by the client and round-trip through its name
        for v in ProtocolVersion::ALL {
            if ProtocolVersion::match_from_str(v.to_str()) != Some(*v) {
                ex.violation("name-does-not-roundtrip", format!("{v:?}"));
            }
        }
        ex.tags.push(if got.is_some() { "cli-accept".into() } else { "cli-reject".into() });
        ex.nontrivial = true;
        ex
    }

    /// Real client → tampering proxy → real server.
    fn exec_rcli(&self, ans: Option<Vec<u8>>) -> Exec {
        if ans.as_ref().is_some_and(|a| HeaderValue::from_bytes(a).is_err()) {
            return Exec::new("illegal-header").tag("illegal-header");
        }
        let server_addr = self.addr;
        let ans2 = ans.clone();
        let res: Result<bool, String> = self.rt.block_on(async move {
            let listener = TcpListener::bind("127.0.0.1:0").await.map_err(|e| e.to_string())?;
            let paddr = listener.local_addr().map_err(|e| e.to_string())?;
            let proxy = tokio::spawn(async move {
                let (mut c, _) = listener.accept().await?;
                let mut s = TcpStream::connect(server_addr).await?;
                // request head: forward unchanged
                let mut buf = Vec::new();
                while !buf.windows(4).any(|w| w == b"\r\n\r\n") {
                    let mut chunk = [0u8; 4096];
                    let n = c.read(&mut chunk).await?;
                    if n == 0 {
                        return Ok(());
                    }
                    buf.extend_from_slice(&chunk[..n]);
                }
                s.write_all(&buf).await?;
                // response head: replace the version header
                let mut buf = Vec::new();
                let end = loop {
                    if let Some(p) = buf.windows(4).position(|w| w == b"\r\n\r\n") {
                        break p + 4;
                    }
                    let mut chunk = [0u8; 4096];
                    let n = s.read(&mut chunk).await?;
                    if n == 0 {
                        return Ok(());
                    }
                    buf.extend_from_slice(&chunk[..n]);
                };
                let mut out = Vec::new();
                for line in buf[..end - 4].split(|&b| b == b'\n') {
                    let line = line.strip_suffix(b"\r").unwrap_or(line);
                    if line.len() >= 23 && line[..23].eq_ignore_ascii_case(b"sec-websocket-protocol:") {
                        continue;
                    }
                    out.extend_from_slice(line);
                    out.extend_from_slice(b"\r\n");
                }
                if let Some(a) = &ans2 {
                    out.extend_from_slice(b"Sec-WebSocket-Protocol: ");
                    out.extend_from_slice(a);
                    out.extend_from_slice(b"\r\n");
                }
                out.extend_from_slice(b"\r\n");
                out.extend_from_slice(&buf[end..]);
                c.write_all(&out).await?;
                let _ = tokio::io::copy_bidirectional(&mut c, &mut s).await;
                Ok::<(), std::io::Error>(())
            });
            let url: url::Url = format!("http://{paddr}").parse().unwrap();
            let key = iroh_base::SecretKey::from_bytes(&[11u8; 32]);
            let builder = ClientBuilder::new(url, key, iroh_dns::dns::DnsResolver::new())
                .tls_client_config(iroh_relay::tls::make_dangerous_client_config());
            let r = tokio::time::timeout(Duration::from_secs(15), builder.connect()).await;
            proxy.abort();
            match r {
                Err(_) => Err("timeout".to_string()),
                Ok(Ok(_client)) => Ok(true),
                Ok(Err(ConnectError::BadVersionHeader { .. })) => Ok(false),
                // got past the version check and failed later
                Ok(Err(e @ ConnectError::Handshake { .. })) => {
                    let _ = e;
                    Ok(true)
                }
                Ok(Err(e)) => Err(format!("connect-error:{e}")),
            }
        });
        match res {
            Err(e) => {
                let mut ex = Exec::new(e.clone());
                ex.violation("transport", e);
                ex
            }
            Ok(accepted) => {
                let mut ex = Exec::new(if accepted { "accept" } else { "reject" });
                // on the wire, optional white space around a field value is not part of it
                let stripped: Option<&[u8]> = ans.as_deref().map(|mut a| {
                    while let [b' ' | b'\t', r @ ..] = a {
                        a = r;
                    }
                    while let [r @ .., b' ' | b'\t'] = a {
                        a = r;
                    }
                    a
                });
                let supported = stripped == Some(V1) || stripped == Some(V2);
                if accepted && !supported {
                    ex.violation("real-client-accepts-unsupported", format!("{:?}", ans.as_deref().map(hex)));
                }
                if !accepted && supported {
                    ex.violation("real-client-rejects-supported", format!("{:?}", ans.as_deref().map(hex)));
                }
                ex.tags.push(if accepted { "rcli-accept".into() } else { "rcli-reject".into() });
                ex.nontrivial = true;
                ex
            }
        }
    }

    fn exec_offer(&self, idx: usize) -> Exec {
        let offer = ProtocolVersion::all_as_header_value();
        let offer_bytes = offer.as_bytes().to_vec();
        let s = self.exec_srv(idx, std::slice::from_ref(&offer_bytes));
        let ans = s.out.split(' ').nth(1).and_then(|a| if a == "none" { None } else { unhex(a) });
        let c = self.exec_cli(ans);
        let mut ex = Exec::new(format!("{} {} {}", hex(&offer_bytes), s.out, c.out));
        ex.violations.extend(s.violations);
        ex.violations.extend(c.violations);
        // honest client + server: the newest version both support, i.e. the newest of ALL
        let newest = ProtocolVersion::ALL.iter().max().expect("non-empty");
        if c.out != format!("accept:v{}", if *newest == ProtocolVersion::V2 { 2 } else { 1 }) {
            ex.violation("honest-ends-not-on-newest", format!("client: {}", c.out));
        }
        if ProtocolVersion::ALL.len() != 2 || *newest != ProtocolVersion::V2 || ProtocolVersion::V1 >= ProtocolVersion::V2 {
            ex.violation("version-set-changed", "ALL / Ord differ from the modelled {V1 < V2}");
        }
        ex.tags.push("offer".into());
        ex.nontrivial = true;
        ex
    }
}

fn socket_linger_zero(s: &TcpStream) -> std::io::Result<()> {
    #[allow(deprecated)]
    s.set_linger(Some(Duration::ZERO))
}

impl Prop for C11 {
    fn id(&self) -> &'static str {
        "C11"
    }

    fn generate(&mut self, rng: &mut Rng, tier: Tier, n: usize, out: &mut Vec<String>) {
        let alpha = token_alphabet();
        out.push("offer".into());
        out.push(srv(&[]));
        // the repo's own test vectors
        for s in [
            "iroh-relay-v2,iroh-relay-v1",
            "iroh-relay-v1,iroh-relay-v2",
            "baz, iroh-relay-v1, iroh-relay-v2, boo",
            "foo, iroh-relay-v2, bar",
            "iroh-relay-v2, iroh-relay-v1",
            "iroh-relay-v1 iroh-relay-v2",
            "iroh-relay -v1",
            "iroh-relay-v1;q=1",
            "iroh-relay-v2,",
            ",iroh-relay-v1",
            ", ,",
            "iroh-relay-v",
            "iroh-relay-v10",
            "xiroh-relay-v1",
            "iroh-relay-v1\t,\tiroh-relay-v1",
            "Iroh-Relay-V1",
        ] {
            out.push(srv(&[s.as_bytes().to_vec()]));
        }
        // all headers of ≤ k tokens over the 9-token alphabet, separators "," and ", "
        let k = if tier == Tier::Thorough { 4 } else { 2 };
        let mut lists: Vec<Vec<usize>> = vec![vec![]];
        let mut all: Vec<Vec<usize>> = Vec::new();
        for _ in 0..k {
            let mut next = Vec::new();
            for l in &lists {
                for i in 0..alpha.len() {
                    let mut l2 = l.clone();
                    l2.push(i);
                    next.push(l2);
                }
            }
            all.extend(next.iter().cloned());
            lists = next;
        }
        for (j, l) in all.iter().enumerate() {
            let toks: Vec<&Vec<u8>> = l.iter().map(|&i| &alpha[i]).collect();
            out.push(srv(&[join(&toks, if j % 4 == 3 { b", " } else { b"," })]));
        }
        if tier == Tier::Quick {
            // 600 sampled headers of 3–4 tokens
            for _ in 0..600 {
                let len = rng.range(3, 4) as usize;
                let toks: Vec<&Vec<u8>> = (0..len).map(|_| rng.pick(&alpha)).collect();
                out.push(srv(&[join(&toks, if rng.chance(1, 4) { b" , " } else { b"," })]));
            }
        }
        // every byte value before / inside / after a supported name, alone and next to another offer
        let byte_positions: &[usize] = if tier == Tier::Thorough { &[0, 5, 13] } else { &[0, 13] };
        for b in 0..=255u8 {
            for &pos in byte_positions {
                let mut v = V2.to_vec();
                v.insert(pos, b);
                out.push(srv(&[v.clone()]));
                if tier == Tier::Thorough {
                    let mut w = V1.to_vec();
                    w.push(b',');
                    w.extend_from_slice(&v);
                    out.push(srv(&[w]));
                }
            }
        }
        // several header lines (the relay looks at the first one only)
        for a in &alpha {
            for b in &alpha {
                out.push(srv(&[a.clone(), b.clone()]));
            }
        }
        out.push(srv(&[V1.to_vec(), V2.to_vec(), b"foo".to_vec()]));
        // client side: every server answer, near misses, every byte appended / prepended
        let mut answers: Vec<Option<Vec<u8>>> = vec![None, Some(V1.to_vec()), Some(V2.to_vec())];
        for s in [
            "", " iroh-relay-v1", "iroh-relay-v2 ", "\tiroh-relay-v2", "IROH-RELAY-V2", "iroh-relay-v3", "iroh-relay-v",
            "iroh-relay-v1,iroh-relay-v2", "iroh-relay-v2, iroh-relay-v1", "websocket", "v2", "iroh-relay-v22",
        ] {
            answers.push(Some(s.as_bytes().to_vec()));
        }
        answers.push(Some(b"iroh-relay-v2\xc3\xa9".to_vec()));
        answers.push(Some(b"\xff".to_vec()));
        for a in &answers {
            out.push(format!("cli {}", a.as_deref().map(hex).unwrap_or("none".into())));
        }
        for b in 0..=255u8 {
            let mut v = V1.to_vec();
            v.push(b);
            out.push(format!("cli {}", hex(&v)));
            let mut v = vec![b];
            v.extend_from_slice(V2);
            out.push(format!("cli {}", hex(&v)));
        }
        // real client through the tampering proxy: a handful
        let rcli: Vec<Option<&[u8]>> = if tier == Tier::Thorough {
            vec![
                Some(V2), Some(V1), None, Some(b"iroh-relay-v3"), Some(b"IROH-RELAY-V2"), Some(b"iroh-relay-v2,iroh-relay-v1"),
                Some(b"iroh-relay-v"), Some(b"iroh-relay-v2\xc3\xa9"), Some(b"  iroh-relay-v1\t"), Some(b"iroh-relay-v1 x"),
                Some(b"websocket"), Some(b"iroh-relay-v22"),
            ]
        } else {
            vec![Some(V2), Some(V1), None, Some(b"iroh-relay-v3"), Some(b"IROH-RELAY-V2"), Some(b" iroh-relay-v2 ")]
        };
        for a in rcli {
            out.push(format!("rcli {}", a.map(hex).unwrap_or("none".into())));
        }
        // random headers: mostly well-formed lists, then a malformed stream
        while out.len() < n {
            let malformed = rng.chance(1, 6);
            let nt = rng.range(0, 6) as usize;
            let mut h = Vec::new();
            for i in 0..nt {
                if i > 0 {
                    h.extend_from_slice(*rng.pick(&[&b","[..], b", ", b" ,", b",\t", b",,", b" "]));
                }
                let mut t = match rng.below(6) {
                    0..=2 => rng.pick(&alpha).clone(),
                    3 => {
                        let mut t = rng.pick(&[V1, V2]).to_vec();
                        let at = rng.usize_below(t.len());
                        match rng.below(3) {
                            0 => {
                                t.remove(at);
                            }
                            1 => t[at] = t[at].to_ascii_uppercase(),
                            _ => t.insert(at, *rng.pick(b" -v12.")),
                        }
                        t
                    }
                    4 => format!("iroh-relay-v{}", rng.range(0, 12)).into_bytes(),
                    _ => (0..rng.range(0, 6)).map(|_| *rng.pick(b"abiroh-relyv12 \t;=/")).collect(),
                };
                if malformed && rng.chance(1, 4) {
                    let at = rng.usize_below(t.len() + 1);
                    t.insert(at, *rng.pick(&[0x80u8, 0xff, 0xe9, 0x7f, 0x00, 0x0b, 0x0c, 0xa0]));
                }
                h.extend_from_slice(&t);
            }
            let lines = if rng.chance(1, 12) { vec![h, rng.pick(&alpha).clone()] } else { vec![h] };
            out.push(srv(&lines));
        }
    }

    fn execute(&mut self, payload: &str) -> Exec {
        let idx = payload.len();
        let mut toks = payload.split(' ').filter(|t| !t.is_empty());
        let parse_ans = |t: Option<&str>| -> Option<Vec<u8>> {
            let t = t.expect("answer token");
            if t == "none" { None } else { Some(unhex(t).expect("hex")) }
        };
        match toks.next() {
            Some("srv") => {
                let hdrs: Vec<Vec<u8>> = toks.map(|t| unhex(t).expect("hex")).collect();
                self.exec_srv(idx, &hdrs)
            }
            Some("cli") => self.exec_cli(parse_ans(toks.next())),
            Some("rcli") => self.exec_rcli(parse_ans(toks.next())),
            Some("offer") => self.exec_offer(idx),
            other => panic!("unknown payload kind {other:?}"),
        }
    }
}

fn main() {
    run(C11::new());
}
