//! C02 — key and address encodings round-trip and parse totally.
//!
//! One operation per payload (byte strings / Rust strings as hex of their bytes, `-` = empty):
//!
//! ```text
//! enc <alg> <bytes>                       -> <hex of encoded string>            (data-encoding)
//! dec <alg> <str>                         -> ok <bytes> | err                   (data-encoding)
//! pk-str <str> <vpkey> <vpbit>            -> ok <key> disp= short= z32= dbg= | err:<class>
//! pk-z32 <str> <vpkey> <vpbit>            -> same
//! pk-bytes <bytes> <vpbit>                -> same                               (from_bytes / TryFrom<&[u8]>)
//! sk-str <str>                            -> ok <bytes> | err:<class>
//! sk-bytes <bytes>                        -> ok <bytes> | err:length
//! sig-bytes <bytes>                       -> ok <bytes> | err:sig
//! sig <sk> <msg> <sk2> <msg2>             -> own=ok othermsg=<ok|err> otherkey=<ok|err>
//! ca-parts <id> <data>                    -> <addr description>
//! ca-str <str> | ca-bin <bytes>           -> ok <addr description> | err:<class>
//! ca-pc <bytes>                           -> ok <addr description> rest=<n> | err:<class>
//! ca-cmp <id1> <data1> <id2> <data2>      -> eq=<0|1> cmp=<lt|eq|gt> hasheq=<0|1>
//! ca-json <str> | ea <seed> | ea-pc <bytes> | url <str>   -> checked            (oracle only)
//! ```
//!
//! `<vpkey> <vpbit>` is the answer of the real curve implementation
//! (`CompressedEdwardsY::decompress`) for the one 32-byte string the parser can ask
//! about; it is an *input* of the Lean model (`validPoint`), computed by the generator.
//! The oracle in `execute` states C02 directly on the implementation's behaviour and
//! does not use the model.
use std::cmp::Ordering;
use std::collections::BTreeSet;
use std::hash::{Hash, Hasher};
use std::net::SocketAddr;
use std::str::FromStr;

use data_encoding::{
    BASE32_DNSSEC, BASE32_NOPAD, BASE32HEX_NOPAD, BASE64URL_NOPAD, Encoding, HEXLOWER,
    HEXLOWER_PERMISSIVE, Specification,
};
use iroh_base::{
    CustomAddr, EndpointAddr, KeyParsingError, PublicKey, RelayUrl, SecretKey, Signature,
    TransportAddr,
};
use vcommon::*;

const ALGS: [&str; 7] = ["hex", "hexperm", "b32", "b32hex", "dnssec", "z32", "b64url"];
const Z32_SYMBOLS: &str = "ybndrfg8ejkmcpqxot1uwisza345h769";

struct C02 {
    z32: Encoding,
}

impl C02 {
    fn new() -> Self {
        let mut spec = Specification::new();
        spec.symbols.push_str(Z32_SYMBOLS);
        C02 { z32: spec.encoding().expect("z-base-32 spec") }
    }

    fn alg(&self, name: &str) -> Encoding {
        match name {
            "hex" => HEXLOWER,
            "hexperm" => HEXLOWER_PERMISSIVE,
            "b32" => BASE32_NOPAD,
            "b32hex" => BASE32HEX_NOPAD,
            "dnssec" => BASE32_DNSSEC,
            "z32" => self.z32.clone(),
            "b64url" => BASE64URL_NOPAD,
            other => panic!("unknown alg {other}"),
        }
    }
}

/// Records everything `Hash::hash` writes.
#[derive(Default)]
struct Rec(Vec<u8>);
impl Hasher for Rec {
    fn finish(&self) -> u64 {
        0
    }
    fn write(&mut self, b: &[u8]) {
        self.0.extend_from_slice(b);
    }
}
fn feed<T: Hash>(t: &T) -> Vec<u8> {
    let mut r = Rec::default();
    t.hash(&mut r);
    r.0
}

fn valid_point(b: &[u8]) -> bool {
    let Ok(arr) = <[u8; 32]>::try_from(b) else { return false };
    curve25519_dalek::edwards::CompressedEdwardsY(arr).decompress().is_some()
}

fn key_err(e: &KeyParsingError) -> &'static str {
    match e {
        KeyParsingError::FailedToDecodeHex { .. } => "hex",
        KeyParsingError::FailedToDecodeBase32 { .. } => "base32",
        KeyParsingError::InvalidLength { .. } => "length",
        KeyParsingError::InvalidKeyData { .. } => "keydata",
        _ => "other",
    }
}

fn s(b: &[u8]) -> String {
    hex(b)
}

/// The string whose bytes are `b` (generators only produce valid UTF-8).
fn as_str(b: &[u8]) -> &str {
    std::str::from_utf8(b).expect("payload strings are valid UTF-8")
}

/// What the property says a key string must be: lower-case hex of 32 bytes, or base32
/// (RFC 4648 alphabet, any case, no padding) of 32 bytes.  Independent of iroh-base.
fn spec_key_bytes(st: &str) -> Option<Vec<u8>> {
    if st.len() == 64 {
        if st.bytes().all(|c| c.is_ascii_digit() || (b'a'..=b'f').contains(&c)) {
            return unhex(st);
        }
        return None;
    }
    if st.len() == 52 {
        let up = st.to_ascii_uppercase();
        return BASE32_NOPAD.decode(up.as_bytes()).ok().filter(|v| v.len() == 32);
    }
    None
}

fn describe_key(k: &PublicKey, ex: &mut Exec) -> String {
    let disp = k.to_string();
    let short = k.fmt_short().to_string();
    let z32 = k.to_z32();
    let dbg = format!("{k:?}");
    let b = *k.as_bytes();
    // ---- oracle on an accepted key ----
    if !valid_point(&b) {
        ex.violation("pk-accepted-invalid-point", s(&b));
    }
    let _ = k.as_verifying_key();
    let _: &[u8] = k.as_ref();
    match PublicKey::from_str(&disp) {
        Ok(k2) if k2 == *k => {}
        _ => ex.violation("pk-display-roundtrip", disp.clone()),
    }
    match PublicKey::from_str(&BASE32_NOPAD.encode(&b)) {
        Ok(k2) if k2 == *k => {}
        _ => ex.violation("pk-base32-roundtrip", disp.clone()),
    }
    match PublicKey::from_str(&BASE32_NOPAD.encode(&b).to_ascii_lowercase()) {
        Ok(k2) if k2 == *k => {}
        _ => ex.violation("pk-base32-lower-roundtrip", disp.clone()),
    }
    match PublicKey::from_z32(&z32) {
        Ok(k2) if k2 == *k => {}
        _ => ex.violation("pk-z32-roundtrip", z32.clone()),
    }
    match PublicKey::from_bytes(&b) {
        Ok(k2) if k2 == *k && k2.as_bytes() == &b => {}
        _ => ex.violation("pk-bytes-roundtrip", disp.clone()),
    }
    match PublicKey::try_from(&b[..]) {
        Ok(k2) if k2 == *k => {}
        _ => ex.violation("pk-slice-roundtrip", disp.clone()),
    }
    let pc = postcard::to_stdvec(k).expect("postcard key");
    if pc != b {
        ex.violation("pk-postcard-form", s(&pc));
    }
    match postcard::from_bytes::<PublicKey>(&pc) {
        Ok(k2) if k2 == *k => {}
        _ => ex.violation("pk-postcard-roundtrip", disp.clone()),
    }
    let js = serde_json::to_string(k).expect("json key");
    match serde_json::from_str::<PublicKey>(&js) {
        Ok(k2) if k2 == *k => {}
        _ => ex.violation("pk-json-roundtrip", js.clone()),
    }
    if disp != hex(&b) || !disp.starts_with(&short) || short.len() != 10 {
        ex.violation("pk-format", format!("{disp} {short}"));
    }
    if let Ok(k2) = PublicKey::from_str(&disp) {
        if feed(&k2) != feed(k) || k2.cmp(k) != Ordering::Equal {
            ex.violation("pk-eq-ord-hash", disp.clone());
        }
    }
    format!(
        "ok {} disp={} short={} z32={} dbg={}",
        s(&b),
        s(disp.as_bytes()),
        s(short.as_bytes()),
        s(z32.as_bytes()),
        s(dbg.as_bytes())
    )
}

/// Canonical description of an address; calls every accessor and formatter and
/// evaluates the round-trip / canonical-representation part of the property.
/// A minimal non-self-describing serde format whose byte strings arrive as OWNED buffers
/// (`Visitor::visit_byte_buf`), the way reader-based binary formats deliver them; postcard's
/// slice flavour goes through `visit_bytes` and serde_json through `visit_seq`, so without this
/// route the third entry point of `CustomAddrBytes`'s hand-written `Deserialize` is never driven.
mod owned_format {
    use serde::de::{self, Deserializer, SeqAccess, Visitor};

    #[derive(Debug)]
    pub struct Error(pub String);
    impl std::fmt::Display for Error {
        fn fmt(&self, f: &mut std::fmt::Formatter<'_>) -> std::fmt::Result {
            f.write_str(&self.0)
        }
    }
    impl std::error::Error for Error {}
    impl de::Error for Error {
        fn custom<T: std::fmt::Display>(m: T) -> Self {
            Error(m.to_string())
        }
    }

    pub enum Item {
        U64(u64),
        Bytes(Vec<u8>),
    }

    pub struct De {
        items: std::vec::IntoIter<Item>,
    }

    impl De {
        pub fn new(items: Vec<Item>) -> Self {
            De { items: items.into_iter() }
        }
    }

    struct Fields<'a> {
        de: &'a mut De,
        left: usize,
    }

    impl<'de> SeqAccess<'de> for Fields<'_> {
        type Error = Error;
        fn next_element_seed<T: de::DeserializeSeed<'de>>(&mut self, seed: T) -> Result<Option<T::Value>, Error> {
            if self.left == 0 {
                return Ok(None);
            }
            self.left -= 1;
            seed.deserialize(&mut *self.de).map(Some)
        }
    }

    impl<'de> Deserializer<'de> for &mut De {
        type Error = Error;
        fn deserialize_any<V: Visitor<'de>>(self, _v: V) -> Result<V::Value, Error> {
            Err(Error("not self-describing".into()))
        }
        fn deserialize_u64<V: Visitor<'de>>(self, v: V) -> Result<V::Value, Error> {
            match self.items.next() {
                Some(Item::U64(x)) => v.visit_u64(x),
                _ => Err(Error("expected u64".into())),
            }
        }
        fn deserialize_bytes<V: Visitor<'de>>(self, v: V) -> Result<V::Value, Error> {
            match self.items.next() {
                Some(Item::Bytes(b)) => v.visit_byte_buf(b),
                _ => Err(Error("expected bytes".into())),
            }
        }
        fn deserialize_byte_buf<V: Visitor<'de>>(self, v: V) -> Result<V::Value, Error> {
            self.deserialize_bytes(v)
        }
        fn deserialize_struct<V: Visitor<'de>>(
            self,
            _name: &'static str,
            fields: &'static [&'static str],
            v: V,
        ) -> Result<V::Value, Error> {
            v.visit_seq(Fields { de: self, left: fields.len() })
        }
        fn deserialize_newtype_struct<V: Visitor<'de>>(self, _name: &'static str, v: V) -> Result<V::Value, Error> {
            v.visit_newtype_struct(self)
        }
        fn is_human_readable(&self) -> bool {
            false
        }
        serde::forward_to_deserialize_any! {
            bool i8 i16 i32 i64 i128 u8 u16 u32 u128 f32 f64 char str string option unit
            unit_struct seq tuple tuple_struct map enum identifier ignored_any
        }
    }
}

fn describe_addr(a: &CustomAddr, ex: &mut Exec) -> String {
    let id = a.id();
    let data = a.data().to_vec();
    let disp = a.to_string();
    let vec = a.to_vec();
    let pc = postcard::to_stdvec(a).expect("postcard addr");
    let dbg = format!("{a:?}");
    let alt = format!("{a:#?}");
    let kind = if alt.contains("Inline[") {
        "Inline"
    } else if alt.contains("Heap[") {
        "Heap"
    } else {
        "?"
    };
    let hf = feed(a);
    // ---- oracle ----
    if vec.len() != 8 + data.len() || vec[..8] != id.to_le_bytes() || vec[8..] != data[..] {
        ex.violation("ca-binary-form", s(&vec));
    }
    if disp != format!("{:x}_{}", id, hex_plain(&data)) {
        ex.violation("ca-string-form", disp.clone());
    }
    let mut copies: Vec<(&str, CustomAddr)> = Vec::new();
    match CustomAddr::from_str(&disp) {
        Ok(b) => copies.push(("str", b)),
        Err(_) => ex.violation("ca-str-roundtrip", disp.clone()),
    }
    match CustomAddr::from_bytes(&vec) {
        Ok(b) => copies.push(("bin", b)),
        Err(_) => ex.violation("ca-bin-roundtrip", s(&vec)),
    }
    match postcard::from_bytes::<CustomAddr>(&pc) {
        Ok(b) => copies.push(("postcard", b)),
        Err(_) => ex.violation("ca-postcard-roundtrip", s(&pc)),
    }
    match serde_json::to_string(a) {
        Ok(js) => match serde_json::from_str::<CustomAddr>(&js) {
            Ok(b) => copies.push(("json", b)),
            Err(_) => ex.violation("ca-json-roundtrip", js),
        },
        Err(e) => ex.violation("ca-json-roundtrip", e.to_string()),
    }
    {
        use serde::Deserialize;
        let mut de = owned_format::De::new(vec![
            owned_format::Item::U64(id),
            owned_format::Item::Bytes(data.to_vec()),
        ]);
        match CustomAddr::deserialize(&mut de) {
            Ok(b) => copies.push(("ownedbuf", b)),
            Err(e) => ex.violation("ca-ownedbuf-roundtrip", e.to_string()),
        }
    }
    copies.push(("parts", CustomAddr::from_parts(id, &data)));
    copies.push(("tuple", CustomAddr::from((id, &data[..]))));
    copies.push(("clone", a.clone()));
    for (route, b) in &copies {
        if b.id() != id || b.data() != &data[..] {
            ex.violation(format!("ca-{route}-roundtrip"), format!("{b:?}"));
        }
        // Eq / Ord / Hash must agree with logical equality whatever the route.
        if b != a
            || b.cmp(a) != Ordering::Equal
            || a.partial_cmp(b) != Some(Ordering::Equal)
            || feed(b) != hf
        {
            ex.violation("ca-eq-ord-hash", format!("route {route}: {b:#?} vs {a:#?}"));
        }
    }
    let set: BTreeSet<&CustomAddr> = copies.iter().map(|c| &c.1).chain([a]).collect();
    if set.len() != 1 {
        ex.violation("ca-eq-ord-hash", "BTreeSet keeps equal addresses apart");
    }
    let t = TransportAddr::Custom(a.clone());
    if t.to_string() != format!("custom:{disp}") || !t.is_custom() {
        ex.violation("ca-transport-display", t.to_string());
    }
    format!(
        "id={id} data={} kind={kind} str={} vec={} pc={} dbg={} hash={}",
        s(&data),
        s(disp.as_bytes()),
        s(&vec),
        s(&pc),
        s(dbg.as_bytes()),
        s(&hf)
    )
}

fn hex_plain(b: &[u8]) -> String {
    b.iter().map(|x| format!("{x:02x}")).collect()
}

/// `u64::from_str_radix(_, 16)` as the doc comment of `CustomAddr` describes the id:
/// the property only fixes what *must* be accepted (lower-case hex without prefix).
fn spec_custom(st: &str) -> Option<(u64, Vec<u8>)> {
    let (i, d) = st.split_once('_')?;
    if i.is_empty() || i.len() > 16 || !i.bytes().all(|c| c.is_ascii_digit() || (b'a'..=b'f').contains(&c)) {
        return None;
    }
    if d.len() % 2 != 0 || !d.bytes().all(|c| c.is_ascii_digit() || (b'a'..=b'f').contains(&c)) {
        return None;
    }
    Some((u64::from_str_radix(i, 16).ok()?, if d.is_empty() { vec![] } else { unhex(d)? }))
}

// ------------------------------------------------------------------------------------
// generator helpers
// ------------------------------------------------------------------------------------

const IDS: [u64; 16] = [
    0,
    1,
    9,
    10,
    15,
    16,
    255,
    256,
    0x544f52,
    0xdead_beef,
    u32::MAX as u64,
    u32::MAX as u64 + 1,
    i64::MAX as u64,
    i64::MAX as u64 + 1,
    u64::MAX - 1,
    u64::MAX,
];

fn special_points() -> Vec<[u8; 32]> {
    let mut v: Vec<[u8; 32]> = Vec::new();
    v.push([0u8; 32]); // y = 0 (order 4)
    let mut one = [0u8; 32];
    one[0] = 1;
    v.push(one); // identity
    let mut m = [0xffu8; 32];
    v.push(m); // non-canonical, sign bit set
    m[31] = 0x7f;
    v.push(m); // y = 2^255-1 ≥ p
    let mut p = [0xffu8; 32];
    p[0] = 0xed;
    p[31] = 0x7f;
    v.push(p); // y = p (non-canonical 0)
    p[0] = 0xec;
    v.push(p); // y = p-1 (order 2)
    p[0] = 0xee;
    v.push(p); // y = p+1 (non-canonical 1)
    let mut two = [0u8; 32];
    two[0] = 2;
    v.push(two); // not on the curve
    let mut sign = one;
    sign[31] = 0x80;
    v.push(sign); // identity with sign bit: x = 0 but sign 1
    // the small-order points listed in curve25519-dalek's EIGHT_TORSION
    v.push([
        0xc7, 0x17, 0x6a, 0x70, 0x3d, 0x4d, 0xd8, 0x4f, 0xba, 0x3c, 0x0b, 0x76, 0x0d, 0x10, 0x67,
        0x0f, 0x2a, 0x20, 0x53, 0xfa, 0x2c, 0x39, 0xcc, 0xc6, 0x4e, 0xc7, 0xfd, 0x77, 0x92, 0xac,
        0x03, 0x7a,
    ]);
    v.push([
        0x26, 0xe8, 0x95, 0x8f, 0xc2, 0xb2, 0x27, 0xb0, 0x45, 0xc3, 0xf4, 0x89, 0xf2, 0xef, 0x98,
        0xf0, 0xd5, 0xdf, 0xac, 0x05, 0xd3, 0xc6, 0x33, 0x39, 0xb1, 0x38, 0x02, 0x88, 0x6d, 0x53,
        0xfc, 0x05,
    ]);
    v
}

fn key_material(rng: &mut Rng) -> [u8; 32] {
    match rng.below(8) {
        0 => *rng.pick(&special_points()),
        1 | 2 => {
            let mut b = [0u8; 32];
            rng.fill(&mut b);
            b
        }
        _ => {
            let mut seed = [0u8; 32];
            rng.fill(&mut seed);
            *SecretKey::from_bytes(&seed).public().as_bytes()
        }
    }
}

fn rbytes(rng: &mut Rng, lo: u64, hi: u64) -> Vec<u8> {
    let n = rng.range(lo, hi) as usize;
    rng.bytes(n)
}

fn flip_case(rng: &mut Rng, st: &str, all: bool) -> String {
    st.chars()
        .map(|c| {
            if all || rng.chance(1, 3) {
                if c.is_ascii_lowercase() { c.to_ascii_uppercase() } else { c.to_ascii_lowercase() }
            } else {
                c
            }
        })
        .collect()
}

const MULTI: [&str; 6] = ["é", "ß", "€", "日", "😀", "\u{80}"];
const GARBAGE: &[u8] = b" !\"#$%&'()*+,-./:;<=>?@[\\]^_`{|}~\t018gGzZ=";

/// A string of exactly `len` bytes over `alphabet`, optionally with one multi-byte
/// character placed so that the *byte* length is still `len`.
fn string_of_len(rng: &mut Rng, len: usize, alphabet: &[u8], multibyte: bool) -> String {
    let mut out = String::new();
    let mut multi = multibyte;
    while out.len() < len {
        let left = len - out.len();
        if multi && rng.chance(1, 2) {
            let m = *rng.pick(&MULTI);
            if m.len() <= left {
                out.push_str(m);
                multi = rng.chance(1, 4);
                continue;
            }
        }
        out.push(*rng.pick(alphabet) as char);
    }
    out
}

fn mutate_string(rng: &mut Rng, st: &str) -> String {
    let mut chars: Vec<char> = st.chars().collect();
    match rng.below(9) {
        0 if !chars.is_empty() => {
            let i = rng.usize_below(chars.len());
            chars[i] = *rng.pick(GARBAGE) as char;
        }
        1 if !chars.is_empty() => {
            let i = rng.usize_below(chars.len());
            chars.remove(i);
        }
        2 => {
            let i = rng.usize_below(chars.len() + 1);
            chars.insert(i, *rng.pick(b"0aAzZ27=_+- ") as char);
        }
        3 if !chars.is_empty() => {
            // replace one character by a multi-byte one (byte length changes) ...
            let i = rng.usize_below(chars.len());
            chars[i] = rng.pick(&MULTI).chars().next().unwrap();
        }
        4 if chars.len() >= 4 => {
            // ... or keep the byte length: drop k characters, add one k-byte character
            let m = *rng.pick(&MULTI);
            let i = rng.usize_below(chars.len() - m.len() + 1);
            if chars[i..i + m.len()].iter().all(|c| c.is_ascii()) {
                chars.splice(i..i + m.len(), m.chars());
            }
        }
        5 if !chars.is_empty() => {
            // last symbol: most replacements leave non-zero trailing bits
            let i = chars.len() - 1;
            chars[i] = *rng.pick(b"1379bdfhBDFH7_z") as char;
        }
        6 => return flip_case(rng, st, true),
        7 => return flip_case(rng, st, false),
        _ if !chars.is_empty() => {
            let i = rng.usize_below(chars.len());
            let j = rng.usize_below(chars.len());
            chars.swap(i, j);
        }
        _ => {}
    }
    chars.into_iter().collect()
}

impl C02 {
    /// Table entry `<vpkey> <vpbit>` for the bytes `cand` the parser may ask about.
    fn vp(cand: Option<Vec<u8>>) -> String {
        match cand {
            Some(b) if b.len() == 32 => format!("{} {}", hex(&b), valid_point(&b) as u8),
            _ => "- 0".to_string(),
        }
    }

    fn push_pk_str(&self, out: &mut Vec<String>, st: &str) {
        out.push(format!("pk-str {} {}", hex(st.as_bytes()), Self::vp(spec_key_bytes(st))));
        out.push(format!("sk-str {}", hex(st.as_bytes())));
    }

    fn push_pk_z32(&self, out: &mut Vec<String>, st: &str) {
        let cand = self.z32.decode(st.as_bytes()).ok();
        out.push(format!("pk-z32 {} {}", hex(st.as_bytes()), Self::vp(cand)));
    }

    fn gen_basen(&self, rng: &mut Rng, tier: Tier, out: &mut Vec<String>) {
        let reps = if tier == Tier::Thorough { 6 } else { 1 };
        for alg in ALGS {
            let enc = self.alg(alg);
            let symbols: Vec<u8> = (0u8..128).filter(|c| enc.decode(&[*c, *c, *c, *c, *c, *c, *c, *c]).is_ok()).collect();
            for len in 0..=70usize {
                for _ in 0..reps {
                    let data = match rng.below(6) {
                        0 => vec![0u8; len],
                        1 => vec![0xffu8; len],
                        _ => rng.bytes(len),
                    };
                    out.push(format!("enc {alg} {}", hex(&data)));
                    let good = enc.encode(&data);
                    out.push(format!("dec {alg} {}", hex(good.as_bytes())));
                    out.push(format!("dec {alg} {}", hex(mutate_string(rng, &good).as_bytes())));
                    out.push(format!("dec {alg} {}", hex(mutate_string(rng, &good).as_bytes())));
                    // strings of every length 0..=70 over the alphabet (trailing bits arbitrary)
                    let st = string_of_len(rng, len, &symbols, false);
                    out.push(format!("dec {alg} {}", hex(st.as_bytes())));
                    let st = string_of_len(rng, len, &symbols, true);
                    out.push(format!("dec {alg} {}", hex(st.as_bytes())));
                }
            }
        }
    }

    fn gen_keys(&self, rng: &mut Rng, n: usize, out: &mut Vec<String>) {
        let hexa = b"0123456789abcdef";
        let hexb = b"0123456789abcdefABCDEF";
        let b32 = b"ABCDEFGHIJKLMNOPQRSTUVWXYZ234567";
        let b32l = b"abcdefghijklmnopqrstuvwxyz234567ABCDEFGHIJKLMNOPQRSTUVWXYZ";
        // the regression input of the repo's own test and friends
        for st in ["foobarbaz", "", "+", " ", "é", "\u{0}"] {
            self.push_pk_str(out, st);
            self.push_pk_z32(out, st);
        }
        // every byte length 0..=70 over each alphabet, with and without multi-byte characters
        for len in 0..=70usize {
            for (alpha, multi) in [
                (&hexa[..], false),
                (&hexa[..], true),
                (&hexb[..], false),
                (&b32[..], false),
                (&b32l[..], true),
                (GARBAGE, true),
                (Z32_SYMBOLS.as_bytes(), false),
            ] {
                let st = string_of_len(rng, len, alpha, multi);
                self.push_pk_str(out, &st);
                self.push_pk_z32(out, &st);
            }
            let raw = rng.bytes(len);
            out.push(format!("pk-bytes {} {}", hex(&raw), valid_point(&raw) as u8));
            out.push(format!("sk-bytes {}", hex(&raw)));
            out.push(format!("sig-bytes {}", hex(&raw)));
        }
        // the length-64 / length-52 boundaries with multi-byte characters
        for m in MULTI {
            for total in [52usize, 64] {
                for alpha in [&hexa[..], &b32[..]] {
                    let fill = string_of_len(rng, total - m.len(), alpha, false);
                    for pos in [0, fill.len() / 2, fill.len()] {
                        let mut st = fill.clone();
                        st.insert_str(pos, m);
                        self.push_pk_str(out, &st);
                        self.push_pk_z32(out, &st);
                    }
                }
                if total % m.len() == 0 {
                    let st = m.repeat(total / m.len());
                    self.push_pk_str(out, &st);
                    self.push_pk_z32(out, &st);
                }
                // 64 / 52 *characters* but more bytes
                let mut st = string_of_len(rng, total - 1, hexa, false);
                st.push_str(m);
                self.push_pk_str(out, &st);
            }
        }
        for p in special_points() {
            out.push(format!("pk-bytes {} {}", hex(&p), valid_point(&p) as u8));
            self.push_pk_str(out, &hex(&p));
            self.push_pk_str(out, &BASE32_NOPAD.encode(&p));
            self.push_pk_z32(out, &self.z32.encode(&p));
        }
        out.push(format!("sig-bytes {}", hex(&rng.bytes(64))));
        out.push(format!("sig-bytes {}", hex(&[0xffu8; 64])));
        // key material in every string form, then mutated
        for _ in 0..n {
            let k = key_material(rng);
            let forms = [
                hex(&k),
                BASE32_NOPAD.encode(&k),
                BASE32_NOPAD.encode(&k).to_ascii_lowercase(),
                self.z32.encode(&k),
                hex(&k).to_ascii_uppercase(),
            ];
            let f = rng.pick(&forms).clone();
            let st = if rng.chance(1, 2) { f } else { mutate_string(rng, &f) };
            match rng.below(8) {
                0 | 1 | 2 => self.push_pk_str(out, &st),
                3 | 4 => self.push_pk_z32(out, &st),
                5 => {
                    let mut b = k.to_vec();
                    if rng.chance(1, 3) {
                        let i = rng.usize_below(32);
                        b[i] ^= 1 << rng.below(8);
                    }
                    out.push(format!("pk-bytes {} {}", hex(&b), valid_point(&b) as u8));
                }
                6 => {
                    let sk = rng.bytes(32);
                    let msg = rbytes(rng, 0, 40);
                    let sk2 = if rng.chance(1, 4) { sk.clone() } else { rng.bytes(32) };
                    let mut msg2 = msg.clone();
                    match rng.below(4) {
                        0 => {}
                        1 => msg2.push(0),
                        2 if !msg2.is_empty() => {
                            let i = rng.usize_below(msg2.len());
                            msg2[i] ^= 1 << rng.below(8);
                        }
                        _ => msg2 = rbytes(rng, 0, 40),
                    }
                    out.push(format!("sig {} {} {} {}", hex(&sk), hex(&msg), hex(&sk2), hex(&msg2)));
                }
                _ => {
                    self.push_pk_str(out, &st);
                }
            }
        }
    }

    fn gen_custom(&self, rng: &mut Rng, tier: Tier, n: usize, out: &mut Vec<String>) {
        let lens: Vec<usize> = (0..=80).chain(250..=260).collect();
        // every length (incl. the 30/31 cut-off) x ids
        for &len in &lens {
            let ids: Vec<u64> = if tier == Tier::Thorough || (28..=33).contains(&len) {
                IDS.to_vec()
            } else {
                vec![*rng.pick(&IDS), *rng.pick(&IDS)]
            };
            for id in ids {
                let data = match rng.below(5) {
                    0 => vec![0u8; len],
                    1 => vec![9u8; len],
                    _ => rng.bytes(len),
                };
                out.push(format!("ca-parts {id} {}", hex(&data)));
                let a = CustomAddr::from_parts(id, &data);
                out.push(format!("ca-str {}", hex(a.to_string().as_bytes())));
                out.push(format!("ca-bin {}", hex(&a.to_vec())));
                out.push(format!("ca-pc {}", hex(&postcard::to_stdvec(&a).unwrap())));
                out.push(format!("ca-json {}", hex(serde_json::to_string(&a).unwrap().as_bytes())));
            }
            out.push(format!("ca-bin {}", hex(&rng.bytes(len))));
            out.push(format!("ca-pc {}", hex(&rng.bytes(len))));
        }
        // hand-written string forms around `u64::from_str_radix`
        for st in [
            "", "_", "+_", "-_", "+1_", "-1_", "++1_", "+-1_", "1_", "1", "_00", "0_", "00_", "0x1_",
            "ffffffffffffffff_", "FFFFFFFFFFFFFFFF_", "10000000000000000_", "0ffffffffffffffff_",
            "00000000000000000000000000000001_01", "+ffffffffffffffff_ab", "+10000000000000000_ab",
            "1_AB", "1_ab_cd", "1__", "1_a", "1_ag", "1_é", "é_00", "1 _00", " 1_00", "1_ 00", "1_00 ",
            "abc123", "xyz_0102", "1_ghij", "1_abc", "deadbeef_0102", "DEADBEEF_0102", "DeAdBeEf_01",
            "2a_abababababababababababababababababababababababababababababababab",
            "fffffffffffffffff_", "1_00\n", "１_00", "1＿00",
        ] {
            out.push(format!("ca-str {}", hex(st.as_bytes())));
        }
        // postcard: varint corner cases
        for blob in [
            "", "00", "0000", "8000", "800000", "80", "8080", "ffffffffffffffffff01", "ffffffffffffffffff0100",
            "ffffffffffffffffff02", "ffffffffffffffffff7f00", "ffffffffffffffffffff", "ffffffffffffffffff8100",
            "ffffffffffffffffffff0100", "80808080808080808080", "8080808080808080800000", "808080808080808080000",
            "0001", "000100", "0002ff", "00ffffffffffffffffff01", "0080808080808080808001", "001f", "001e", "00ff01",
            "01800100", "0181808000", "d29ebd021e090909", "d29ebd02ff1e09",
        ] {
            if let Some(b) = unhex(blob) {
                out.push(format!("ca-pc {}", hex(&b)));
            }
        }
        // every single-byte mutation of three seeds (postcard, binary, JSON)
        let step = if tier == Tier::Thorough { 1 } else { 37 };
        for len in [5usize, 30, 31] {
            let a = CustomAddr::from_parts(0x544f52, &vec![9u8; len]);
            let pc = postcard::to_stdvec(&a).unwrap();
            let js = serde_json::to_string(&a).unwrap().into_bytes();
            for idx in 0..pc.len() {
                let start = rng.below(step) as usize;
                for v in (start..256).step_by(step as usize) {
                    let mut m = pc.clone();
                    m[idx] = v as u8;
                    out.push(format!("ca-pc {}", hex(&m)));
                }
                out.push(format!("ca-pc {}", hex(&pc[..idx])));
            }
            for idx in 0..js.len() {
                let vals: &[u8] = if tier == Tier::Thorough {
                    &[b'0', b'9', b',', b']', b'}', b'-', b'"', b'e', b' ', 0x7f]
                } else {
                    &[b'9', b',', b']']
                };
                for &v in vals {
                    let mut m = js.clone();
                    m[idx] = v;
                    if std::str::from_utf8(&m).is_ok() {
                        out.push(format!("ca-json {}", hex(&m)));
                    }
                }
            }
            // the same seeds inside an EndpointAddr (the way a ticket carries them)
            let ea = EndpointAddr::from_parts(
                PublicKey::from_bytes(&[0; 32]).unwrap(),
                [TransportAddr::Custom(a.clone())],
            );
            let pc = postcard::to_stdvec(&ea).unwrap();
            let ea_step = if tier == Tier::Thorough { 1 } else { 97 };
            for idx in 0..pc.len() {
                let start = rng.below(ea_step) as usize;
                for v in (start..256).step_by(ea_step as usize) {
                    let mut m = pc.clone();
                    m[idx] = v as u8;
                    out.push(format!("ea-pc {}", hex(&m)));
                }
            }
        }
        for st in [
            r#"{"id":1,"data":[1,2,3]}"#, r#"{"id":1,"data":[]}"#, r#"{"id":1,"data":[256]}"#,
            r#"{"id":1,"data":[-1]}"#, r#"{"id":18446744073709551616,"data":[]}"#, r#"{"id":1}"#,
            r#"{"data":[1],"id":2}"#, r#"[1,[2,3]]"#, r#"{"id":1,"data":"ab"}"#,
            r#"{"id":1,"data":{"Inline":{"size":255,"data":[0]}}}"#, r#"{"id":1,"data":null}"#,
        ] {
            out.push(format!("ca-json {}", hex(st.as_bytes())));
        }
        for st in [
            "https://example.com", "https://example.com.", "https://example.com./", "http://127.0.0.1:3340/x?y#z",
            "https://[::1]:443", "example.com", "", "https://", "relay:foo", "https://é.example/ü",
            "HTTPS://EXAMPLE.COM:443/", "https://user:pw@host/", "file:///tmp/x", "https://a b/",
        ] {
            out.push(format!("url {}", hex(st.as_bytes())));
        }
        // comparisons: pairs that share ids / prefixes / straddle the cut-off
        let small: &[u8] = &[0, 1, 2, 255];
        for _ in 0..n {
            match rng.below(10) {
                0..=3 => {
                    let mk = |rng: &mut Rng| {
                        let len = match rng.below(4) {
                            0 => rng.range(28, 33) as usize,
                            1 => rng.range(0, 3) as usize,
                            _ => rng.range(0, 40) as usize,
                        };
                        (0..len).map(|_| *rng.pick(small)).collect::<Vec<u8>>()
                    };
                    let d1 = mk(rng);
                    let d2 = match rng.below(4) {
                        0 => d1.clone(),
                        1 => {
                            let mut d = d1.clone();
                            d.push(*rng.pick(small));
                            d
                        }
                        2 => {
                            let mut d = d1.clone();
                            d.pop();
                            d
                        }
                        _ => mk(rng),
                    };
                    let id1 = *rng.pick(&IDS[..4]);
                    let id2 = if rng.chance(2, 3) { id1 } else { *rng.pick(&IDS) };
                    out.push(format!("ca-cmp {id1} {} {id2} {}", hex(&d1), hex(&d2)));
                }
                4 => {
                    let a = CustomAddr::from_parts(rng.u64(), &rbytes(rng, 0, 70));
                    let st = mutate_string(rng, &a.to_string());
                    out.push(format!("ca-str {}", hex(st.as_bytes())));
                }
                5 => {
                    let a = CustomAddr::from_parts(rng.u64() >> rng.below(64), &rbytes(rng, 0, 70));
                    let mut b = postcard::to_stdvec(&a).unwrap();
                    match rng.below(4) {
                        0 => {}
                        1 if !b.is_empty() => {
                            let i = rng.usize_below(b.len());
                            b[i] = rng.byte();
                        }
                        2 => b.extend(rbytes(rng, 1, 4)),
                        _ => b.truncate(rng.usize_below(b.len() + 1)),
                    }
                    out.push(format!("ca-pc {}", hex(&b)));
                }
                6 => {
                    let len = *rng.pick(&lens);
                    out.push(format!("ca-parts {} {}", rng.u64() >> rng.below(64), hex(&rng.bytes(len))));
                }
                7 => out.push(format!("ea {}", rng.u64())),
                8 => {
                    let len = rng.range(0, 45) as usize;
                    out.push(format!("ca-bin {}", hex(&rng.bytes(len))));
                }
                _ => {
                    let id = rng.u64() >> rng.below(64);
                    let idf = match rng.below(5) {
                        0 => format!("{id:x}"),
                        1 => format!("{id:X}"),
                        2 => format!("+{id:x}"),
                        3 => format!("{id:020x}"),
                        _ => format!("{id:016x}"),
                    };
                    let d = rbytes(rng, 0, 40);
                    let df = if rng.chance(1, 5) { hex_plain(&d).to_ascii_uppercase() } else { hex_plain(&d) };
                    out.push(format!("ca-str {}", hex(format!("{idf}_{df}").as_bytes())));
                }
            }
        }
    }
}

fn exercise_endpoint_addr(ea: &EndpointAddr, ex: &mut Exec) {
    let _ = format!("{ea:?}");
    let _ = format!("{ea:#?}");
    let _ = ea.is_empty();
    let _ = ea.ip_addrs().count();
    let _ = ea.relay_urls().count();
    let _ = ea.id.fmt_short().to_string();
    let _ = ea.id.to_z32();
    let _ = ea.id.as_verifying_key();
    if !valid_point(ea.id.as_bytes()) {
        ex.violation("pk-accepted-invalid-point", hex(ea.id.as_bytes()));
    }
    for t in &ea.addrs {
        let _ = t.to_string();
        let _ = format!("{t:?}");
        let _ = (t.is_relay(), t.is_ip(), t.is_custom());
        if let TransportAddr::Custom(c) = t {
            let mut sub = Exec::default();
            let _ = describe_addr(c, &mut sub);
            ex.violations.append(&mut sub.violations);
        }
    }
    let pc = postcard::to_stdvec(ea).expect("postcard endpoint addr");
    match postcard::from_bytes::<EndpointAddr>(&pc) {
        Ok(b) if b == *ea && feed(&b) == feed(ea) && b.cmp(ea) == Ordering::Equal => {}
        _ => ex.violation("ea-postcard-roundtrip", hex(&pc)),
    }
    match serde_json::to_string(ea) {
        Ok(js) => match serde_json::from_str::<EndpointAddr>(&js) {
            Ok(b) if b == *ea => {}
            _ => ex.violation("ea-json-roundtrip", js),
        },
        Err(e) => ex.violation("ea-json-roundtrip", e.to_string()),
    }
}

impl Prop for C02 {
    fn id(&self) -> &'static str {
        "C02"
    }

    fn generate(&mut self, rng: &mut Rng, tier: Tier, n: usize, out: &mut Vec<String>) {
        // fixed, exhaustive-by-length parts first; the random parts get what is left of
        // the budget but never less than a floor
        self.gen_basen(rng, tier, out);
        let rest = n.saturating_sub(out.len());
        self.gen_keys(rng, (rest / 3).max(400), out);
        let rest = n.saturating_sub(out.len());
        self.gen_custom(rng, tier, rest.max(1200), out);
    }

    fn execute(&mut self, payload: &str) -> Exec {
        let tok: Vec<&str> = payload.split(' ').collect();
        let op = tok[0];
        let arg = |i: usize| unhex(tok[i]).expect("hex argument");
        let mut ex = Exec::default();
        ex.tags.push(op.to_string());
        match op {
            "enc" => {
                let enc = self.alg(tok[1]);
                let data = arg(2);
                let st = enc.encode(&data);
                if enc.decode(st.as_bytes()).ok().as_deref() != Some(&data[..]) {
                    ex.violation("basen-roundtrip", format!("{} {}", tok[1], st));
                }
                ex.out = hex(st.as_bytes());
                ex.nontrivial = true;
            }
            "dec" => {
                let enc = self.alg(tok[1]);
                let st = arg(2);
                match enc.decode(&st) {
                    Ok(b) => {
                        // canonical form: re-encoding gives the input back up to letter case
                        let back = enc.encode(&b);
                        if !back.as_bytes().eq_ignore_ascii_case(&st) {
                            ex.violation("basen-noncanonical-accepted", format!("{} {}", tok[1], hex(&st)));
                        }
                        ex.out = format!("ok {}", hex(&b));
                        ex.nontrivial = true;
                    }
                    Err(_) => ex.out = "err".into(),
                }
            }
            "pk-str" | "pk-z32" => {
                let bytes = arg(1);
                let st = as_str(&bytes);
                let vpkey = arg(2);
                if vpkey.len() == 32 {
                    assert_eq!(valid_point(&vpkey), tok[3] == "1", "validPoint table entry is wrong");
                }
                let (res, expect) = if op == "pk-str" {
                    (PublicKey::from_str(st), spec_key_bytes(st))
                } else {
                    let e = if st.len() == 52 && st.bytes().all(|c| Z32_SYMBOLS.as_bytes().contains(&c)) {
                        self.z32.decode(st.as_bytes()).ok().filter(|v| v.len() == 32)
                    } else {
                        None
                    };
                    (PublicKey::from_z32(st), e)
                };
                let expect = expect.filter(|b| valid_point(b));
                match &res {
                    Ok(k) => {
                        ex.out = describe_key(k, &mut ex);
                        ex.nontrivial = true;
                        match &expect {
                            Some(b) if b[..] == k.as_bytes()[..] => {}
                            Some(_) => ex.violation("pk-wrong-bytes", st),
                            None => ex.violation("pk-accepted-malformed", st),
                        }
                    }
                    Err(e) => {
                        ex.out = format!("err:{}", key_err(e));
                        let _ = e.to_string();
                        let _ = format!("{e:?}");
                        if expect.is_some() {
                            ex.violation("pk-rejected-valid", st);
                        }
                    }
                }
                ex.tags.push(format!("{op}:{}", if res.is_ok() { "ok" } else { "err" }));
            }
            "pk-bytes" => {
                let b = arg(1);
                let res = PublicKey::try_from(&b[..]);
                if let Ok(arr) = <[u8; 32]>::try_from(&b[..]) {
                    let r2 = PublicKey::from_bytes(&arr);
                    let r3 = PublicKey::try_from(&arr);
                    if r2.is_ok() != res.is_ok() || r3.is_ok() != res.is_ok() {
                        ex.violation("pk-bytes-routes-differ", hex(&b));
                    }
                    // postcard of the raw bytes is the binary form of a key
                    let r4 = postcard::from_bytes::<PublicKey>(&b);
                    if r4.is_ok() != res.is_ok() {
                        ex.violation("pk-postcard-accepts-differently", hex(&b));
                    }
                }
                let valid = b.len() == 32 && valid_point(&b);
                match &res {
                    Ok(k) => {
                        ex.out = describe_key(k, &mut ex);
                        ex.nontrivial = true;
                        if !valid || k.as_bytes()[..] != b[..] {
                            ex.violation("pk-accepted-invalid-point", hex(&b));
                        }
                    }
                    Err(e) => {
                        ex.out = format!("err:{}", key_err(e));
                        if valid {
                            ex.violation("pk-rejected-valid", hex(&b));
                        }
                    }
                }
            }
            "sk-str" => {
                let bytes = arg(1);
                let st = as_str(&bytes);
                let res = SecretKey::from_str(st);
                let expect = spec_key_bytes(st);
                match &res {
                    Ok(k) => {
                        let b = k.to_bytes();
                        ex.out = format!("ok {}", hex(&b));
                        ex.nontrivial = true;
                        if expect.as_deref() != Some(&b[..]) {
                            ex.violation("sk-accepted-malformed", st);
                        }
                        let _ = format!("{k:?}");
                        let p = k.public();
                        if !valid_point(p.as_bytes()) {
                            ex.violation("pk-accepted-invalid-point", hex(p.as_bytes()));
                        }
                        if SecretKey::from_str(&hex(&b)).map(|x| x.to_bytes()).ok() != Some(b)
                            || SecretKey::from_bytes(&b).to_bytes() != b
                            || SecretKey::from(b).to_bytes() != b
                            || SecretKey::try_from(&b[..]).map(|x| x.to_bytes()).ok() != Some(b)
                        {
                            ex.violation("sk-roundtrip", hex(&b));
                        }
                        let pc = postcard::to_stdvec(k).expect("postcard sk");
                        if postcard::from_bytes::<SecretKey>(&pc).map(|x| x.to_bytes()).ok() != Some(b) {
                            ex.violation("sk-postcard-roundtrip", hex(&pc));
                        }
                        let js = serde_json::to_string(k).expect("json sk");
                        if serde_json::from_str::<SecretKey>(&js).map(|x| x.to_bytes()).ok() != Some(b) {
                            ex.violation("sk-json-roundtrip", js);
                        }
                    }
                    Err(e) => {
                        ex.out = format!("err:{}", key_err(e));
                        if expect.is_some() {
                            ex.violation("sk-rejected-valid", st);
                        }
                    }
                }
            }
            "sk-bytes" => {
                let b = arg(1);
                match SecretKey::try_from(&b[..]) {
                    Ok(k) => {
                        ex.out = format!("ok {}", hex(&k.to_bytes()));
                        ex.nontrivial = true;
                        if k.to_bytes()[..] != b[..] {
                            ex.violation("sk-roundtrip", hex(&b));
                        }
                    }
                    Err(e) => {
                        ex.out = format!("err:{}", key_err(&e));
                        if b.len() == 32 {
                            ex.violation("sk-rejected-valid", hex(&b));
                        }
                    }
                }
            }
            "sig-bytes" => {
                let b = arg(1);
                match Signature::try_from(&b[..]) {
                    Ok(sg) => {
                        let bb = sg.to_bytes();
                        ex.out = format!("ok {}", hex(&bb));
                        ex.nontrivial = true;
                        let _ = sg.to_string();
                        let _ = format!("{sg:?}");
                        if bb[..] != b[..] || Signature::from_bytes(&bb) != sg {
                            ex.violation("sig-bytes-roundtrip", hex(&b));
                        }
                        let pc = postcard::to_stdvec(&sg).expect("postcard sig");
                        if pc != b || postcard::from_bytes::<Signature>(&pc).ok() != Some(sg) {
                            ex.violation("sig-postcard-roundtrip", hex(&pc));
                        }
                        let js = serde_json::to_string(&sg).expect("json sig");
                        if serde_json::from_str::<Signature>(&js).ok() != Some(sg) {
                            ex.violation("sig-json-roundtrip", js);
                        }
                        // a parsed signature is safe to verify with
                        let k = SecretKey::from_bytes(&[7; 32]).public();
                        let _ = k.verify(b"msg", &sg);
                    }
                    Err(e) => {
                        ex.out = "err:sig".into();
                        let _ = e.to_string();
                        if b.len() == 64 {
                            ex.violation("sig-rejected-valid", hex(&b));
                        }
                    }
                }
            }
            "sig" => {
                let (sk, msg, sk2, msg2) = (arg(1), arg(2), arg(3), arg(4));
                let k = SecretKey::try_from(&sk[..]).expect("32 bytes");
                let k2 = SecretKey::try_from(&sk2[..]).expect("32 bytes");
                let sg = k.sign(&msg);
                let own = k.public().verify(&msg, &sg).is_ok();
                let othermsg = k.public().verify(&msg2, &sg).is_ok();
                let otherkey = k2.public().verify(&msg, &sg).is_ok();
                if !own {
                    ex.violation("sig-own-rejected", hex(&sk));
                }
                if othermsg != (msg == msg2) {
                    ex.violation("sig-other-message", hex(&msg2));
                }
                if otherkey != (sk == sk2) {
                    ex.violation("sig-other-key", hex(&sk2));
                }
                // a signature survives its encodings
                let b = sg.to_bytes();
                if Signature::try_from(&b[..]).ok() != Some(sg) || Signature::from_bytes(&b) != sg {
                    ex.violation("sig-bytes-roundtrip", hex(&b));
                }
                let t = |b: bool| if b { "ok" } else { "err" };
                ex.out = format!("own={} othermsg={} otherkey={}", t(own), t(othermsg), t(otherkey));
                ex.nontrivial = true;
            }
            "ca-parts" => {
                let id: u64 = tok[1].parse().expect("id");
                let data = arg(2);
                let a = CustomAddr::from_parts(id, &data);
                if a.id() != id || a.data() != &data[..] {
                    ex.violation("ca-parts-roundtrip", format!("{a:?}"));
                }
                ex.out = describe_addr(&a, &mut ex);
                ex.nontrivial = true;
                ex.tags.push(format!("ca-len:{}", match data.len() { 0..=29 => "<30", 30 => "30", 31 => "31", _ => ">31" }));
            }
            "ca-str" => {
                let bytes = arg(1);
                let st = as_str(&bytes);
                let expect = spec_custom(st);
                match CustomAddr::from_str(st) {
                    Ok(a) => {
                        ex.out = format!("ok {}", describe_addr(&a, &mut ex));
                        ex.nontrivial = true;
                        if let Some((id, d)) = &expect {
                            if a.id() != *id || a.data() != &d[..] {
                                ex.violation("ca-str-wrong-value", st);
                            }
                        }
                    }
                    Err(e) => {
                        let _ = format!("{e:?}");
                        let msg = e.to_string();
                        ex.out = format!(
                            "err:{}",
                            if msg.contains("separator") {
                                "sep"
                            } else if msg.contains("invalid id") {
                                "id"
                            } else if msg.contains("invalid data") {
                                "data"
                            } else {
                                "other"
                            }
                        );
                        if expect.is_some() {
                            ex.violation("ca-str-rejected-valid", st);
                        }
                    }
                }
            }
            "ca-bin" => {
                let b = arg(1);
                match CustomAddr::from_bytes(&b) {
                    Ok(a) => {
                        ex.out = format!("ok {}", describe_addr(&a, &mut ex));
                        ex.nontrivial = true;
                        if b.len() < 8 || a.to_vec() != b {
                            ex.violation("ca-bin-roundtrip", hex(&b));
                        }
                    }
                    Err(_) => {
                        ex.out = "err:short".into();
                        if b.len() >= 8 {
                            ex.violation("ca-bin-rejected-valid", hex(&b));
                        }
                    }
                }
            }
            "ca-pc" => {
                let b = arg(1);
                match postcard::take_from_bytes::<CustomAddr>(&b) {
                    Ok((a, rest)) => {
                        let d = describe_addr(&a, &mut ex);
                        ex.out = format!("ok {d} rest={}", rest.len());
                        ex.nontrivial = true;
                        if postcard::from_bytes::<CustomAddr>(&b).ok().as_ref() != Some(&a) {
                            ex.violation("ca-postcard-routes-differ", hex(&b));
                        }
                    }
                    Err(e) => {
                        ex.out = format!(
                            "err:{}",
                            match e {
                                postcard::Error::DeserializeUnexpectedEnd => "end",
                                postcard::Error::DeserializeBadVarint => "varint",
                                _ => "other",
                            }
                        );
                    }
                }
            }
            "ca-cmp" => {
                let (id1, d1): (u64, Vec<u8>) = (tok[1].parse().expect("id"), arg(2));
                let (id2, d2): (u64, Vec<u8>) = (tok[3].parse().expect("id"), arg(4));
                let a = CustomAddr::from_parts(id1, &d1);
                let b = CustomAddr::from_parts(id2, &d2);
                let logical = id1 == id2 && d1 == d2;
                let eq = a == b;
                let c = a.cmp(&b);
                let hasheq = feed(&a) == feed(&b);
                if eq != logical || (c == Ordering::Equal) != logical || (logical && !hasheq) {
                    ex.violation("ca-eq-ord-hash", format!("{a:#?} vs {b:#?}: eq={eq} cmp={c:?} hasheq={hasheq}"));
                }
                if b.cmp(&a) != c.reverse() || a.partial_cmp(&b) != Some(c) || (b == a) != eq {
                    ex.violation("ca-ord-asymmetric", format!("{a:?} vs {b:?}"));
                }
                let mut std_h = (std::hash::DefaultHasher::new(), std::hash::DefaultHasher::new());
                a.hash(&mut std_h.0);
                b.hash(&mut std_h.1);
                if logical && std_h.0.finish() != std_h.1.finish() {
                    ex.violation("ca-eq-ord-hash", "DefaultHasher differs for equal addresses");
                }
                ex.out = format!(
                    "eq={} cmp={} hasheq={}",
                    eq as u8,
                    match c { Ordering::Less => "lt", Ordering::Equal => "eq", Ordering::Greater => "gt" },
                    hasheq as u8
                );
                ex.nontrivial = true;
                ex.tags.push(format!("ca-cmp:{}", if logical { "equal" } else { "different" }));
            }
            "ca-json" => {
                let bytes = arg(1);
                if let Ok(a) = serde_json::from_str::<CustomAddr>(as_str(&bytes)) {
                    let _ = describe_addr(&a, &mut ex);
                    ex.nontrivial = true;
                    ex.tags.push("ca-json:ok".into());
                }
                ex.out = "checked".into();
            }
            "ea-pc" => {
                let b = arg(1);
                if let Ok(ea) = postcard::from_bytes::<EndpointAddr>(&b) {
                    exercise_endpoint_addr(&ea, &mut ex);
                    ex.nontrivial = true;
                    ex.tags.push("ea-pc:ok".into());
                }
                ex.out = "checked".into();
            }
            "ea" => {
                let mut rng = Rng::new(tok[1].parse().expect("seed"));
                let mut seed = [0u8; 32];
                rng.fill(&mut seed);
                let id = SecretKey::from_bytes(&seed).public();
                let mut addrs: Vec<TransportAddr> = Vec::new();
                for _ in 0..rng.below(6) {
                    addrs.push(match rng.below(4) {
                        0 => {
                            let urls: [&str; 3] = ["https://relay.example.com", "http://127.0.0.1:3340/", "https://é.example./p?q"];
                            let u: &str = urls[rng.usize_below(3)];
                            TransportAddr::Relay(RelayUrl::from_str(u).expect("url"))
                        }
                        1 => TransportAddr::Ip(SocketAddr::from(([rng.byte(), rng.byte(), rng.byte(), rng.byte()], rng.u64() as u16))),
                        2 => {
                            let mut ip = [0u8; 16];
                            rng.fill(&mut ip);
                            TransportAddr::Ip(SocketAddr::from((ip, rng.u64() as u16)))
                        }
                        _ => {
                            let len = match rng.below(3) { 0 => rng.range(29, 32) as usize, _ => rng.range(0, 64) as usize };
                            TransportAddr::Custom(CustomAddr::from_parts(*rng.pick(&IDS), &rng.bytes(len)))
                        }
                    });
                }
                let ea = EndpointAddr::from_parts(id, addrs.clone());
                if EndpointAddr::new(id).with_addrs(addrs) != ea {
                    ex.violation("ea-constructors-differ", format!("{ea:?}"));
                }
                exercise_endpoint_addr(&ea, &mut ex);
                ex.out = "checked".into();
                ex.nontrivial = true;
            }
            "url" => {
                let bytes = arg(1);
                if let Ok(u) = RelayUrl::from_str(as_str(&bytes)) {
                    let disp = u.to_string();
                    let _ = format!("{u:?}");
                    match RelayUrl::from_str(&disp) {
                        Ok(u2) if u2 == u && feed(&u2) == feed(&u) => {}
                        _ => ex.violation("url-display-roundtrip", disp.clone()),
                    }
                    let pc = postcard::to_stdvec(&u).expect("postcard url");
                    if postcard::from_bytes::<RelayUrl>(&pc).ok().as_ref() != Some(&u) {
                        ex.violation("url-postcard-roundtrip", disp.clone());
                    }
                    let js = serde_json::to_string(&u).expect("json url");
                    if serde_json::from_str::<RelayUrl>(&js).ok().as_ref() != Some(&u) {
                        ex.violation("url-json-roundtrip", disp.clone());
                    }
                    ex.nontrivial = true;
                }
                ex.out = "checked".into();
            }
            other => panic!("unknown op {other}"),
        }
        ex
    }
}

fn main() {
    run(C02::new());
}
