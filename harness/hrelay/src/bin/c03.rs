//! C03 — relay handshake admits an identity only with proof of its secret key.
//!
//! payload (symbolic recipe; the server's challenge is random, so concrete frames are
//! materialised while the real `serverside` runs):
//!   `adv <hdr> <frame> <access> <wfail> <srvsecret>`
//!      hdr    = none | honest:<key>:<clisecret> | sigbad:<key>:<clisecret> | lifted:<key>:<clisecret> | otherkey:<key>:<clisecret>
//!               | badpoint | trail:<key>:<clisecret> | trunc:<key>:<clisecret>:<n> | raw:<hex bytes of header value>
//!      frame  = eof | ioerr | raw:<hex> | auth:<key>:<sigkind>:<mutation>
//!               sigkind  = good | otherkey | stale | rawchal | garbage
//!               mutation = none | trail | trunc<n> | longtag | longleb | tag<n> | flip<bit> | badpoint
//!      access = allow | deny:<hex utf8 reason> | denynone
//!      wfail  = none | <k>   (k-th write on the sink fails)
//!      srvsecret = none | <n>  (server side TLS exporter secret; clisecret likewise)
//!   `honest <key> <clisecret|none> <srvsecret|none> <access>`   real clientside against real serverside
//! model input: concrete bytes + verdicts of the real cryptography as oracle facts (see Driver/C03.lean)
//! output: `<auth> | <final> | <written frames>`
use std::pin::Pin;
use std::task::{Context, Poll};

use bytes::Bytes;
use http::HeaderValue;
use iroh_base::{PublicKey, SecretKey, Signature};
use iroh_relay::ExportKeyingMaterial;
use iroh_relay::protos::handshake::{self, Mechanism, verif_hooks as hk};
use iroh_relay::server::Access;
use n0_error::AnyError;
use n0_future::{Sink, Stream};
use vcommon::*;

const LABEL: &[u8] = hk::TLS_EXPORT_LABEL;

fn secret(i: u64) -> SecretKey {
    let mut b = [0u8; 32];
    b[0] = 0x42;
    b[1..9].copy_from_slice(&i.to_le_bytes());
    SecretKey::from_bytes(&b)
}

/// Deterministic stand-in for the TLS exporter: a function of (secret, label, context).
fn export(secret: u64, label: &[u8], context: &[u8]) -> [u8; 32] {
    let mut h: u64 = 0xcbf29ce484222325 ^ secret.wrapping_mul(0x9E37_79B9_7F4A_7C15);
    for b in label.iter().chain([0xffu8].iter()).chain(context.iter()) {
        h ^= *b as u64;
        h = h.wrapping_mul(0x100000001b3);
    }
    let mut r = Rng::new(h);
    let mut out = [0u8; 32];
    r.fill(&mut out);
    out
}

#[derive(Clone, Debug)]
enum FrameRecipe {
    Eof,
    IoErr,
    Raw(Vec<u8>),
    Auth { key: u64, sig: String, mutation: String },
}

struct Io {
    km_secret: Option<u64>,
    recipe: Option<FrameRecipe>,
    /// frames handed to the server (materialised)
    delivered: Vec<Option<Vec<u8>>>,
    written: Vec<Vec<u8>>,
    writes: usize,
    wfail: Option<usize>,
    pending_fail: bool,
}

impl Io {
    fn challenge(&self) -> Option<[u8; 16]> {
        let f = self.written.first()?;
        if f.len() == 17 && f[0] == 0 {
            let mut c = [0u8; 16];
            c.copy_from_slice(&f[1..]);
            Some(c)
        } else {
            None
        }
    }
    fn materialise(&self, r: &FrameRecipe) -> Option<Vec<u8>> {
        match r {
            FrameRecipe::Eof | FrameRecipe::IoErr => None,
            FrameRecipe::Raw(b) => Some(b.clone()),
            FrameRecipe::Auth { key, sig, mutation } => {
                let chal = self.challenge().unwrap_or([0u8; 16]);
                let sk = secret(*key);
                let msg = hk::message_to_sign(chal);
                let sig_bytes: [u8; 64] = match sig.as_str() {
                    "good" => sk.sign(&msg).to_bytes(),
                    "otherkey" => secret(key + 1000).sign(&msg).to_bytes(),
                    "stale" => sk.sign(&hk::message_to_sign([7u8; 16])).to_bytes(),
                    "rawchal" => sk.sign(&chal).to_bytes(),
                    _ => [0x5a; 64],
                };
                let mut pk = sk.public().as_bytes().to_vec();
                let mut tag = vec![1u8];
                let mut leb = vec![64u8];
                let mut tail: Vec<u8> = Vec::new();
                let mut trunc: Option<usize> = None;
                let mut flip: Option<usize> = None;
                match mutation.as_str() {
                    "none" => {}
                    "trail" => tail = vec![1, 2, 3, 4, 5],
                    "longtag" => tag = vec![0x40, 0x01],
                    "longleb" => leb = vec![0xc0, 0x00],
                    "badpoint" => pk = bad_point().to_vec(),
                    m if m.starts_with("trunc") => trunc = m[5..].parse().ok(),
                    m if m.starts_with("tag") => {
                        let t: u64 = m[3..].parse().unwrap_or(0);
                        tag = quic_varint(t);
                    }
                    m if m.starts_with("flip") => flip = m[4..].parse().ok(),
                    _ => {}
                }
                let mut f = tag;
                f.extend_from_slice(&pk);
                f.extend_from_slice(&leb);
                f.extend_from_slice(&sig_bytes);
                f.extend_from_slice(&tail);
                if let Some(n) = trunc {
                    f.truncate(n.min(f.len()));
                }
                if let Some(bit) = flip {
                    let i = (bit / 8) % f.len();
                    f[i] ^= 1 << (bit % 8);
                }
                Some(f)
            }
        }
    }
}

fn quic_varint(x: u64) -> Vec<u8> {
    if x < 1 << 6 {
        vec![x as u8]
    } else if x < 1 << 14 {
        ((x as u16) | 0x4000).to_be_bytes().to_vec()
    } else if x < 1 << 30 {
        ((x as u32) | 0x8000_0000).to_be_bytes().to_vec()
    } else {
        (x | 0xc000_0000_0000_0000).to_be_bytes().to_vec()
    }
}

fn bad_point() -> [u8; 32] {
    // search a 32-byte string that is not a valid ed25519 point (deterministic)
    let mut r = Rng::new(99);
    loop {
        let mut b = [0u8; 32];
        r.fill(&mut b);
        if PublicKey::from_bytes(&b).is_err() {
            return b;
        }
    }
}

impl ExportKeyingMaterial for Io {
    fn export_keying_material<T: AsMut<[u8]>>(&self, mut output: T, label: &[u8], context: Option<&[u8]>) -> Option<T> {
        let s = self.km_secret?;
        let km = export(s, label, context.unwrap_or(&[]));
        let o = output.as_mut();
        let n = o.len().min(32);
        o[..n].copy_from_slice(&km[..n]);
        Some(output)
    }
}

impl Stream for Io {
    type Item = Result<Bytes, AnyError>;
    fn poll_next(mut self: Pin<&mut Self>, _cx: &mut Context<'_>) -> Poll<Option<Self::Item>> {
        let r = self.recipe.take().unwrap_or(FrameRecipe::Eof);
        match r {
            FrameRecipe::Eof => {
                self.delivered.push(None);
                Poll::Ready(None)
            }
            FrameRecipe::IoErr => {
                self.delivered.push(None);
                Poll::Ready(Some(Err(n0_error::anyerr!("injected read error"))))
            }
            other => {
                let f = self.materialise(&other).unwrap();
                self.delivered.push(Some(f.clone()));
                Poll::Ready(Some(Ok(Bytes::from(f))))
            }
        }
    }
}

impl Sink<Bytes> for Io {
    type Error = AnyError;
    fn poll_ready(self: Pin<&mut Self>, _cx: &mut Context<'_>) -> Poll<Result<(), AnyError>> {
        Poll::Ready(Ok(()))
    }
    fn start_send(mut self: Pin<&mut Self>, item: Bytes) -> Result<(), AnyError> {
        let k = self.writes;
        self.writes += 1;
        if self.wfail == Some(k) {
            self.pending_fail = true;
            return Err(n0_error::anyerr!("injected write error"));
        }
        self.written.push(item.to_vec());
        Ok(())
    }
    fn poll_flush(self: Pin<&mut Self>, _cx: &mut Context<'_>) -> Poll<Result<(), AnyError>> {
        Poll::Ready(Ok(()))
    }
    fn poll_close(self: Pin<&mut Self>, _cx: &mut Context<'_>) -> Poll<Result<(), AnyError>> {
        Poll::Ready(Ok(()))
    }
}

fn err_class(e: &handshake::Error) -> &'static str {
    use handshake::Error::*;
    match e {
        Websocket { .. } => "websocket",
        UnexpectedEnd { .. } => "unexpected-end",
        FrameTypeError { .. } => "frame-type",
        ServerDeniedAuth { .. } => "server-denied",
        UnexpectedFrameType { .. } => "unexpected-frame-type",
        DeserializationError { .. } => "deserialization",
        ClientAuthHeaderInvalid { .. } => "header-invalid",
        _ => "other",
    }
}

fn km_header_bytes(pk: &[u8], sig: &[u8], suffix: &[u8], tail: &[u8]) -> Vec<u8> {
    let mut raw = pk.to_vec();
    raw.push(64);
    raw.extend_from_slice(sig);
    raw.extend_from_slice(suffix);
    raw.extend_from_slice(tail);
    raw
}

fn b64(raw: &[u8]) -> Vec<u8> {
    data_encoding::BASE64URL_NOPAD.encode(raw).into_bytes()
}

/// Builds the header value bytes for a header recipe.
fn build_header(spec: &str) -> Option<Vec<u8>> {
    let p: Vec<&str> = spec.split(':').collect();
    let key = |i: usize| -> u64 { p.get(i).and_then(|s| s.parse().ok()).unwrap_or(0) };
    match p[0] {
        "none" => None,
        "raw" => Some(unhex(p[1]).expect("hex")),
        "badpoint" => Some(b64(&km_header_bytes(&bad_point(), &[1u8; 64], &[2u8; 16], &[]))),
        kind => {
            let sk = secret(key(1));
            let cs = key(2);
            let pk = sk.public();
            let km = export(cs, LABEL, pk.as_bytes());
            let good_sig = sk.sign(&km[..16]).to_bytes();
            let raw = match kind {
                "honest" => km_header_bytes(pk.as_bytes(), &good_sig, &km[16..], &[]),
                "sigbad" => km_header_bytes(pk.as_bytes(), &[0x33; 64], &km[16..], &[]),
                // a challenge-path answer (signature over derive_key(challenge)) obtained from the
                // honest key holder for challenge = km[..16], lifted into a key-material header:
                // the two proofs must stay domain-separated
                "lifted" => {
                    let mut c = [0u8; 16];
                    c.copy_from_slice(&km[..16]);
                    km_header_bytes(pk.as_bytes(), &sk.sign(&hk::message_to_sign(c)).to_bytes(), &km[16..], &[])
                }
                "otherkey" => {
                    // claims key+1's identity, signed with key's secret over the material bound to key+1
                    let victim = secret(key(1) + 1).public();
                    let kmv = export(cs, LABEL, victim.as_bytes());
                    km_header_bytes(victim.as_bytes(), &sk.sign(&kmv[..16]).to_bytes(), &kmv[16..], &[])
                }
                "trail" => km_header_bytes(pk.as_bytes(), &good_sig, &km[16..], &[9, 9, 9]),
                "trunc" => {
                    let mut r = km_header_bytes(pk.as_bytes(), &good_sig, &km[16..], &[]);
                    r.truncate(key(3) as usize);
                    r
                }
                _ => panic!("header recipe"),
            };
            Some(b64(&raw))
        }
    }
}

struct Facts {
    vp: Vec<String>,
    vf: Vec<String>,
    km: Vec<String>,
}

impl Facts {
    fn add_pk(&mut self, pk: &[u8]) -> Option<PublicKey> {
        let arr: Option<[u8; 32]> = pk.try_into().ok();
        let k = arr.and_then(|a| PublicKey::from_bytes(&a).ok());
        self.vp.push(format!("{}:{}", hex(pk), k.is_some() as u8));
        k
    }
    fn add_verify(&mut self, k: &PublicKey, msg: &[u8], sig: &[u8]) -> bool {
        let ok = <[u8; 64]>::try_from(sig).ok().is_some_and(|s| k.verify(msg, &Signature::from_bytes(&s)).is_ok());
        self.vf.push(format!("{}:{}:{}:{}", hex(k.as_bytes()), hex(msg), hex(sig), ok as u8));
        ok
    }
}

fn join(v: &[String]) -> String {
    if v.is_empty() { "-".into() } else { v.join(",") }
}

/// Byte offset after a QUIC varint, if complete.
fn skip_varint(b: &[u8]) -> Option<usize> {
    let first = *b.first()?;
    let n = 1usize << (first >> 6);
    (b.len() >= n).then_some(n)
}

/// Candidate (pk, sig) at the canonical offsets of a postcard `pk ++ leb ++ sig` body.
fn candidates(body: &[u8]) -> Option<(&[u8], &[u8], &[u8])> {
    if body.len() < 32 {
        return None;
    }
    let pk = &body[..32];
    let rest = &body[32..];
    // LEB128 length
    let mut i = 0;
    while i < rest.len() && rest[i] & 0x80 != 0 {
        i += 1;
    }
    if i >= rest.len() {
        return Some((pk, &[], &[]));
    }
    let after = &rest[i + 1..];
    if after.len() < 64 {
        return Some((pk, &[], &[]));
    }
    Some((pk, &after[..64], &after[64..]))
}

struct C03;

impl C03 {
    fn run_adv(&self, t: &[&str]) -> Exec {
        let hdr = build_header(t[1]);
        let access_spec = t[3];
        let wfail: Option<usize> = t[4].parse().ok();
        let srv: Option<u64> = t[5].parse().ok();
        let recipe = {
            let p: Vec<&str> = t[2].split(':').collect();
            match p[0] {
                "eof" => FrameRecipe::Eof,
                "ioerr" => FrameRecipe::IoErr,
                "raw" => FrameRecipe::Raw(unhex(p[1]).expect("hex")),
                "auth" => FrameRecipe::Auth { key: p[1].parse().unwrap(), sig: p[2].into(), mutation: p[3].into() },
                "replay" => {
                    // an earlier session of the same server process: an honest client of `key`
                    // answers that session's challenge; the attacker records the frame and
                    // presents it in the session under test.
                    let mut io0 = Io { km_secret: None, recipe: Some(FrameRecipe::Auth { key: p[1].parse().unwrap(), sig: "good".into(), mutation: "none".into() }), delivered: vec![], written: vec![], writes: 0, wfail: None, pending_fail: false };
                    let rt0 = tokio::runtime::Builder::new_current_thread().build().unwrap();
                    let _ = rt0.block_on(async { handshake::serverside(&mut io0, None).await.map(|_| ()) });
                    match io0.delivered.first() {
                        Some(Some(f)) => FrameRecipe::Raw(f.clone()),
                        _ => FrameRecipe::Eof,
                    }
                }
                _ => panic!("frame recipe"),
            }
        };
        let mut io = Io { km_secret: srv, recipe: Some(recipe.clone()), delivered: vec![], written: vec![], writes: 0, wfail, pending_fail: false };
        let hv = match &hdr {
            None => None,
            Some(b) => match HeaderValue::from_bytes(b) {
                Ok(v) => Some(v),
                Err(_) => return Exec::new("illegal-header").tag("illegal-header"),
            },
        };
        let rt = tokio::runtime::Builder::new_current_thread().build().unwrap();
        let access = match access_spec {
            "allow" => Access::Allow,
            "denynone" => Access::Deny { reason: None },
            s => Access::Deny { reason: Some(String::from_utf8(unhex(&s[5..]).unwrap()).unwrap()) },
        };
        let (auth, fin) = rt.block_on(async {
            match handshake::serverside(&mut io, hv).await {
                Err(e) => (Err(err_class(&e)), None),
                Ok(sa) => {
                    let k = sa.client_key;
                    let m = sa.mechanism;
                    let f = sa.authorize_if(access, &mut io).await;
                    (Ok((k, m)), Some(f.map_err(|e| err_class(&e))))
                }
            }
        });
        let written: Vec<String> = io.written.iter().map(|f| hex(f)).collect();
        let auth_s = match &auth {
            Ok((k, m)) => format!("ok:{}:{}", hex(k.as_bytes()), if *m == Mechanism::SignedChallenge { "challenge" } else { "keymaterial" }),
            Err(c) => format!("err:{c}"),
        };
        let fin_s = match &fin {
            None => "-".to_string(),
            Some(Ok(k)) => format!("admit:{}", hex(k.as_bytes())),
            Some(Err(c)) => format!("err:{c}"),
        };
        let mut ex = Exec::new(format!("{auth_s} | {fin_s} | {}", join(&written)));

        // ---- facts for the model (verdicts of the real cryptography) -------------------
        let chal = io.challenge();
        let dk = chal.map(hk::message_to_sign);
        let mut facts = Facts { vp: vec![], vf: vec![], km: vec![] };
        let mut proven: Vec<(Vec<u8>, &'static str)> = Vec::new(); // (key, mechanism) with a verifying signature
        if let Some(h) = &hdr {
            if let Ok(raw) = data_encoding::BASE64URL_NOPAD.decode(h) {
                if let Some((pk, sig, rest)) = candidates(&raw) {
                    if let Some(k) = facts.add_pk(pk) {
                        let kms = srv.map(|s| export(s, LABEL, k.as_bytes()));
                        facts.km.push(format!("{}:{}", hex(pk), kms.map(|k| hex(&k)).unwrap_or("none".into())));
                        if let Some(kms) = kms {
                            if sig.len() == 64 {
                                let ok = facts.add_verify(&k, &kms[..16], sig);
                                if ok && rest.len() >= 16 && rest[..16] == kms[16..] {
                                    proven.push((pk.to_vec(), "keymaterial"));
                                }
                            }
                        }
                    }
                }
            }
        }
        if let (Some(Some(f)), Some(dk)) = (io.delivered.first(), dk) {
            if let Some(off) = skip_varint(f) {
                if let Some((pk, sig, _)) = candidates(&f[off..]) {
                    if let Some(k) = facts.add_pk(pk) {
                        if sig.len() == 64 && facts.add_verify(&k, &dk, sig) {
                            proven.push((pk.to_vec(), "challenge"));
                        }
                    }
                }
            }
        }
        let frames_s: Vec<String> = match (&recipe, io.delivered.first()) {
            (_, Some(Some(f))) => vec![format!("F:{}", hex(f))],
            (FrameRecipe::IoErr, _) => vec!["E".into()],
            _ => vec![],
        };
        ex.model_input = Some(format!(
            "adv hdr={} chal={} frames={} access={} wfail={} dk={} vp={} vf={} km={}",
            hdr.as_ref().map(|h| hex(h)).unwrap_or("none".into()),
            chal.map(|c| hex(&c)).unwrap_or("none".into()),
            join(&frames_s),
            access_spec,
            t[4],
            dk.map(|d| hex(&d)).unwrap_or("none".into()),
            join(&facts.vp),
            join(&facts.vf),
            join(&facts.km),
        ));

        // ---- oracle (independent of the model) --------------------------------------------
        if t[2].starts_with("replay:") {
            if let Ok((_, Mechanism::SignedChallenge)) = &auth {
                ex.violation("replayed-signature-accepted", "a ClientAuth frame recorded in an earlier session authenticated this session (challenge not fresh)");
            }
            ex.tags.push("replay".into());
        }
        match &auth {
            Ok((k, m)) => {
                let mech = if *m == Mechanism::SignedChallenge { "challenge" } else { "keymaterial" };
                if !proven.iter().any(|(pk, pm)| pk == k.as_bytes() && *pm == mech) {
                    ex.violation("authenticated-without-proof", format!("server reports {} via {mech} but no presented signature verifies for it", hex(k.as_bytes())));
                }
                ex.nontrivial = true;
                ex.tags.push(format!("auth-ok-{mech}"));
            }
            Err(c) => {
                ex.tags.push(format!("auth-err-{c}"));
                // completeness for recipes that are honest by construction
                let honest_frame = matches!(&recipe, FrameRecipe::Auth { sig, mutation, .. } if sig == "good" && matches!(mutation.as_str(), "none" | "trail" | "longtag" | "longleb"));
                let hdr_fatal = *c == "header-invalid";
                if honest_frame && !hdr_fatal && wfail != Some(0) {
                    ex.violation("honest-rejected", format!("client signed the fresh challenge but got {c}"));
                }
            }
        }
        let is_deny = access_spec != "allow";
        if let Some(f) = &fin {
            match f {
                Ok(k) => {
                    if is_deny {
                        ex.violation("deny-admitted", "authorization denied but connection admitted");
                    }
                    if auth.as_ref().ok().map(|a| a.0) != Some(*k) {
                        ex.violation("admitted-other-key", "admitted key differs from authenticated key");
                    }
                    if io.written.last().map(|f| f.as_slice()) != Some(&[2u8][..]) {
                        ex.violation("no-confirm-frame", "admitted without confirmation frame as last write");
                    }
                }
                Err(c) => {
                    if is_deny && *c == "server-denied" {
                        let reason = match access_spec {
                            "denynone" => b"not authorized".to_vec(),
                            s => unhex(&s[5..]).unwrap(),
                        };
                        let mut want = vec![3u8, reason.len() as u8];
                        want.extend_from_slice(&reason);
                        if reason.len() < 128 && io.written.last() != Some(&want) {
                            ex.violation("deny-not-reported", "denial frame with the reason is not the last frame written");
                        }
                        ex.tags.push("denied-reported".into());
                    }
                    if !is_deny && *c != "websocket" {
                        ex.violation("allow-rejected", format!("allow decision ended in {c}"));
                    }
                }
            }
        }
        ex
    }

    fn run_honest(&self, t: &[&str]) -> Exec {
        let key: u64 = t[1].parse().unwrap();
        let cli: Option<u64> = t[2].parse().ok();
        let srv: Option<u64> = t[3].parse().ok();
        let access_spec = t[4];
        let sk = secret(key);
        // two in-memory pipes
        let (c2s_tx, c2s_rx) = tokio::sync::mpsc::unbounded_channel::<Bytes>();
        let (s2c_tx, s2c_rx) = tokio::sync::mpsc::unbounded_channel::<Bytes>();
        struct Pipe {
            km: Option<u64>,
            rx: tokio::sync::mpsc::UnboundedReceiver<Bytes>,
            tx: tokio::sync::mpsc::UnboundedSender<Bytes>,
        }
        impl ExportKeyingMaterial for Pipe {
            fn export_keying_material<T: AsMut<[u8]>>(&self, mut output: T, label: &[u8], context: Option<&[u8]>) -> Option<T> {
                let km = export(self.km?, label, context.unwrap_or(&[]));
                let o = output.as_mut();
                let n = o.len().min(32);
                o[..n].copy_from_slice(&km[..n]);
                Some(output)
            }
        }
        impl Stream for Pipe {
            type Item = Result<Bytes, AnyError>;
            fn poll_next(mut self: Pin<&mut Self>, cx: &mut Context<'_>) -> Poll<Option<Self::Item>> {
                self.rx.poll_recv(cx).map(|o| o.map(Ok))
            }
        }
        impl Sink<Bytes> for Pipe {
            type Error = AnyError;
            fn poll_ready(self: Pin<&mut Self>, _: &mut Context<'_>) -> Poll<Result<(), AnyError>> {
                Poll::Ready(Ok(()))
            }
            fn start_send(self: Pin<&mut Self>, item: Bytes) -> Result<(), AnyError> {
                self.tx.send(item).map_err(|_| n0_error::anyerr!("closed"))
            }
            fn poll_flush(self: Pin<&mut Self>, _: &mut Context<'_>) -> Poll<Result<(), AnyError>> {
                Poll::Ready(Ok(()))
            }
            fn poll_close(self: Pin<&mut Self>, _: &mut Context<'_>) -> Poll<Result<(), AnyError>> {
                Poll::Ready(Ok(()))
            }
        }
        let mut client_io = Pipe { km: cli, rx: s2c_rx, tx: c2s_tx };
        let mut server_io = Pipe { km: srv, rx: c2s_rx, tx: s2c_tx };
        let header = hk::key_material_header(&sk, &client_io);
        let access = match access_spec {
            "allow" => Access::Allow,
            _ => Access::Deny { reason: None },
        };
        let rt = tokio::runtime::Builder::new_current_thread().build().unwrap();
        let sk2 = sk.clone();
        let (cres, sres) = rt.block_on(async {
            let c = async move { hk::clientside(&mut client_io, &sk2).await.map_err(|e| err_class(&e)) };
            let s = async move {
                match handshake::serverside(&mut server_io, header).await {
                    Err(e) => Err(err_class(&e)),
                    Ok(sa) => {
                        let k = sa.client_key;
                        let m = sa.mechanism;
                        let f = sa.authorize_if(access, &mut server_io).await.map_err(|e| err_class(&e));
                        Ok((k, m, f))
                    }
                }
            };
            tokio::join!(c, s)
        });
        let mut ex = Exec::default();
        let same = cli.is_some() && cli == srv;
        let out = match &sres {
            Ok((k, m, f)) => {
                let mech = if *m == Mechanism::SignedChallenge { "challenge" } else { "keymaterial" };
                if *k != sk.public() {
                    ex.violation("honest-wrong-key", "honest client authenticated under another key");
                }
                if same != (mech == "keymaterial") {
                    ex.violation("honest-wrong-mechanism", format!("exporters agree={same} but mechanism {mech}"));
                }
                let fin = match f {
                    Ok(_) => "admit",
                    Err(c) => c,
                };
                if access_spec == "allow" && fin != "admit" {
                    ex.violation("honest-rejected", format!("honest client + allow ended in {fin}"));
                }
                if access_spec != "allow" && (fin == "admit" || cres.is_ok()) {
                    ex.violation("deny-admitted", "deny decision but admitted / client saw success");
                }
                if access_spec == "allow" && cres.is_err() {
                    ex.violation("honest-client-error", format!("client side ended in {:?}", cres));
                }
                format!("ok:{}:{mech} | {fin} | client:{}", if *k == sk.public() { "self" } else { "other" }, match &cres { Ok(()) => "confirmed", Err(c) => c })
            }
            Err(c) => {
                ex.violation("honest-rejected", format!("honest client rejected with {c}"));
                format!("err:{c} | - | client:{}", match &cres { Ok(()) => "confirmed", Err(c) => c })
            }
        };
        ex.out = out;
        ex.nontrivial = true;
        ex.tags.push(format!("honest-{}", if same { "km" } else { "challenge" }));
        ex
    }
}

impl Prop for C03 {
    fn id(&self) -> &'static str {
        "C03"
    }

    fn generate(&mut self, rng: &mut Rng, tier: Tier, n: usize, out: &mut Vec<String>) {
        let secrets = ["none", "1", "2"];
        let accesses = ["allow", "allow", "denynone", "deny:62616e6e6564", "deny:-"];
        // honest runs: every exporter agreement pattern x decision
        for c in secrets {
            for s in secrets {
                for a in ["allow", "deny"] {
                    out.push(format!("honest {} {c} {s} {a}", rng.below(5)));
                }
            }
        }
        let sigkinds = ["good", "good", "otherkey", "stale", "rawchal", "garbage"];
        let mutations = ["none", "none", "none", "trail", "longtag", "longleb", "badpoint", "tag0", "tag2", "tag3", "tag4", "tag13", "tag14", "tag63", "tag64", "tag16384", "tag4294967296", "trunc0", "trunc1", "trunc33", "trunc34", "trunc97", "trunc98"];
        let hdrkinds = ["none", "none", "none", "honest", "honest", "sigbad", "lifted", "otherkey", "badpoint", "trail", "trunc", "raw"];
        let target = if tier == Tier::Thorough { n } else { n };
        while out.len() < target {
            let key = rng.below(4);
            let hdr = match *rng.pick(&hdrkinds) {
                "none" => "none".to_string(),
                "badpoint" => "badpoint".to_string(),
                "trunc" => format!("trunc:{key}:{}:{}", rng.range(1, 2), rng.pick(&[0u64, 1, 31, 32, 33, 96, 97, 98, 112])),
                "raw" => {
                    let len = rng.range(0, 40) as usize;
                    let v: Vec<u8> = match rng.below(3) {
                        0 => (0..len).map(|_| *rng.pick(b"ABCDEFGHIJKLMNOPQRSTUVWXYZabcdefghijklmnopqrstuvwxyz0123456789-_")).collect(),
                        1 => (0..len).map(|_| *rng.pick(b"AB=+/ .~")).collect(),
                        _ => (0..len).map(|_| rng.range(0x20, 0xff) as u8).filter(|b| *b != 0x7f).collect(),
                    };
                    format!("raw:{}", hex(&v))
                }
                k => format!("{k}:{key}:{}", rng.range(1, 2)),
            };
            let frame = match rng.below(13) {
                12 => format!("replay:{}", rng.below(4)),
                0 => "eof".to_string(),
                1 => "ioerr".to_string(),
                2 => {
                    let len = rng.range(0, 120) as usize;
                    let mut v = rng.bytes(len);
                    if !v.is_empty() && rng.chance(2, 3) {
                        v[0] = rng.below(16) as u8;
                    }
                    format!("raw:{}", hex(&v))
                }
                _ => {
                    let m = if rng.chance(1, 8) { format!("flip{}", rng.below(98 * 8)) } else { rng.pick(&mutations).to_string() };
                    format!("auth:{}:{}:{m}", rng.below(4), rng.pick(&sigkinds))
                }
            };
            let wfail = if rng.chance(1, 10) { rng.below(3).to_string() } else { "none".to_string() };
            out.push(format!("adv {hdr} {frame} {} {wfail} {}", rng.pick(&accesses), rng.pick(&secrets)));
        }
    }

    fn execute(&mut self, payload: &str) -> Exec {
        let t: Vec<&str> = payload.split_whitespace().collect();
        match t[0] {
            "adv" => self.run_adv(&t),
            "honest" => self.run_honest(&t),
            _ => panic!("bad payload"),
        }
    }
}

fn main() {
    run(C03);
}
