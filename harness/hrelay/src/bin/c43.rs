//! C43 — relay maps behave as maps and never deadlock.
//!
//! payload: `<op>;<op>;…`  executed in order; handle 0 is `RelayMap::empty()`, every `new`,
//!          `from` and `clone` creates the next handle.
//!     `new`                      RelayMap::empty()
//!     `from <u>,<u>,…` | `from -` RelayMap::from_iter(urls)          (default configs)
//!     `clone <h>`                maps[h].clone()                     (shares the map)
//!     `ins <h> <u> <cu> <port|n> <tok|n>`  maps[h].insert(url(u), Arc::new(cfg))
//!     `rem <h> <u>`              maps[h].remove(&url(u))
//!     `ext <h> <g>`              maps[h].extend(&maps[g])
//!     `tok <h> <t>`              maps[h] = maps[h].with_auth_token("tok<t>")
//!     `get <h> <u>` `has <h> <u>` `len <h>` `empty <h>` `urls <h>` `eq <h> <g>`
//!   `<u>`,`<cu>` relay index 0..=999 (`https://rNNN.iroh.test/`), port u16, tok 0..=999.
//! output : one result per op joined with `;`, then ` | ` and the contents of every handle
//!          (`h0{u=cu/port/tok,…}`); results: `ok`, `none`, `<cu>/<port|n>/<tok|n>`, `t`/`f`,
//!          a number, `[u,u]`, `nohandle`.  An op that does not return within the watchdog
//!          timeout prints `timeout` and ends the case (no dump); a panicking op prints `panic`.
//!          `bad-input` for anything unparsable.
//!
//! Every op runs on a worker thread owning the maps; the main thread waits for each result with
//! a timeout (watchdog).  The oracle is a shadow made of plain `BTreeMap`s (one per shared map).
use std::collections::BTreeMap;
use std::sync::Arc;
use std::sync::mpsc;
use std::time::Duration;

use iroh_base::RelayUrl;
use iroh_relay::{RelayConfig, RelayMap, RelayQuicConfig};
use vcommon::*;

struct C43 {
    watchdog: Duration,
    /// Operations that did not return within the watchdog so far in this run.
    timeouts: std::sync::atomic::AtomicU32,
}

const MAX_URL: u64 = 999;
const MAX_HANDLES: usize = 12;

fn url(i: u64) -> RelayUrl {
    format!("https://r{i:03}.iroh.test/").parse().expect("relay url")
}

fn url_index(u: &RelayUrl) -> u64 {
    let s = u.to_string();
    s["https://r".len().."https://r".len() + 3].parse().expect("index")
}

#[derive(Clone, Debug, PartialEq, Eq)]
struct Cfg {
    cu: u64,
    port: Option<u16>,
    tok: Option<u64>,
}

impl Cfg {
    fn real(&self) -> RelayConfig {
        let c = RelayConfig::new(url(self.cu), self.port.map(RelayQuicConfig::new));
        match self.tok {
            Some(t) => c.with_auth_token(format!("tok{t}")),
            None => c,
        }
    }
    fn of(c: &RelayConfig) -> Cfg {
        Cfg {
            cu: url_index(&c.url),
            port: c.quic.as_ref().map(|q| q.port),
            tok: c.auth_token.as_ref().map(|t| t["tok".len()..].parse().expect("token")),
        }
    }
    fn show(&self) -> String {
        format!(
            "{}/{}/{}",
            self.cu,
            self.port.map(|p| p.to_string()).unwrap_or_else(|| "n".into()),
            self.tok.map(|p| p.to_string()).unwrap_or_else(|| "n".into())
        )
    }
}

#[derive(Clone, Debug)]
enum Op {
    New,
    From(Vec<u64>),
    Clone(usize),
    Ins(usize, u64, Cfg),
    Rem(usize, u64),
    Ext(usize, usize),
    Tok(usize, u64),
    Get(usize, u64),
    Has(usize, u64),
    Len(usize),
    Empty(usize),
    Urls(usize),
    Eq(usize, usize),
}

fn dec<T: std::str::FromStr>(s: &str) -> Option<T> {
    if s.is_empty() || !s.bytes().all(|b| b.is_ascii_digit()) {
        return None;
    }
    s.parse().ok()
}

fn purl(s: &str) -> Option<u64> {
    dec::<u64>(s).filter(|u| *u <= MAX_URL)
}

fn phandle(s: &str) -> Option<usize> {
    dec::<u32>(s).map(|h| h as usize)
}

fn parse_op(s: &str) -> Option<Op> {
    let t: Vec<&str> = s.split(' ').filter(|x| !x.is_empty()).collect();
    Some(match t.as_slice() {
        ["new"] => Op::New,
        ["from", "-"] => Op::From(vec![]),
        ["from", us] => Op::From(us.split(',').map(purl).collect::<Option<Vec<_>>>()?),
        ["clone", h] => Op::Clone(phandle(h)?),
        ["ins", h, u, cu, port, tok] => Op::Ins(
            phandle(h)?,
            purl(u)?,
            Cfg {
                cu: purl(cu)?,
                port: if *port == "n" { None } else { Some(dec::<u16>(port)?) },
                tok: if *tok == "n" { None } else { Some(purl(tok)?) },
            },
        ),
        ["rem", h, u] => Op::Rem(phandle(h)?, purl(u)?),
        ["ext", h, g] => Op::Ext(phandle(h)?, phandle(g)?),
        ["tok", h, t] => Op::Tok(phandle(h)?, purl(t)?),
        ["get", h, u] => Op::Get(phandle(h)?, purl(u)?),
        ["has", h, u] => Op::Has(phandle(h)?, purl(u)?),
        ["len", h] => Op::Len(phandle(h)?),
        ["empty", h] => Op::Empty(phandle(h)?),
        ["urls", h] => Op::Urls(phandle(h)?),
        ["eq", h, g] => Op::Eq(phandle(h)?, phandle(g)?),
        _ => return None,
    })
}

fn parse(payload: &str) -> Option<Vec<Op>> {
    let p = payload.trim();
    if p.is_empty() {
        return None;
    }
    p.split(';').map(parse_op).collect()
}

fn show_opt(c: Option<Cfg>) -> String {
    c.map(|c| c.show()).unwrap_or_else(|| "none".into())
}

fn show_urls(us: impl Iterator<Item = u64>) -> String {
    let v: Vec<String> = us.map(|u| u.to_string()).collect();
    format!("[{}]", v.join(","))
}

fn show_contents<'a>(i: usize, it: impl Iterator<Item = (u64, Cfg)>) -> String {
    let v: Vec<String> = it.map(|(u, c)| format!("{u}={}", c.show())).collect();
    format!("h{i}{{{}}}", v.join(","))
}

/// Runs one op on the real maps.
fn apply_real(maps: &mut Vec<RelayMap>, op: &Op) -> String {
    let ok = |h: &usize| *h < maps.len();
    match op {
        Op::New => {
            maps.push(RelayMap::empty());
            "ok".into()
        }
        Op::From(us) => {
            maps.push(RelayMap::from_iter(us.iter().map(|u| url(*u))));
            "ok".into()
        }
        Op::Clone(h) => {
            if !ok(h) {
                return "nohandle".into();
            }
            let c = maps[*h].clone();
            maps.push(c);
            "ok".into()
        }
        Op::Ins(h, u, c) => {
            if !ok(h) {
                return "nohandle".into();
            }
            show_opt(maps[*h].insert(url(*u), Arc::new(c.real())).map(|c| Cfg::of(&c)))
        }
        Op::Rem(h, u) => {
            if !ok(h) {
                return "nohandle".into();
            }
            show_opt(maps[*h].remove(&url(*u)).map(|c| Cfg::of(&c)))
        }
        Op::Ext(h, g) => {
            if !ok(h) || !ok(g) {
                return "nohandle".into();
            }
            maps[*h].extend(&maps[*g]);
            "ok".into()
        }
        Op::Tok(h, t) => {
            if !ok(h) {
                return "nohandle".into();
            }
            let m = std::mem::replace(&mut maps[*h], RelayMap::empty());
            maps[*h] = m.with_auth_token(format!("tok{t}"));
            "ok".into()
        }
        Op::Get(h, u) => {
            if !ok(h) {
                return "nohandle".into();
            }
            show_opt(maps[*h].get(&url(*u)).map(|c| Cfg::of(&c)))
        }
        Op::Has(h, u) => {
            if !ok(h) {
                return "nohandle".into();
            }
            if maps[*h].contains(&url(*u)) { "t".into() } else { "f".into() }
        }
        Op::Len(h) => {
            if !ok(h) {
                return "nohandle".into();
            }
            maps[*h].len().to_string()
        }
        Op::Empty(h) => {
            if !ok(h) {
                return "nohandle".into();
            }
            if maps[*h].is_empty() { "t".into() } else { "f".into() }
        }
        Op::Urls(h) => {
            if !ok(h) {
                return "nohandle".into();
            }
            show_urls(maps[*h].urls::<Vec<_>>().iter().map(url_index))
        }
        Op::Eq(h, g) => {
            if !ok(h) || !ok(g) {
                return "nohandle".into();
            }
            if maps[*h] == maps[*g] { "t".into() } else { "f".into() }
        }
    }
}

fn dump_real(maps: &[RelayMap]) -> String {
    let v: Vec<String> = maps
        .iter()
        .enumerate()
        .map(|(i, m)| {
            let urls = m.urls::<Vec<_>>();
            let cfgs = m.relays::<Vec<_>>();
            assert_eq!(urls.len(), cfgs.len());
            show_contents(i, urls.iter().map(url_index).zip(cfgs.iter().map(|c| Cfg::of(c))))
        })
        .collect();
    v.join(" ")
}

/// The oracle: what a map from url to configuration does, with sharing between clones.
struct Shadow {
    cells: Vec<BTreeMap<u64, Cfg>>,
    handles: Vec<usize>,
}

impl Shadow {
    fn apply(&mut self, op: &Op, default_port: u16) -> String {
        let ok = |h: &usize, s: &Shadow| *h < s.handles.len();
        match op {
            Op::New => {
                self.cells.push(BTreeMap::new());
                self.handles.push(self.cells.len() - 1);
                "ok".into()
            }
            Op::From(us) => {
                let m = us
                    .iter()
                    .map(|u| (*u, Cfg { cu: *u, port: Some(default_port), tok: None }))
                    .collect();
                self.cells.push(m);
                self.handles.push(self.cells.len() - 1);
                "ok".into()
            }
            Op::Clone(h) => {
                if !ok(h, self) {
                    return "nohandle".into();
                }
                self.handles.push(self.handles[*h]);
                "ok".into()
            }
            Op::Ins(h, u, c) => {
                if !ok(h, self) {
                    return "nohandle".into();
                }
                show_opt(self.cells[self.handles[*h]].insert(*u, c.clone()))
            }
            Op::Rem(h, u) => {
                if !ok(h, self) {
                    return "nohandle".into();
                }
                show_opt(self.cells[self.handles[*h]].remove(u))
            }
            Op::Ext(h, g) => {
                if !ok(h, self) || !ok(g, self) {
                    return "nohandle".into();
                }
                let other = self.cells[self.handles[*g]].clone();
                self.cells[self.handles[*h]].extend(other);
                "ok".into()
            }
            Op::Tok(h, t) => {
                if !ok(h, self) {
                    return "nohandle".into();
                }
                for c in self.cells[self.handles[*h]].values_mut() {
                    c.tok = Some(*t);
                }
                "ok".into()
            }
            Op::Get(h, u) => {
                if !ok(h, self) {
                    return "nohandle".into();
                }
                show_opt(self.cells[self.handles[*h]].get(u).cloned())
            }
            Op::Has(h, u) => {
                if !ok(h, self) {
                    return "nohandle".into();
                }
                if self.cells[self.handles[*h]].contains_key(u) { "t".into() } else { "f".into() }
            }
            Op::Len(h) => {
                if !ok(h, self) {
                    return "nohandle".into();
                }
                self.cells[self.handles[*h]].len().to_string()
            }
            Op::Empty(h) => {
                if !ok(h, self) {
                    return "nohandle".into();
                }
                if self.cells[self.handles[*h]].is_empty() { "t".into() } else { "f".into() }
            }
            Op::Urls(h) => {
                if !ok(h, self) {
                    return "nohandle".into();
                }
                show_urls(self.cells[self.handles[*h]].keys().copied())
            }
            Op::Eq(h, g) => {
                if !ok(h, self) || !ok(g, self) {
                    return "nohandle".into();
                }
                if self.cells[self.handles[*h]] == self.cells[self.handles[*g]] {
                    "t".into()
                } else {
                    "f".into()
                }
            }
        }
    }
    fn dump(&self) -> String {
        let v: Vec<String> = self
            .handles
            .iter()
            .enumerate()
            .map(|(i, c)| show_contents(i, self.cells[*c].iter().map(|(u, c)| (*u, c.clone()))))
            .collect();
        v.join(" ")
    }
}

enum Req {
    Op(Op),
    Dump,
}

impl C43 {
    /// The full watchdog until blocking operations have been confirmed with it
    /// (`CONFIRM_TIMEOUTS` times); afterwards a short one, so that a change which makes a whole
    /// class of operations block forever is reported in minutes rather than after
    /// `cases x watchdog`.  On a tree without blocking operations this is always the full watchdog.
    fn current_watchdog(&self) -> Duration {
        const CONFIRM_TIMEOUTS: u32 = 3;
        if self.timeouts.load(std::sync::atomic::Ordering::Relaxed) >= CONFIRM_TIMEOUTS {
            self.watchdog.min(Duration::from_millis(250))
        } else {
            self.watchdog
        }
    }

    fn run_ops(&self, ops: &[Op]) -> Exec {
        let (req_tx, req_rx) = mpsc::channel::<Req>();
        let (res_tx, res_rx) = mpsc::channel::<String>();
        // the worker owns the maps; if an op blocks forever the worker is abandoned
        let worker = std::thread::spawn(move || {
            let mut maps = vec![RelayMap::empty()];
            while let Ok(req) = req_rx.recv() {
                let out = std::panic::catch_unwind(std::panic::AssertUnwindSafe(|| match &req {
                    Req::Op(op) => apply_real(&mut maps, op),
                    Req::Dump => dump_real(&maps),
                }))
                .unwrap_or_else(|_| "panic".into());
                if res_tx.send(out).is_err() {
                    break;
                }
            }
        });
        let default_port = iroh_relay::defaults::DEFAULT_RELAY_QUIC_PORT;
        let mut shadow = Shadow { cells: vec![BTreeMap::new()], handles: vec![0] };
        let mut outs: Vec<String> = Vec::new();
        let mut ex = Exec::default();
        let mut hung = false;
        let mut aliased_ext = false;
        for (i, op) in ops.iter().enumerate() {
            if shadow.handles.len() >= MAX_HANDLES && matches!(op, Op::New | Op::From(_) | Op::Clone(_)) {
                // keep cases small: both sides skip handle creation beyond the cap
                outs.push("nohandle".into());
                continue;
            }
            if let Op::Ext(h, g) = op
                && *h < shadow.handles.len()
                && *g < shadow.handles.len()
                && shadow.handles[*h] == shadow.handles[*g]
            {
                aliased_ext = true;
            }
            req_tx.send(Req::Op(op.clone())).expect("worker alive");
            let watchdog = self.current_watchdog();
            let got = match res_rx.recv_timeout(watchdog) {
                Ok(s) => s,
                Err(_) => {
                    self.timeouts.fetch_add(1, std::sync::atomic::Ordering::Relaxed);
                    outs.push("timeout".into());
                    ex.violation("timeout", format!("op {i} `{op:?}` did not return within {watchdog:?}"));
                    hung = true;
                    break;
                }
            };
            let want = shadow.apply(op, default_port);
            if got == "panic" {
                ex.violation("op-panic", format!("op {i} `{op:?}` panicked"));
            } else if got != want {
                ex.violation("map-semantics", format!("op {i} `{op:?}` returned {got}, a map returns {want}"));
            }
            outs.push(got);
        }
        let mut out = outs.join(";");
        if !hung {
            req_tx.send(Req::Dump).expect("worker alive");
            match res_rx.recv_timeout(self.watchdog) {
                Ok(d) => {
                    if d != shadow.dump() {
                        ex.violation("map-semantics", format!("final contents {d}, a map has {}", shadow.dump()));
                    }
                    out.push_str(" | ");
                    out.push_str(&d);
                }
                Err(_) => {
                    ex.violation("timeout", "final dump did not return");
                    out.push_str(" | timeout");
                    hung = true;
                }
            }
        }
        drop(req_tx);
        if !hung {
            let _ = worker.join();
        }
        ex.out = out;
        ex.nontrivial = ops.len() >= 3;
        if aliased_ext {
            ex.tags.push("extend-with-clone-of-self".into());
        }
        if shadow.handles.len() > shadow.cells.len() {
            ex.tags.push("has-clones".into());
        }
        ex.tags.push(format!("ops-{}", (ops.len() / 4) * 4));
        ex
    }
}

fn gen_op(rng: &mut Rng, nh: &mut usize, nurls: u64) -> String {
    let h = rng.usize_below(*nh);
    let g = rng.usize_below(*nh);
    let u = rng.below(nurls);
    // urls 0..nurls map to a few scattered indices (order preserved)
    let um = |x: u64| [3u64, 17, 20, 998, 0, 999][x as usize % 6];
    match rng.below(30) {
        0 => {
            *nh += 1;
            "new".into()
        }
        1 => {
            *nh += 1;
            let k = rng.below(4);
            if k == 0 {
                "from -".into()
            } else {
                let v: Vec<String> = (0..k).map(|_| um(rng.below(nurls)).to_string()).collect();
                format!("from {}", v.join(","))
            }
        }
        2..=4 => {
            *nh += 1;
            format!("clone {h}")
        }
        5..=10 => {
            let cu = if rng.chance(4, 5) { um(u) } else { um(rng.below(nurls)) };
            let port = match rng.below(5) {
                0 => "n".to_string(),
                1 => "0".to_string(),
                2 => "65535".to_string(),
                _ => "7842".to_string(),
            };
            let tok = if rng.chance(1, 4) { rng.below(3).to_string() } else { "n".into() };
            format!("ins {h} {} {cu} {port} {tok}", um(u))
        }
        11..=13 => format!("rem {h} {}", um(u)),
        14..=18 => format!("ext {h} {g}"),
        19..=20 => format!("tok {h} {}", rng.below(3)),
        21..=22 => format!("get {h} {}", um(u)),
        23 => format!("has {h} {}", um(u)),
        24 => format!("len {h}"),
        25 => format!("empty {h}"),
        26..=27 => format!("urls {h}"),
        _ => format!("eq {h} {g}"),
    }
}

impl Prop for C43 {
    fn id(&self) -> &'static str {
        "C43"
    }

    fn generate(&mut self, rng: &mut Rng, tier: Tier, n: usize, out: &mut Vec<String>) {
        for (a, b) in [(0u64, 3u64), (3, 17), (17, 20), (20, 998), (998, 999)] {
            assert!(url(a) < url(b), "url order");
        }
        for s in [
            // D18: extend with a clone of the receiver / with itself
            "ins 0 3 3 7842 n;clone 0;ext 0 1;urls 0",
            "ins 0 3 3 7842 n;ext 0 0;len 0",
            "clone 0;ext 1 0",
            // extend with independent maps, both directions
            "from 3,17;from 17,20;ext 1 2;urls 1;urls 2;ext 2 1;eq 1 2",
            "ins 0 3 3 7842 n;ins 0 3 17 n 2;get 0 3;rem 0 3;rem 0 3;empty 0",
            "from 3,17;clone 1;tok 2 1;get 1 3;ins 1 20 20 0 n;get 2 20;eq 1 2;eq 0 1",
            "new;eq 0 1;eq 1 1;ext 0 1;len 0",
            "get 5 3;ext 0 9;clone 7;tok 4 1;len 3",
            // malformed
            "",
            "x",
            "ins 0 3",
            "ins 0 1000 3 7842 n",
            "ins 0 3 3 65536 n",
            "ins 0 3 3 7842 1000",
            "from 3,,17",
            "ext 0",
            "clone -1",
            "len 0;",
            "from",
        ] {
            out.push(s.to_string());
        }
        let maxops = if tier == Tier::Thorough { 16 } else { 12 };
        while out.len() < n {
            if rng.chance(1, 40) {
                let mut nh = 1;
                let mut s = gen_op(rng, &mut nh, 4);
                let junk = ["x", "-", ";;", " 99999999999", " 1000", "q "];
                let j: &str = junk[rng.usize_below(junk.len())];
                let pos = rng.usize_below(s.len() + 1);
                s.insert_str(pos, j);
                out.push(s.trim().to_string());
                continue;
            }
            let nops = rng.range(1, maxops);
            let nurls = rng.range(1, 4);
            let mut nh = 1usize;
            let mut v = Vec::new();
            // most cases start with some content and a clone
            if rng.chance(2, 3) {
                v.push(format!("ins 0 3 3 7842 n"));
                v.push("clone 0".to_string());
                nh += 1;
            }
            for _ in 0..nops {
                let nh_cap = nh.min(MAX_HANDLES);
                let mut nh2 = nh_cap;
                let op = gen_op(rng, &mut nh2, nurls);
                if nh < MAX_HANDLES {
                    nh = nh2.max(nh);
                }
                v.push(op);
            }
            out.push(v.join(";"));
        }
    }

    fn execute(&mut self, payload: &str) -> Exec {
        match parse(payload) {
            Some(ops) => self.run_ops(&ops),
            None => Exec::new("bad-input").tag("bad-input"),
        }
    }
}

fn main() {
    let ms = std::env::var("C43_WATCHDOG_MS").ok().and_then(|s| s.parse().ok()).unwrap_or(4000);
    run(C43 { watchdog: Duration::from_millis(ms), timeouts: Default::default() });
}
