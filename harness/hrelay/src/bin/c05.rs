//! C05 — no client can get another client disconnected from the relay.
//!
//! payload: a registry script (grammar in `../relayreg.rs`) extended with hand-built frames:
//!   `raw <c> <typ> <key> <hdrhex> <tok>`   client of connection c sends the websocket message
//!        varint(typ) ++ key ++ hdr ++ tok
//!     typ : `-` (an empty message) | tag | tag`w`width (QUIC varint written with 1/2/4/8 bytes)
//!     key : `n` (none) | endpoint index (its 32-byte public key) | `x` (32 bytes that are no key)
//!     hdr : explicit bytes (hex, `-` = none); tok : contents token (hex | `p<len>.<seed>` | `-`)
//! output : as for C04/C06 (frames per connection, ended actors, registry snapshot per operation).
//!
//! Oracle (independent of the Lean model), evaluated after every operation:
//!  * `cross-kill`      — an operation that is a frame (or stream end) from connection c ended the
//!                        actor of a connection other than c;
//!  * `registry-touched`— such an operation changed the registry entry of another endpoint id;
//!  * `not-served`      — a live connection does not answer a ping any more;
//!  * `forwarded-unforwardable` — a delivered datagram frame is empty or exceeds MAX_PACKET_SIZE.
//! Every script ends with a ping to every connection.
//!
//! Timed scenarios (`cap:T;…` sets `Config::write_timeout` to T ms; `slow c ms`): the clock is
//! paused and advanced by the runner only.  A slow receiver accepts one frame every `ms` of
//! virtual time; a sender bursts 2–80 frames at it.  The write timeout is a per-frame budget:
//! a receiver that accepts every single frame within T must survive any burst — if its
//! connection ends, that is a `cross-kill`; a receiver slower than T per frame may end (its own
//! doing).
#[path = "../relayreg.rs"]
mod relayreg;
use relayreg::*;
use vcommon::*;

struct C05 {
    invalid_key: [u8; 32],
}

const MAX: usize = 65536;

fn find_invalid_key() -> [u8; 32] {
    for i in 2u8..=255 {
        let b = [i; 32];
        if iroh_base::PublicKey::try_from(&b[..]).is_err() {
            return b;
        }
    }
    panic!("no invalid key found");
}

fn varint(tag: u64, width: usize) -> Vec<u8> {
    match width {
        1 => vec![tag as u8 & 0x3f],
        2 => vec![0x40 | ((tag >> 8) as u8 & 0x3f), tag as u8],
        4 => {
            let mut v = (tag as u32).to_be_bytes().to_vec();
            v[0] = (v[0] & 0x3f) | 0x80;
            v
        }
        _ => {
            let mut v = tag.to_be_bytes().to_vec();
            v[0] = (v[0] & 0x3f) | 0xc0;
            v
        }
    }
}

fn min_width(tag: u64) -> usize {
    if tag < 64 {
        1
    } else if tag < 16384 {
        2
    } else if tag < (1 << 30) {
        4
    } else {
        8
    }
}

impl C05 {
    fn parse_raw(&self, s: &str) -> Option<Op> {
        let t: Vec<&str> = s.split(' ').filter(|x| !x.is_empty()).collect();
        if t.len() != 6 || t[0] != "raw" {
            return None;
        }
        let c: usize = t[1].parse().ok()?;
        let hdr = unhex(t[4])?;
        let bulk = tok_bytes(t[5])?;
        if t[2] == "-" {
            return Some(Op::Raw { c, desc: s.to_string(), bytes: vec![], contents: None });
        }
        let (tag, width) = match t[2].split_once('w') {
            Some((a, w)) => (a.parse::<u64>().ok()?, w.parse::<usize>().ok()?),
            None => {
                let a = t[2].parse::<u64>().ok()?;
                (a, min_width(a))
            }
        };
        if ![1, 2, 4, 8].contains(&width) || min_width(tag) > width {
            return None;
        }
        let mut bytes = varint(tag, width);
        let has_key = match t[3] {
            "n" => false,
            "x" => {
                bytes.extend_from_slice(&self.invalid_key);
                true
            }
            k => {
                let id: usize = k.parse().ok()?;
                if id >= NUM_IDS {
                    return None;
                }
                bytes.extend_from_slice(key(id).as_bytes());
                true
            }
        };
        bytes.extend_from_slice(&hdr);
        bytes.extend_from_slice(&bulk);
        let mut contents = None;
        if (tag == 4 || tag == 5) && has_key {
            let fields = if tag == 5 { 3 } else { 1 };
            let opaque = t[5].starts_with('p');
            if opaque && hdr.len() >= fields {
                let explicit = &hdr[fields..];
                let mut b = explicit.to_vec();
                b.extend_from_slice(&bulk);
                let name = if explicit.is_empty() { t[5].to_string() } else { format!("{}+{}", hex(explicit), t[5]) };
                contents = Some((b, name));
            } else if !opaque && hdr.len() + bulk.len() >= fields {
                // everything after the key is spelled out: the contents are named by their hex
                let mut all = hdr.clone();
                all.extend_from_slice(&bulk);
                let b = all[fields..].to_vec();
                let name = hex(&b);
                contents = Some((b, name));
            }
        }
        Some(Op::Raw { c, desc: s.to_string(), bytes, contents })
    }
}

fn len_tok(rng: &mut Rng, len: usize) -> String {
    if len == 0 {
        "-".into()
    } else if len <= 32 {
        hex(&rng.bytes(len))
    } else {
        format!("p{len}.{}", rng.below(50))
    }
}

/// A datagram frame with `len` bytes of contents, as a `raw` operation.
fn dgram_raw(rng: &mut Rng, c: usize, batch: bool, dst: &str, ecn: u8, seg: u16, len: usize) -> String {
    let hdr = if batch { hex(&[ecn, (seg >> 8) as u8, seg as u8]) } else { hex(&[ecn]) };
    format!("raw {c} {} {dst} {hdr} {}", if batch { 5 } else { 4 }, len_tok(rng, len))
}

fn boundary_len(rng: &mut Rng, batch: bool) -> usize {
    let limit = MAX - 32 - if batch { 3 } else { 1 };
    match rng.below(10) {
        0..=2 => rng.range(0, 2) as usize,
        3..=8 => limit - 3 + rng.range(0, 5) as usize,
        _ => rng.range(3, 3000) as usize,
    }
}

fn adversarial(rng: &mut Rng, c: usize, nconn: usize) -> String {
    let dsts = ["0", "0", "0", "1", "2", "5", "x"];
    match rng.below(100) {
        0..=49 => {
            let batch = rng.bool();
            let len = boundary_len(rng, batch);
            let seg = *rng.pick(&[0u16, 1, 9, 1200, 65535]);
            let dst = *rng.pick(&dsts);
            let ecn = rng.byte();
            dgram_raw(rng, c, batch, dst, ecn, seg, len)
        }
        50..=64 => {
            // every frame type with assorted bodies
            let tag = *rng.pick(&[0u64, 1, 2, 3, 4, 5, 6, 7, 8, 9, 10, 11, 12, 13, 14, 15, 63, 64, 300, 16384, 1 << 40]);
            match rng.below(6) {
                0 => format!("raw {c} {tag} n - -"),
                1 => format!("raw {c} {tag} n {} -", hex(&rng.bytes(8))),
                2 => {
                    let n = *rng.pick(&[7usize, 9, 1, 31]);
                    format!("raw {c} {tag} n {} -", hex(&rng.bytes(n)))
                }
                3 => format!("raw {c} {tag} 0 - -"),
                4 => format!("raw {c} {tag} 0 00 aabb"),
                _ => format!("raw {c} {tag} 0 000001 p{}.1", rng.range(33, 70000)),
            }
        }
        65..=72 => {
            let mut d = [0u8; 8];
            rng.fill(&mut d);
            format!("raw {c} {} n {} -", if rng.bool() { 9 } else { 10 }, hex(&d))
        }
        73..=78 => {
            // non-minimal frame type encodings
            let tag = *rng.pick(&[4u64, 5, 9, 10]);
            let w = *rng.pick(&[2usize, 4, 8]);
            if tag >= 9 {
                format!("raw {c} {tag}w{w} n {} -", hex(&rng.bytes(8)))
            } else {
                let hdr = if tag == 5 { "020001" } else { "02" };
                let n = *rng.pick(&[0usize, 1, 65503, 65501, 65500]);
                format!("raw {c} {tag}w{w} 0 {hdr} {}", len_tok(rng, n))
            }
        }
        79..=81 => format!("raw {c} - n - -"),
        82..=89 => {
            // truncated datagram frames
            let tag = if rng.bool() { 4 } else { 5 };
            match rng.below(4) {
                0 => {
                    let n = rng.range(1, 31) as usize;
                    format!("raw {c} {tag} n {} -", hex(&rng.bytes(n)))
                }
                1 => format!("raw {c} {tag} 0 - -"),
                2 => format!("raw {c} {tag} 0 01 -"),
                _ => format!("raw {c} {tag} 0 0100 -"),
            }
        }
        90..=94 => {
            // bodies beyond the decoder's frame-size limit
            let tag = *rng.pick(&[4u64, 5, 9]);
            let over = rng.range(1, 3) as usize;
            if tag == 9 {
                format!("raw {c} 9 n 0102030405060708 p{}.1", MAX + over)
            } else {
                let f = if tag == 5 { 3 } else { 1 };
                format!("raw {c} {tag} 0 {} p{}.1", if tag == 5 { "000009" } else { "00" }, MAX - 32 - f + over)
            }
        }
        _ => {
            let _ = nconn;
            Op::Send { c, dst: 0, batch: false, ecn: 0, seg: 0, tok: hex(&rng.bytes(3)) }.render()
        }
    }
}

/// Victim = connection 0 (endpoint 0), its client takes `ms` per frame; the attacker (connection 1)
/// bursts `k` datagrams at it in one go (its frames are read back to back when it resumes);
/// optionally a second sender adds its own burst.
fn timed_script(cap: usize, t: Option<u64>, ms: u64, k: usize, two_senders: bool) -> String {
    let mut ops: Vec<String> = vec!["reg 0 2".into(), "reg 1 2".into()];
    if two_senders {
        ops.push("reg 2 1".into());
    }
    ops.push(format!("slow 0 {ms}"));
    ops.push("stall 1".into());
    for i in 0..k {
        ops.push(format!("send 1 0 s 0 0 {}", hex(&[(i >> 8) as u8, i as u8])));
    }
    if two_senders {
        ops.push("stall 2".into());
        for i in 0..k.min(10) {
            ops.push(format!("send 2 0 s 1 0 {}", hex(&[0xEE, i as u8])));
        }
        ops.push("unstall 2".into());
    }
    ops.push("unstall 1".into());
    ops.push("slow 0 0".into());
    let n = if two_senders { 3 } else { 2 };
    for c in 0..n {
        ops.push(format!("ping {c} {}", hex(&[0xA0 + c as u8; 8])));
    }
    let hd = match t {
        Some(t) => format!("{cap}:{t}"),
        None => cap.to_string(),
    };
    format!("{hd};{}", ops.join(";"))
}

fn random_case(rng: &mut Rng) -> String {
    let cap = *rng.pick(&[1usize, 2, 4, 0]);
    let mut ops: Vec<String> = vec!["reg 0 2".into(), format!("reg 1 {}", rng.range(1, 2))];
    let mut nconn = 2;
    if rng.chance(1, 3) {
        ops.push(format!("reg 0 {}", rng.range(1, 2)));
        nconn += 1;
    }
    if rng.chance(1, 3) {
        ops.push("reg 2 2".into());
        nconn += 1;
    }
    // the victim's active connection may be slow
    let victim_active = if nconn >= 3 && ops[2].starts_with("reg 0") { 2 } else { 0 };
    let stall_victim = rng.chance(1, 3);
    if stall_victim {
        ops.push(format!("stall {victim_active}"));
    }
    let k = rng.range(1, 6);
    for _ in 0..k {
        // mostly the attacker; sometimes the victim's displaced duplicate or the bystander
        let c = if rng.chance(4, 5) { 1 } else { rng.usize_below(nconn) };
        ops.push(adversarial(rng, c, nconn));
        if rng.chance(1, 5) {
            ops.push(Op::Send { c: 1, dst: 0, batch: false, ecn: 1, seg: 0, tok: hex(&rng.bytes(2)) }.render());
        }
    }
    if stall_victim {
        ops.push(format!("unstall {victim_active}"));
    }
    for c in 0..nconn {
        ops.push(format!("ping {c} {}", hex(&[0xA0 + c as u8; 8])));
    }
    format!("{cap};{}", ops.join(";"))
}

impl Prop for C05 {
    fn id(&self) -> &'static str {
        "C05"
    }

    fn generate(&mut self, rng: &mut Rng, tier: Tier, n: usize, out: &mut Vec<String>) {
        // D1 as found: empty contents / contents at the decoder limit, single and batch
        for s in [
            "2;reg 0 2;reg 1 2;send 1 0 s 0 0 -;ping 0 0102030405060708;send 1 0 s 0 0 aa",
            "2;reg 0 2;reg 1 2;send 1 0 s 0 0 p65503.1;ping 0 0102030405060708;send 1 0 s 0 0 aa",
            "2;reg 0 2;reg 1 2;send 1 0 b 0 9 p65501.1;ping 0 0102030405060708;send 1 0 s 0 0 aa",
            "2;reg 0 2;reg 1 2;send 1 0 b 0 9 -;ping 0 0102030405060708;send 1 0 s 0 0 aa",
            "2;reg 0 2;reg 1 2;raw 1 4 0 03 -;raw 1 5w2 0 030009 p65501.2;ping 0 0102030405060708;ping 1 0102030405060709",
        ] {
            out.push(s.to_string());
        }
        // all lengths around the limits, exhaustively
        let spans: &[usize] = if tier == Tier::Thorough { &[0, 1, 2, 3] } else { &[0, 1] };
        for batch in [false, true] {
            let limit = MAX - 32 - if batch { 3 } else { 1 };
            let mut lens: Vec<usize> = spans.to_vec();
            let w = if tier == Tier::Thorough { 5 } else { 3 };
            lens.extend(limit - w..=limit + 2);
            for len in lens {
                for seg in [0u16, 9] {
                    for dst in ["0", "5"] {
                        for stalled in [false, true] {
                            if !batch && seg != 0 {
                                continue;
                            }
                            let f = dgram_raw(rng, 1, batch, dst, 2, seg, len);
                            let pre = if stalled { "stall 0;" } else { "" };
                            let post = if stalled { "unstall 0;" } else { "" };
                            out.push(format!(
                                "2;reg 0 2;reg 1 2;{pre}{f};send 1 0 s 1 0 aa;{post}ping 0 a0a0a0a0a0a0a0a0;ping 1 a1a1a1a1a1a1a1a1"
                            ));
                        }
                    }
                }
            }
        }
        // every frame type tag with a few bodies
        for tag in 0..=16u64 {
            for body in ["n - -", "n 0102030405060708 -", "0 - -", "0 00 aa", "0 000009 aabb", "x 00 aa"] {
                out.push(format!("2;reg 0 2;reg 1 2;raw 1 {tag} {body};ping 0 a0a0a0a0a0a0a0a0;ping 1 a1a1a1a1a1a1a1a1"));
            }
        }
        // timed: a slow receiver and bursts at it
        for s in [
            // 80 frames, 30 ms each, budget 50 ms per frame: 2.4 s in total
            timed_script(100, Some(50), 30, 80, false),
            timed_script(0, Some(50), 49, 64, false),
            timed_script(0, Some(50), 49, 65, true),
            // the crate's default write timeout (2 s): 1.5 s per frame, 5 frames
            timed_script(8, None, 1500, 5, false),
            // beyond the budget for a single frame: the receiver's own connection ends
            timed_script(8, Some(50), 51, 3, false),
            timed_script(8, None, 2001, 2, false),
        ] {
            out.push(s);
        }
        let ntimed = if tier == Tier::Thorough { 300 } else { 30 };
        for _ in 0..ntimed {
            let t = *rng.pick(&[20u64, 50, 100]);
            let within = rng.chance(5, 6);
            let ms = if within { rng.range(t / 2, t - 1) } else { rng.range(t + 1, 2 * t) };
            let k = rng.range(2, 80) as usize;
            out.push(timed_script(*rng.pick(&[0usize, 100, 4]), Some(t), ms, k, rng.bool()));
        }
        let target = out.len() + n;
        while out.len() < target {
            out.push(random_case(rng));
        }
    }

    fn execute(&mut self, payload: &str) -> Exec {
        let Some(script) = Script::parse_with(payload, &|s| self.parse_raw(s)) else {
            return Exec::new("bad-input").tag("bad-input");
        };
        let tr = match run_checked(&script) {
            Ok(tr) => tr,
            Err(e) => return Exec::new(e).tag("nondeterministic"),
        };
        let mut ex = Exec::new(tr.render());
        oracle(&tr, &mut ex);
        ex
    }
}

fn oracle(tr: &Trace, ex: &mut Exec) {
    let mut nconn = 0usize;
    let mut ended: Vec<bool> = Vec::new();
    let mut stalled: Vec<bool> = Vec::new();
    let mut doomed: Vec<bool> = Vec::new(); // stream ended / cancelled while stalled
    let mut slow: Vec<u64> = Vec::new(); // ms the client takes to accept one frame
    let mut prev = Snapshot::default();
    let mut survived_frames = 0usize;
    let mut rejected_frames = 0usize;
    for (i, st) in tr.steps.iter().enumerate() {
        if st.timeout {
            ex.violation("timeout", format!("step {i} did not reach quiescence"));
            return;
        }
        // which connections this operation may legitimately end, and whose frame it is
        let mut client_of: Option<usize> = None;
        let mut allowed: Vec<usize> = Vec::new();
        let mut anything = false;
        match &st.op {
            Op::Reg { .. } => {}
            Op::ShutReg { .. } | Op::Shutdown => anything = true,
            Op::Stall { c } => {
                if *c < nconn && !ended[*c] {
                    stalled[*c] = true;
                }
            }
            Op::Slow { c, ms } => {
                if *c < nconn {
                    slow[*c] = *ms;
                }
            }
            Op::Disc { id, sel } => {
                if let Some((a, ina)) = prev.entries.get(id) {
                    for c in ina.iter().chain([a]) {
                        let hit = match sel {
                            DiscSel::All => true,
                            DiscSel::Conn(x) => x == c,
                            DiscSel::Unknown => false,
                        };
                        if hit {
                            allowed.push(*c);
                            if stalled[*c] {
                                doomed[*c] = true;
                            }
                        }
                    }
                }
            }
            Op::Close { c } | Op::Bad { c } => {
                client_of = Some(*c);
                if *c < nconn && stalled[*c] {
                    doomed[*c] = true;
                }
            }
            Op::Send { c, .. } | Op::Raw { c, .. } | Op::Ping { c, .. } | Op::Pong { c, .. } | Op::Unstall { c } => {
                client_of = Some(*c)
            }
        }
        if let Some(c) = client_of {
            allowed.push(c);
        }
        if matches!(st.op, Op::Reg { .. } | Op::ShutReg { .. }) {
            nconn += 1;
            ended.push(false);
            stalled.push(false);
            doomed.push(false);
            slow.push(0);
        }
        // a client that needs longer than the write timeout for ONE frame ends its own connection
        for r in 0..nconn {
            if slow[r] > tr.wt_ms {
                allowed.push(r);
            }
        }
        if !anything {
            for e in &st.ended {
                if !allowed.contains(e) {
                    ex.violation(
                        "cross-kill",
                        format!("step {i} `{}`: connection {e} (endpoint {}) ended", st.op.render(), tr.owner[*e]),
                    );
                }
            }
            if client_of.is_some() {
                // entries that may change: those of connections this step may end
                let own: Vec<usize> = allowed.iter().filter_map(|c| tr.owner.get(*c).copied()).collect();
                for id in 0..NUM_IDS {
                    if !own.contains(&id) && prev.entries.get(&id) != st.snap.entries.get(&id) {
                        ex.violation("registry-touched", format!("step {i} `{}`: entry of endpoint {id} changed", st.op.render()));
                    }
                }
            }
        }
        // a frame from a live connection: did the decoder take it?
        if let Op::Raw { c, .. } | Op::Send { c, .. } = &st.op {
            if *c < nconn && !ended[*c] && !stalled[*c] {
                if st.ended.contains(c) {
                    rejected_frames += 1;
                } else {
                    survived_frames += 1;
                }
            }
        }
        if let Op::Unstall { c } = &st.op {
            if *c < nconn {
                stalled[*c] = false;
            }
        }
        for &c in &st.ended {
            ended[c] = true;
            stalled[c] = false;
        }
        // liveness: a live, unstalled connection answers a ping
        let ping = match &st.op {
            Op::Ping { c, data } => Some((*c, *data)),
            Op::Raw { c, bytes, .. } if bytes.len() == 9 && bytes[0] == 9 => Some((*c, bytes[1..9].try_into().unwrap())),
            _ => None,
        };
        if let Some((c, data)) = ping {
            if c < nconn && !ended[c] && !stalled[c] && !doomed[c] && slow[c] <= tr.wt_ms {
                let ok = st.frames.get(&c).is_some_and(|fs| fs.iter().any(|f| *f == Frame::Pong(data)));
                if !ok {
                    ex.violation("not-served", format!("step {i}: connection {c} did not answer the ping"));
                }
            }
        }
        // nothing un-forwardable is ever written out
        for (r, fs) in &st.frames {
            for f in fs {
                if let Frame::Datagrams { seg, contents, .. } = f {
                    let enc = 1 + 32 + 1 + if *seg != 0 { 2 } else { 0 } + contents.len();
                    if contents.is_empty() || enc > MAX {
                        ex.violation("forwarded-unforwardable", format!("step {i}: connection {r} got {}", tr.frame_str(f)));
                    }
                }
            }
        }
        prev = st.snap.clone();
    }
    ex.nontrivial = survived_frames > 0;
    if survived_frames > 0 {
        ex.tags.push("frame-accepted-by-decoder".into());
    }
    if rejected_frames > 0 {
        ex.tags.push("frame-rejected-sender-ended".into());
    }
    if tr.steps.iter().any(|st| matches!(st.op, Op::Slow { ms, .. } if ms > 0)) {
        ex.tags.push("timed-burst".into());
    }
    if tr.toks.iter().any(|(b, _)| b.is_empty() || b.len() >= 65500) {
        ex.tags.push("boundary-size".into());
    }
}

fn main() {
    run(C05 { invalid_key: find_invalid_key() });
}
