//! C15 — relay dialing tries every resolved address and returns the first success.
//!
//! Runs the REAL `dial_happy_eyeballs` (iroh-relay/src/client/tls.rs, reached through the hook
//! `client::verif_dial_hooks`) on a paused-time current-thread tokio runtime, with
//!  * a scripted `DnsResolver::custom` resolver (the real `resolve_host_all` stream sits between
//!    it and the dialer), and
//!  * a scripted connector installed with `verif_dial_hooks::set_connector` in place of
//!    `TcpStream::connect` (a successful attempt hands out a real, already connected localhost
//!    `TcpStream`).
//! The dial future is polled by hand, so the payload fixes the whole schedule.
//!
//! payload: `<prefer> <host> <imm4> <imm6> <schedule>`
//!   prefer   = `4` | `6` [+ path letter]       preferred family (`prefer_ipv6`) and the call path:
//!              none = `dial_happy_eyeballs` itself; `d` = the client builder's `dial_url` without
//!              proxy; `p` = `dial_url` through an HTTP proxy (`dial_url_proxy`: the host/resolver/
//!              connector then concern the proxy, a peer thread answers the `CONNECT` with 200);
//!              `q` = the same, the proxy answers 403
//!   host     = `dom` | `v4:<id>` | `v6:<id>` | `noport`
//!   imm4/6   = `-` | <res>                     reply the resolver gives at once when asked
//!   res      = `ok[.<id>]*` | `e<code>`
//!   schedule = `-` | groups separated by `,`; a group is events joined by `+`; after each group
//!              the dial future is polled until it is quiescent
//!     `a<ms>`                 time passes (alone in its group); timers that fall due inside are
//!                             served at their own instant
//!     `r4=<res>` | `r6=<res>` that family's DNS lookup completes
//!     `c<i>=ok` | `c<i>=x<code>`  connection attempt `i` (in start order) succeeds / fails
//!   (completions for lookups/attempts that do not exist, are over, or already have a result are ignored)
//! output : `starts=<f.id@t,…|-> res=<ok.<i>@t | err.<class>@t | pending> calls=<4@t,6@t|->`
use std::future::Future;
use std::net::{IpAddr, Ipv4Addr, Ipv6Addr, SocketAddr};
use std::pin::{Pin, pin};
use std::sync::atomic::{AtomicBool, Ordering};
use std::sync::{Arc, Mutex};
use std::task::{Context, Poll, Wake, Waker};
use std::time::Duration;

use iroh_dns::dns::{BoxIter, DnsError, DnsResolver, Resolver, TxtRecordData};
use iroh_relay::client::{DialError, verif_dial_hooks};
use n0_error::{anyerr, e};
use n0_future::boxed::BoxFuture;
use tokio::net::TcpStream;
use tokio::time::Instant;
use vcommon::*;

struct C15;

const RESOLUTION_DELAY: u64 = 50;
const PROXY_HOST: &str = "proxy.example.test";

#[derive(Clone, Debug, PartialEq)]
enum Res {
    Ok(Vec<u32>),
    Err(String),
}
fn parse_res(s: &str) -> Res {
    let mut it = s.split('.');
    match it.next() {
        Some("ok") => Res::Ok(it.map(|x| x.parse().expect("id")).collect()),
        _ => Res::Err(s.to_string()),
    }
}
fn fmt_res(r: &Res) -> String {
    match r {
        Res::Ok(ids) => std::iter::once("ok".to_string()).chain(ids.iter().map(|i| i.to_string())).collect::<Vec<_>>().join("."),
        Res::Err(c) => c.clone(),
    }
}
fn v4_of(id: u32) -> Ipv4Addr {
    Ipv4Addr::new(10, (id >> 16) as u8, (id >> 8) as u8, id as u8)
}
fn v6_of(id: u32) -> Ipv6Addr {
    Ipv6Addr::new(0xfd00, 0, 0, 0, 0, 0, (id >> 16) as u16, id as u16)
}
fn id_of(ip: IpAddr) -> (u8, u32) {
    match ip {
        IpAddr::V4(a) => {
            let o = a.octets();
            (4, ((o[1] as u32) << 16) | ((o[2] as u32) << 8) | o[3] as u32)
        }
        IpAddr::V6(a) => {
            let s = a.segments();
            (6, ((s[6] as u32) << 16) | s[7] as u32)
        }
    }
}

// ------------------------------------------------------------------ shared scripted world

#[derive(Debug, Default)]
struct Slot {
    issued: u32,
    alive: bool,
    reply: Option<Res>,
    accepted: Option<(Res, u64, usize)>, // reply, time, group
    waker: Option<Waker>,
}

#[derive(Debug)]
struct Attempt {
    fam: u8,
    id: u32,
    start_ms: u64,
    unaligned: bool,
    group: usize,
    alive: bool,
    reply: Option<Result<(), String>>,
    accepted: Option<(Result<(), String>, u64)>,
    waker: Option<Waker>,
    local_port: Option<u16>,
}

#[derive(Debug)]
struct World {
    t0: Instant,
    group: usize,
    calls: Vec<(u8, u64)>,
    lookup_hosts: Vec<String>,
    slots: [Slot; 2],
    imm: [Option<Res>; 2],
    attempts: Vec<Attempt>,
    pool: Vec<std::net::TcpStream>,
}

type Shared = Arc<Mutex<World>>;

fn now_ns(w: &World) -> u128 {
    (Instant::now() - w.t0).as_nanos()
}

#[derive(Debug, Clone)]
struct Scripted(Shared);

struct SlotFut {
    f: usize,
    sh: Shared,
}
impl Future for SlotFut {
    type Output = Res;
    fn poll(self: Pin<&mut Self>, cx: &mut Context<'_>) -> Poll<Res> {
        let mut w = self.sh.lock().unwrap();
        let slot = &mut w.slots[self.f];
        match slot.reply.take() {
            Some(r) => Poll::Ready(r),
            None => {
                slot.waker = Some(cx.waker().clone());
                Poll::Pending
            }
        }
    }
}
impl Drop for SlotFut {
    fn drop(&mut self) {
        if let Ok(mut w) = self.sh.lock() {
            w.slots[self.f].alive = false;
        }
    }
}
impl Scripted {
    fn issue(&self, f: usize, host: String) -> SlotFut {
        let mut w = self.0.lock().unwrap();
        w.lookup_hosts.push(host);
        let t = (now_ns(&w) / 1_000_000) as u64;
        let g = w.group;
        w.calls.push((if f == 0 { 4 } else { 6 }, t));
        let imm = w.imm[f].clone();
        let slot = &mut w.slots[f];
        slot.issued += 1;
        slot.alive = true;
        if let Some(r) = imm {
            slot.reply = Some(r.clone());
            slot.accepted = Some((r, t, g));
        }
        SlotFut { f, sh: self.0.clone() }
    }
}
impl Resolver for Scripted {
    fn lookup_ipv4(&self, host: String) -> BoxFuture<Result<BoxIter<Ipv4Addr>, DnsError>> {
        let f = self.issue(0, host);
        Box::pin(async move {
            match f.await {
                Res::Ok(ids) => Ok(Box::new(ids.into_iter().map(v4_of)) as BoxIter<Ipv4Addr>),
                Res::Err(c) => Err(e!(DnsError::Resolve, anyerr!("{c}"))),
            }
        })
    }
    fn lookup_ipv6(&self, host: String) -> BoxFuture<Result<BoxIter<Ipv6Addr>, DnsError>> {
        let f = self.issue(1, host);
        Box::pin(async move {
            match f.await {
                Res::Ok(ids) => Ok(Box::new(ids.into_iter().map(v6_of)) as BoxIter<Ipv6Addr>),
                Res::Err(c) => Err(e!(DnsError::Resolve, anyerr!("{c}"))),
            }
        })
    }
    fn lookup_txt(&self, _host: String) -> BoxFuture<Result<BoxIter<TxtRecordData>, DnsError>> {
        Box::pin(async { Err(e!(DnsError::NoResponse)) })
    }
    fn clear_cache(&self) {}
    fn reset(&self) -> Box<dyn Resolver> {
        Box::new(self.clone())
    }
}

struct DialFut {
    i: usize,
    sh: Shared,
}
impl Future for DialFut {
    type Output = std::io::Result<TcpStream>;
    fn poll(self: Pin<&mut Self>, cx: &mut Context<'_>) -> Poll<Self::Output> {
        let mut w = self.sh.lock().unwrap();
        let reply = w.attempts[self.i].reply.take();
        match reply {
            Some(Ok(())) => {
                let std_stream = w.pool.pop().expect("pool of connected streams exhausted");
                let stream = TcpStream::from_std(std_stream)?;
                w.attempts[self.i].local_port = Some(stream.local_addr()?.port());
                Poll::Ready(Ok(stream))
            }
            Some(Err(code)) => Poll::Ready(Err(std::io::Error::other(code))),
            None => {
                w.attempts[self.i].waker = Some(cx.waker().clone());
                Poll::Pending
            }
        }
    }
}
impl Drop for DialFut {
    fn drop(&mut self) {
        if let Ok(mut w) = self.sh.lock() {
            if let Some(a) = w.attempts.get_mut(self.i) {
                a.alive = false;
            }
        }
    }
}

struct Flag {
    set: AtomicBool,
    main: Mutex<Option<Waker>>,
}
impl Wake for Flag {
    fn wake(self: Arc<Self>) {
        self.wake_by_ref()
    }
    fn wake_by_ref(self: &Arc<Self>) {
        self.set.store(true, Ordering::SeqCst);
        if let Some(w) = self.main.lock().unwrap().take() {
            w.wake();
        }
    }
}

// ------------------------------------------------------------------ scenario

#[derive(Debug, Clone)]
enum Ev {
    Advance(u64),
    Dns(usize, Res),
    Dial(usize, Result<(), String>),
}

fn parse_ev(t: &str) -> Ev {
    if let Some(ms) = t.strip_prefix('a') {
        Ev::Advance(ms.parse().expect("ms"))
    } else if let Some(r) = t.strip_prefix("r4=") {
        Ev::Dns(0, parse_res(r))
    } else if let Some(r) = t.strip_prefix("r6=") {
        Ev::Dns(1, parse_res(r))
    } else if let Some(rest) = t.strip_prefix('c') {
        let (i, r) = rest.split_once('=').expect("c<i>=res");
        Ev::Dial(i.parse().expect("attempt index"), if r == "ok" { Ok(()) } else { Err(r.to_string()) })
    } else {
        panic!("bad event {t}")
    }
}

#[derive(Debug, Clone, PartialEq)]
enum Outcome {
    Ok(Option<usize>),
    Err(String),
    Pending,
}

struct Run {
    outcome: Outcome,
    end_ms: u64,
    end_group: usize,
    attempts: Vec<Attempt>,
    calls: Vec<(u8, u64)>,
    lookup_hosts: Vec<String>,
    dns: [Option<(Res, u64, usize)>; 2],
    dns_issued: [u32; 2],
}

fn dial_err_class(e: &DialError) -> String {
    fn dns(e: &DnsError) -> String {
        match e {
            DnsError::Timeout { .. } => "to".into(),
            DnsError::Resolve { source, .. } => source.to_string(),
            DnsError::NoResponse { .. } => "ENR".into(),
            DnsError::MissingHost { .. } => "EMH".into(),
            DnsError::ResolveBoth { ipv4, ipv6, .. } => format!("EB.{}.{}", dns(ipv4), dns(ipv6)),
            other => format!("other({other})"),
        }
    }
    match e {
        DialError::InvalidTargetPort { .. } => "port".into(),
        DialError::ProxyInvalidTargetPort { .. } => "proxyport".into(),
        DialError::ProxyConnectInvalidStatus { status, .. } => format!("proxystatus.{}", status.as_u16()),
        DialError::Dns { source, .. } => format!("dns.{}", dns(source)),
        DialError::Timeout { .. } => "dto".into(),
        DialError::Io { source, .. } => format!("io.{source}"),
        other => format!("other({other})"),
    }
}

#[derive(Clone, Copy, Debug, PartialEq)]
enum PathKind {
    Hook,
    Direct,
    Proxy(u16),
}

/// The proxy on the other end of the pre-connected socket: answers one `CONNECT`.
fn proxy_peer(listener: std::net::TcpListener, status: u16) -> std::thread::JoinHandle<Option<String>> {
    std::thread::spawn(move || {
        use std::io::{Read, Write};
        listener.set_nonblocking(false).ok()?;
        let (mut sock, _) = listener.accept().ok()?;
        let mut buf = vec![];
        let mut tmp = [0u8; 512];
        while !buf.windows(4).any(|w| w == b"\r\n\r\n") {
            let n = sock.read(&mut tmp).ok()?;
            if n == 0 {
                return None;
            }
            buf.extend_from_slice(&tmp[..n]);
        }
        let reason = if status == 200 { "OK" } else { "Forbidden" };
        sock.write_all(format!("HTTP/1.1 {status} {reason}\r\n\r\n").as_bytes()).ok()?;
        // keep the socket until the client lets go
        let _ = sock.read(&mut tmp);
        Some(String::from_utf8_lossy(&buf).lines().next().unwrap_or("").to_string())
    })
}

fn run_case(prefer_v6: bool, path: PathKind, host: &str, imm: [Option<Res>; 2], groups: &[Vec<Ev>]) -> Run {
    let url = match host {
        "dom" => "https://relay.example.test/".to_string(),
        "noport" => "unknown://relay.example.test/".to_string(),
        h if h.starts_with("v4:") => format!("https://{}/", v4_of(h[3..].parse().expect("id"))),
        h if h.starts_with("v6:") => format!("https://[{}]/", v6_of(h[3..].parse().expect("id"))),
        other => panic!("bad host {other}"),
    };
    let url = url::Url::parse(&url).expect("url");
    // real, already connected sockets for successful attempts (at most one attempt can succeed)
    let wants_ok = groups.iter().flatten().any(|e| matches!(e, Ev::Dial(_, Ok(()))));
    let mut pool = vec![];
    let mut _listener = None;
    let mut peer = None;
    if wants_ok {
        let l = std::net::TcpListener::bind((Ipv4Addr::LOCALHOST, 0)).expect("bind");
        let s = std::net::TcpStream::connect(l.local_addr().unwrap()).expect("connect");
        s.set_nonblocking(true).unwrap();
        pool.push(s);
        match path {
            PathKind::Proxy(status) => peer = Some(proxy_peer(l, status)),
            _ => _listener = Some(l),
        }
    }
    let rt = tokio::runtime::Builder::new_current_thread().enable_all().start_paused(true).build().unwrap();
    let res = rt.block_on(async {
        let t0 = Instant::now();
        let shared: Shared = Arc::new(Mutex::new(World { t0, group: 0, calls: vec![], lookup_hosts: vec![], slots: Default::default(), imm, attempts: vec![], pool }));
        let resolver = DnsResolver::custom(Scripted(shared.clone()));
        let sh2 = shared.clone();
        verif_dial_hooks::set_connector(Some(Arc::new(move |addr: SocketAddr| {
            let mut w = sh2.lock().unwrap();
            let ns = now_ns(&w);
            let (fam, id) = id_of(addr.ip());
            let group = w.group;
            w.attempts.push(Attempt {
                fam,
                id,
                start_ms: (ns / 1_000_000) as u64,
                unaligned: ns % 1_000_000 != 0,
                group,
                alive: true,
                reply: None,
                accepted: None,
                waker: None,
                local_port: None,
            });
            let i = w.attempts.len() - 1;
            Box::pin(DialFut { i, sh: sh2.clone() }) as verif_dial_hooks::ConnectFuture
        })));
        // `Ok(Some(stream))` from the dialer itself, `Ok(None)` from the builder's `dial_url`
        type DialOut = Result<Option<TcpStream>, DialError>;
        let target: url::Url = "https://relay.example.test/".parse().unwrap();
        let inner: Pin<Box<dyn Future<Output = DialOut> + '_>> = match path {
            PathKind::Hook => Box::pin(async { verif_dial_hooks::dial_happy_eyeballs(&resolver, &url, prefer_v6).await.map(Some) }),
            PathKind::Direct => Box::pin(async {
                verif_dial_hooks::dial_url(url.clone(), resolver.clone(), None, prefer_v6, iroh_relay::tls::make_dangerous_client_config())
                    .await
                    .map(|proxied| {
                        assert!(!proxied);
                        None
                    })
            }),
            PathKind::Proxy(_) => Box::pin(async {
                // the proxy URL is what gets resolved and dialed; http scheme: no TLS to the proxy
                // a proxy of its own: another host than the relay (for `dom`), plain http
                let mut proxy = url.clone();
                if proxy.scheme() == "https" {
                    proxy.set_scheme("http").unwrap();
                }
                if proxy.host_str() == Some("relay.example.test") {
                    proxy.set_host(Some(PROXY_HOST)).unwrap();
                }
                verif_dial_hooks::dial_url(target.clone(), resolver.clone(), Some(proxy), prefer_v6, iroh_relay::tls::make_dangerous_client_config())
                    .await
                    .map(|proxied| {
                        assert!(proxied);
                        None
                    })
            }),
        };
        let mut fut = pin!(tokio::task::unconstrained(inner));
        let flag = Arc::new(Flag { set: AtomicBool::new(true), main: Mutex::new(None) });
        let waker = Waker::from(flag.clone());
        let now_ms = || (Instant::now() - t0).as_millis() as u64;
        let mut result: Option<(DialOut, u64, usize)> = None;
        macro_rules! poll_quiescent {
            ($g:expr) => {
                while result.is_none() && flag.set.swap(false, Ordering::SeqCst) {
                    let mut cx = Context::from_waker(&waker);
                    if let Poll::Ready(r) = fut.as_mut().poll(&mut cx) {
                        result = Some((r, now_ms(), $g));
                    }
                }
            };
        }
        poll_quiescent!(0);
        for (gi, group) in groups.iter().enumerate() {
            let g = gi + 1;
            shared.lock().unwrap().group = g;
            if result.is_some() {
                break;
            }
            for ev in group {
                match ev {
                    Ev::Advance(ms) => {
                        let target = t0 + Duration::from_millis(now_ms() + ms);
                        loop {
                            poll_quiescent!(g);
                            if result.is_some() || Instant::now() >= target {
                                break;
                            }
                            let mut sl = pin!(tokio::time::sleep_until(target));
                            std::future::poll_fn(|cx| {
                                *flag.main.lock().unwrap() = Some(cx.waker().clone());
                                if flag.set.load(Ordering::SeqCst) {
                                    return Poll::Ready(());
                                }
                                sl.as_mut().poll(cx)
                            })
                            .await;
                        }
                    }
                    Ev::Dns(f, res) => {
                        let mut w = shared.lock().unwrap();
                        let t = now_ms();
                        let s = &mut w.slots[*f];
                        if s.issued > 0 && s.alive && s.accepted.is_none() {
                            s.accepted = Some((res.clone(), t, g));
                            s.reply = Some(res.clone());
                            if let Some(wk) = s.waker.take() {
                                wk.wake();
                            }
                        }
                    }
                    Ev::Dial(i, res) => {
                        let mut w = shared.lock().unwrap();
                        let t = now_ms();
                        if let Some(a) = w.attempts.get_mut(*i) {
                            if a.alive && a.accepted.is_none() {
                                a.accepted = Some((res.clone(), t));
                                a.reply = Some(res.clone());
                                if let Some(wk) = a.waker.take() {
                                    wk.wake();
                                }
                            }
                        }
                    }
                }
            }
            poll_quiescent!(g);
            // an attempt connected but `dial_url` has not returned: the CONNECT exchange with the
            // proxy peer is real socket I/O; drive it to its end before anything else happens
            while result.is_none() && shared.lock().unwrap().attempts.iter().any(|a| a.local_port.is_some()) {
                std::future::poll_fn(|cx| {
                    *flag.main.lock().unwrap() = Some(cx.waker().clone());
                    if flag.set.load(Ordering::SeqCst) { Poll::Ready(()) } else { Poll::Pending }
                })
                .await;
                poll_quiescent!(g);
            }
        }
        verif_dial_hooks::set_connector(None);
        let end_ms = result.as_ref().map(|r| r.1).unwrap_or_else(now_ms);
        let end_group = result.as_ref().map(|r| r.2).unwrap_or(groups.len() + 1);
        let mut w = shared.lock().unwrap();
        let outcome = match &result {
            None => Outcome::Pending,
            Some((Ok(Some(stream)), _, _)) => {
                let port = stream.local_addr().ok().map(|a| a.port());
                Outcome::Ok(w.attempts.iter().position(|a| a.local_port.is_some() && a.local_port == port))
            }
            // through the builder the stream is not handed back: the attempt that was given the socket
            Some((Ok(None), _, _)) => Outcome::Ok(w.attempts.iter().position(|a| a.local_port.is_some())),
            Some((Err(e), _, _)) => Outcome::Err(dial_err_class(e)),
        };
        let attempts = std::mem::take(&mut w.attempts);
        Run {
            outcome,
            end_ms,
            end_group,
            attempts,
            calls: w.calls.clone(),
            lookup_hosts: w.lookup_hosts.clone(),
            dns: [w.slots[0].accepted.clone(), w.slots[1].accepted.clone()],
            dns_issued: [w.slots[0].issued, w.slots[1].issued],
        }
    });
    verif_dial_hooks::set_connector(None);
    drop(rt);
    if let Some(p) = peer {
        // the peer ends once the client side is gone; a dial that never connected leaves it in accept()
        if res.attempts.iter().any(|a| a.local_port.is_some()) {
            if let Ok(Some(line)) = p.join() {
                res_check_connect_line(&line);
            }
        }
    }
    res
}

fn res_check_connect_line(line: &str) {
    assert!(line.starts_with("CONNECT relay.example.test:443"), "unexpected request line {line}");
}

/// Oracle: the statement of C15 evaluated on the observed attempt log and result.
fn oracle(prefer_v6: bool, path: PathKind, host: &str, run: &Run, ex: &mut Exec) {
    let pref: u8 = if prefer_v6 { 6 } else { 4 };
    if run.attempts.iter().any(|a| a.unaligned) {
        ex.violation("harness-unaligned-time", "an attempt started off the millisecond grid");
    }
    if host == "noport" {
        let want = if matches!(path, PathKind::Proxy(_)) { "proxyport" } else { "port" };
        if run.outcome != Outcome::Err(want.into()) || !run.attempts.is_empty() {
            ex.violation("noport-not-rejected", format!("{:?}", run.outcome));
        }
        return;
    }
    let want_host = if matches!(path, PathKind::Proxy(_)) { PROXY_HOST } else { "relay.example.test" };
    if let Some(h) = run.lookup_hosts.iter().find(|h| h.as_str() != want_host) {
        ex.violation("wrong-lookup-host", format!("resolver asked for `{h}`, the hop goes to `{want_host}`"));
    }
    if run.dns_issued.iter().any(|n| *n > 1) {
        ex.violation("lookup-issued-twice", format!("{:?}", run.dns_issued));
    }
    // the addresses name resolution yielded, with the instant and poll group they arrived in
    let mut resolved: Vec<(u8, u32, u64, usize)> = vec![];
    match host {
        "dom" => {
            for (fi, fam) in [(0usize, 4u8), (1, 6)] {
                if let Some((Res::Ok(ids), t, g)) = &run.dns[fi] {
                    for id in ids {
                        resolved.push((fam, *id, *t, *g));
                    }
                }
            }
        }
        h => resolved.push((if h.starts_with("v4") { 4 } else { 6 }, h[3..].parse().unwrap(), 0, 0)),
    }
    // attempts are resolved addresses, each tried at most once
    let mut untried = resolved.clone();
    for a in &run.attempts {
        match untried.iter().position(|r| r.0 == a.fam && r.1 == a.id) {
            Some(p) => {
                untried.remove(p);
            }
            None => ex.violation("attempt-of-unresolved-address", format!("{}.{} at {}", a.fam, a.id, a.start_ms)),
        }
    }
    // first success is returned, at once
    let first_ok = run.attempts.iter().enumerate().filter(|(_, a)| matches!(a.accepted, Some((Ok(()), _)))).min_by_key(|(_, a)| a.accepted.as_ref().unwrap().1);
    let refused = matches!(path, PathKind::Proxy(st) if st != 200);
    match (&run.outcome, first_ok) {
        // the proxy refused the tunnel: the dial succeeded, the builder reports the proxy's status
        (Outcome::Err(c), Some((_, a))) if refused => {
            if c != "proxystatus.403" || a.accepted.as_ref().unwrap().1 != run.end_ms {
                ex.violation("proxy-refusal-not-reported", format!("{c} at {}", run.end_ms));
            }
            return;
        }
        (Outcome::Ok(Some(i)), Some((j, a))) => {
            if *i != j || a.accepted.as_ref().unwrap().1 != run.end_ms {
                ex.violation("not-first-success", format!("returned attempt {i} at {}, attempt {j} succeeded at {}", run.end_ms, a.accepted.as_ref().unwrap().1));
            }
        }
        (Outcome::Ok(i), None) => ex.violation("ok-without-success", format!("returned {i:?}")),
        (Outcome::Ok(None), _) => ex.violation("unknown-stream-returned", "the returned stream is not one the connector handed out"),
        (other, Some((j, _))) => ex.violation("success-not-returned", format!("attempt {j} succeeded, outcome {other:?}")),
        _ => {}
    }
    // dialing fails only after resolution has finished and every attempt has failed
    if let Outcome::Err(_) = &run.outcome {
        if host == "dom" {
            for f in 0..2 {
                let fam = if f == 0 { 4u8 } else { 6 };
                let issued_at = run.calls.iter().find(|c| c.0 == fam).map(|c| c.1);
                let done = match (&run.dns[f], issued_at) {
                    (Some((_, t, _)), _) => *t <= run.end_ms,
                    // no reply: the lookup is over once its timeout (3 s) has run out
                    (None, Some(t)) => t + 3000 <= run.end_ms,
                    (None, None) => false,
                };
                if !done {
                    ex.violation("failed-before-resolution-finished", format!("family {} lookup still outstanding at {}", if f == 0 { 4 } else { 6 }, run.end_ms));
                }
            }
        }
        if !untried.is_empty() {
            ex.violation("failed-with-untried-address", format!("{untried:?}"));
        }
        for (i, a) in run.attempts.iter().enumerate() {
            let failed = matches!(a.accepted, Some((Err(_), _))) || (a.accepted.is_none() && a.start_ms + 1500 <= run.end_ms);
            if !failed {
                ex.violation("failed-with-attempt-outstanding", format!("attempt {i}"));
            }
        }
    }
    // the first attempt uses the preferred family when such an address resolved before the
    // resolution delay (counted from the first other-family address) ran out
    if let Some(first) = run.attempts.first() {
        if first.fam != pref {
            let t_other = resolved.iter().filter(|r| r.0 != pref).map(|r| r.2).min().unwrap_or(0);
            if let Some(p) = resolved.iter().filter(|r| r.0 == pref && r.3 < first.group).find(|r| r.2 < t_other + RESOLUTION_DELAY) {
                // on the proxy path the attempts are those of the proxy hop, which is dialed with
                // the builder's preference like any other dial
                let class = if matches!(path, PathKind::Proxy(_)) { "proxy-hop-not-preferred-first" } else { "preferred-family-not-first" };
                ex.violation(class, format!("first attempt {}.{} at {}, preferred {}.{} had resolved at {}", first.fam, first.id, first.start_ms, p.0, p.1, p.2));
            }
        }
    }
    // later attempts alternate families while both have untried addresses
    let mut tried: Vec<(u8, u32)> = vec![];
    for k in 0..run.attempts.len() {
        let a = &run.attempts[k];
        if k > 0 {
            let prev = &run.attempts[k - 1];
            // addresses certainly in the dialer's hands when attempt k started: resolved in an earlier poll group
            let mut avail: Vec<(u8, u32)> = resolved.iter().filter(|r| r.3 < a.group).map(|r| (r.0, r.1)).collect();
            for t in &tried {
                if let Some(p) = avail.iter().position(|x| x == t) {
                    avail.remove(p);
                }
            }
            let both = avail.iter().any(|x| x.0 == 4) && avail.iter().any(|x| x.0 == 6);
            if both && a.fam == prev.fam {
                ex.violation("no-alternation", format!("attempts {} and {k} both family {}, untried {:?}", k - 1, a.fam, avail));
            }
        }
        tried.push((a.fam, a.id));
    }
}

fn gen_res(rng: &mut Rng, base: u32) -> Res {
    match rng.below(12) {
        0 => Res::Err(format!("e{}", rng.below(50))),
        1 => Res::Ok(vec![]),
        _ => {
            let n = rng.range(1, 3);
            Res::Ok((0..n).map(|j| base + j as u32).collect())
        }
    }
}

impl Prop for C15 {
    fn id(&self) -> &'static str {
        "C15"
    }

    fn generate(&mut self, rng: &mut Rng, _tier: Tier, n: usize, out: &mut Vec<String>) {
        // D4: the wanted family was flipped instead of set opposite to the family just dialed
        out.push("6 dom - - r4=ok.1,a50,r6=ok.7+r4=ok.2,a250,a250,a250".into());
        out.push("6 dom - - r4=ok.1,a50,r6=ok.7,a1,a250,a250".into());
        out.push("4 dom - - r6=ok.7,a50,r4=ok.1,r6=ok.8,a250,a250,a250".into());
        out.push("4 dom ok.1.2 - a250,r6=ok.7,a250,a250,a250".into());
        out.push("4 noport - - a10".into());
        out.push("6d noport - - a10".into());
        out.push("4p noport - - a10".into());
        out.push("6q noport - - c0=ok".into());
        for p in ["4", "6"] {
            for h in ["v4:5", "v6:9"] {
                out.push(format!("{p} {h} - - c0=ok"));
                out.push(format!("{p} {h} - - c0=x1"));
                out.push(format!("{p} {h} - - a1499,a1,a1"));
            }
            // resolution delay boundary: preferred family resolves just inside / at / after the delay
            let (np, pr) = if p == "4" { ("r6", "r4") } else { ("r4", "r6") };
            for d in [0u64, 1, 49, 50, 51] {
                out.push(format!("{p} dom - - {np}=ok.1.2,a{d},{pr}=ok.7,a250,a250,a250"));
                out.push(format!("{p} dom - - {np}=ok.1,a{d},{pr}=e3,a250,a250"));
            }
            out.push(format!("{p} dom - - {np}=ok.1+{pr}=ok.7,a250,a250"));
            out.push(format!("{p} dom - - {pr}=ok.7+{np}=ok.1,a250,a250"));
            // nothing resolves
            out.push(format!("{p} dom - - r4=e1,r6=e2"));
            out.push(format!("{p} dom - - r4=ok,r6=ok"));
            out.push(format!("{p} dom - - a3000"));
            out.push(format!("{p} dom e1 e2 -"));
            // all fail fast / all hang
            out.push(format!("{p} dom ok.1.2 ok.7.8 c0=x0,c1=x1,c2=x2,c3=x3"));
            out.push(format!("{p} dom ok.1.2 ok.7.8 a250,a250,a250,a1500,a250,a250,a250"));
            out.push(format!("{p} dom ok.1.2 ok.7.8 a250,a250,c1=ok"));
        }
        // the proxy hop is an ordinary dial with the builder's preference: the proxy host resolves
        // to both families, in both orders and at different distances, for both preferences
        for p in ["4", "6"] {
            for letter in ["p", "d"] {
                for d in [0u64, 10, 49, 50, 60] {
                    out.push(format!("{p}{letter} dom - - r4=ok.1.2,a{d},r6=ok.7.8,a250,a250,c1=ok"));
                    out.push(format!("{p}{letter} dom - - r6=ok.7.8,a{d},r4=ok.1.2,a250,a250,c1=ok"));
                }
                out.push(format!("{p}{letter} dom ok.1 ok.7 a250,c0=x1,c1=ok"));
                out.push(format!("{p}{letter} dom - - r4=ok.1+r6=ok.7,a250,c1=ok"));
            }
        }
        // the same witnesses and boundary cases through the builder's direct and proxy paths
        let base: Vec<String> = out.clone();
        for (k, line) in base.iter().enumerate() {
            let (pf, rest) = line.split_once(' ').unwrap();
            if pf.len() == 1 {
                let letter = ["d", "p", "p", "q"][k % 4];
                out.push(format!("{pf}{letter} {rest}"));
            }
        }
        while out.len() < n {
            let p = match rng.below(20) {
                0..=9 => if rng.bool() { "4" } else { "6" },
                10..=13 => if rng.bool() { "4d" } else { "6d" },
                14..=18 => if rng.bool() { "4p" } else { "6p" },
                _ => if rng.bool() { "4q" } else { "6q" },
            };
            let host = match rng.below(12) {
                0 => format!("v4:{}", rng.below(1000)),
                1 => format!("v6:{}", rng.below(1000)),
                _ => "dom".to_string(),
            };
            let imm4 = if rng.chance(2, 5) { fmt_res(&gen_res(rng, 10)) } else { "-".into() };
            let imm6 = if rng.chance(2, 5) { fmt_res(&gen_res(rng, 60)) } else { "-".into() };
            let len = rng.range(1, 14) as usize;
            let mut groups: Vec<String> = vec![];
            let mut dns_left = [imm4 == "-", imm6 == "-"];
            // rough count of attempts started so far, so that completions mostly hit real attempts
            let mut est: u64 = if imm4.starts_with("ok.") || imm6.starts_with("ok.") || host != "dom" { 1 } else { 0 };
            for _ in 0..len {
                let g = match rng.below(12) {
                    0..=3 => {
                        let ms = *rng.pick(&[0u64, 1, 10, 49, 50, 51, 100, 249, 250, 250, 251, 500, 1499, 1500, 3000]);
                        est += (ms + 49) / 250;
                        format!("a{ms}")
                    }
                    4 | 5 if dns_left[0] => {
                        dns_left[0] = rng.chance(1, 8);
                        let base = 10 + rng.below(3) as u32 * 10;
                        est += 1;
                        format!("r4={}", fmt_res(&gen_res(rng, base)))
                    }
                    6 | 7 if dns_left[1] => {
                        dns_left[1] = rng.chance(1, 8);
                        let base = 60 + rng.below(3) as u32 * 10;
                        est += 1;
                        format!("r6={}", fmt_res(&gen_res(rng, base)))
                    }
                    8 => format!("c{}=ok", rng.below(est.min(5) + 1)),
                    _ => {
                        est += 1;
                        format!("c{}=x{}", rng.below(est.min(6) + 1), rng.below(9))
                    }
                };
                // sometimes join with the previous group (both become ready for the same poll),
                // never two attempt completions or an advance in one group
                let joinable = |s: &str| !s.starts_with('a');
                if rng.chance(1, 4)
                    && groups.last().is_some_and(|l| joinable(l) && joinable(&g) && !(l.contains('c') && g.starts_with('c')))
                {
                    let l = groups.pop().unwrap();
                    groups.push(format!("{l}+{g}"));
                } else {
                    groups.push(g);
                }
            }
            out.push(format!("{p} {host} {imm4} {imm6} {}", groups.join(",")));
        }
    }

    fn execute(&mut self, payload: &str) -> Exec {
        let toks: Vec<&str> = payload.split(' ').collect();
        let prefer_v6 = toks[0].starts_with('6');
        let path = match toks[0].get(1..) {
            Some("d") => PathKind::Direct,
            Some("p") => PathKind::Proxy(200),
            Some("q") => PathKind::Proxy(403),
            _ => PathKind::Hook,
        };
        let host = toks[1];
        let imm = [toks[2], toks[3]].map(|t| if t == "-" { None } else { Some(parse_res(t)) });
        let groups: Vec<Vec<Ev>> = if toks[4] == "-" { vec![] } else { toks[4].split(',').map(|g| g.split('+').map(parse_ev).collect()).collect() };
        let run = run_case(prefer_v6, path, host, imm, &groups);
        let join = |v: Vec<String>| if v.is_empty() { "-".to_string() } else { v.join(",") };
        let res = match &run.outcome {
            Outcome::Ok(Some(i)) => format!("ok.{i}@{}", run.end_ms),
            Outcome::Ok(None) => format!("ok.?@{}", run.end_ms),
            Outcome::Err(c) => format!("err.{c}@{}", run.end_ms),
            Outcome::Pending => "pending".to_string(),
        };
        let out = format!(
            "starts={} res={res} calls={}",
            join(run.attempts.iter().map(|a| format!("{}.{}@{}", a.fam, a.id, a.start_ms)).collect()),
            join(run.calls.iter().map(|c| format!("{}@{}", c.0, c.1)).collect())
        );
        let mut ex = Exec::new(out);
        oracle(prefer_v6, path, host, &run, &mut ex);
        ex.tags.push(format!("path-{}", match path { PathKind::Hook => "dialer", PathKind::Direct => "dial_url", PathKind::Proxy(200) => "proxy", PathKind::Proxy(_) => "proxy-refused" }));
        let _ = run.end_group;
        ex.nontrivial = run.attempts.len() >= 2;
        ex.tags.push(format!("attempts-{}", run.attempts.len().min(5)));
        ex.tags.push(
            match &run.outcome {
                Outcome::Ok(_) => "result-ok",
                Outcome::Err(_) => "result-err",
                Outcome::Pending => "result-pending",
            }
            .into(),
        );
        if run.attempts.iter().any(|a| a.fam == 4) && run.attempts.iter().any(|a| a.fam == 6) {
            ex.tags.push("both-families-attempted".into());
        }
        if run.attempts.first().is_some_and(|a| a.fam != if prefer_v6 { 6 } else { 4 }) {
            ex.tags.push("first-attempt-non-preferred".into());
        }
        ex
    }
}

fn main() {
    run(C15);
}
