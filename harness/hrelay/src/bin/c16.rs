//! C16 — `Datagrams::take_segments` partitions a batch exactly.
//!
//! payload: `<ecn 0..3> <segment size, 0 = None> <n (usize, decimal)> <contents hex>`
//! output : `<step>;<step>;… [stuck]` with
//!          `<step> = <ecn>/<seg>/<taken contents>><seg of the remainder>`
//!          (contents longer than 48 bytes are written `#<len>:<fnv-1a 64 of the bytes>`)
//!
//! The iteration is the one of `RelayTransport::poll_recv`: take, stop when the
//! remainder is empty.  A step that neither shortens the remainder nor clears
//! its segment size would repeat forever (`take_segments(0)`); the run stops
//! there with the token `stuck`.
use std::num::NonZeroU16;

use bytes::Bytes;
use iroh_relay::protos::relay::Datagrams;
use noq_proto::EcnCodepoint;
use vcommon::*;

struct C16;

fn ecn_code(e: Option<EcnCodepoint>) -> u8 {
    e.map_or(0, |e| e as u8)
}

fn seg_code(s: Option<NonZeroU16>) -> u16 {
    s.map_or(0, u16::from)
}

fn fnv64(bs: &[u8]) -> u64 {
    let mut h: u64 = 0xcbf29ce484222325;
    for b in bs {
        h ^= *b as u64;
        h = h.wrapping_mul(0x100000001b3);
    }
    h
}

/// Long byte strings are written as `#<len>:<fnv-1a 64>`.
fn compact(bs: &[u8]) -> String {
    if bs.len() <= 48 { hex(bs) } else { format!("#{}:{}", bs.len(), fnv64(bs)) }
}

fn measure(d: &Datagrams) -> usize {
    2 * d.contents.len() + usize::from(d.segment_size.is_some())
}

/// The datagrams a batch stands for: `contents` cut every `seg` bytes (the last
/// one may be shorter); without a segment size the contents are one datagram.
/// Empty contents stand for no datagram.
fn datagrams_of(seg: u16, contents: &[u8]) -> Vec<&[u8]> {
    if contents.is_empty() {
        Vec::new()
    } else if seg == 0 {
        vec![contents]
    } else {
        contents.chunks(seg as usize).collect()
    }
}

impl Prop for C16 {
    fn id(&self) -> &'static str {
        "C16"
    }

    fn generate(&mut self, rng: &mut Rng, tier: Tier, n: usize, out: &mut Vec<String>) {
        let ns: Vec<u128> = (0..=9u128)
            .chain([1 << 16, 1 << 48, (1 << 63) - 1, 1 << 63, u64::MAX as u128 / 2 + 2, u64::MAX as u128 - 1, u64::MAX as u128])
            .collect();
        let max_len = if tier == Tier::Thorough { 70 } else { 20 };
        // exhaustive small grid: every contents length × segment size × n
        for len in 0..=max_len {
            let contents = rng.bytes(len);
            for seg in (0..=9u16).chain([len as u16 + 1, 65535]) {
                for &k in &ns {
                    let ecn = rng.below(4);
                    out.push(format!("{ecn} {seg} {k} {}", hex(&contents)));
                }
            }
        }
        // random larger batches, honest and dishonest segment sizes
        while out.len() < n {
            let len = match rng.below(40) {
                0..=7 => rng.range(0, 8) as usize,
                8..=10 => rng.range(1100, 1500 * 4) as usize,
                11 => rng.range(60000, 66000) as usize,
                12..=20 => rng.range(0, 3000) as usize,
                _ => rng.range(0, 300) as usize,
            };
            let seg: u16 = match rng.below(8) {
                0 => 0,
                1 => rng.range(1, 4) as u16,
                2 => rng.range(65000, 65535) as u16,
                3 => (len as u64).clamp(1, 65535) as u16,
                4 => (len as u64 + rng.range(0, 2)).clamp(1, 65535) as u16,
                5 => ((len as u64 / rng.range(1, 7)).clamp(1, 65535)) as u16,
                _ => rng.range(1, 1500) as u16,
            };
            let k: u128 = match rng.below(8) {
                0 => 0,
                1 => u64::MAX as u128 - rng.range(0, 3) as u128,
                2 => ((u64::MAX as u128 / seg.max(1) as u128) + rng.range(0, 2) as u128).min(u64::MAX as u128),
                3 => 1u128 << rng.range(1, 63),
                4 => 1,
                _ => rng.range(1, 70) as u128,
            };
            // keep the number of calls per case small (the run is quadratic in it)
            let per_call = (seg.max(1) as u128) * k;
            let k = if k > 0 && per_call * 48 < len as u128 { (len as u128).div_ceil(seg.max(1) as u128 * 48) } else { k };
            let ecn = rng.below(4);
            out.push(format!("{ecn} {seg} {k} {}", hex(&rng.bytes(len))));
        }
    }

    fn execute(&mut self, payload: &str) -> Exec {
        let t: Vec<&str> = payload.split(' ').collect();
        assert_eq!(t.len(), 4, "payload tokens");
        let ecn_in: u8 = t[0].parse().expect("ecn");
        let seg_in: u16 = t[1].parse().expect("seg");
        let n: usize = t[2].parse().expect("n");
        let contents = unhex(t[3]).expect("hex");

        let mut d = Datagrams {
            ecn: EcnCodepoint::from_bits(ecn_in),
            segment_size: NonZeroU16::new(seg_in),
            contents: Bytes::from(contents.clone()),
        };
        let mut taken: Vec<Datagrams> = Vec::new();
        let mut steps: Vec<String> = Vec::new();
        let mut stuck = false;
        loop {
            let before = measure(&d);
            let t = d.take_segments(n);
            steps.push(format!(
                "{}/{}/{}>{}",
                ecn_code(t.ecn),
                seg_code(t.segment_size),
                compact(&t.contents),
                seg_code(d.segment_size)
            ));
            taken.push(t);
            if d.contents.is_empty() {
                break;
            }
            if measure(&d) >= before {
                stuck = true;
                break;
            }
        }
        let mut line = steps.join(";");
        if stuck {
            line.push_str(" stuck");
        }
        let mut ex = Exec::new(line);
        ex.tags.push(format!("steps-{}", taken.len().min(9)));
        ex.tags.push(if seg_in == 0 { "seg-none".into() } else if seg_in as usize > contents.len() { "seg-larger".into() } else if contents.len() % seg_in as usize == 0 { "seg-divides".into() } else { "seg-ragged".into() });
        if n == 0 {
            // outside the property's quantifier (n >= 1); behaviour is still compared with the model
            ex.tags.push("n-zero".into());
            return ex;
        }
        if n as u128 * seg_in as u128 > u64::MAX as u128 {
            ex.tags.push("product-overflows-usize".into());
        }

        // ---- oracle: the statement of C16 on the implementation's values -------------
        if stuck {
            ex.violation("no-progress", "a step with n >= 1 took nothing from a non-empty batch");
        }
        let concat: Vec<u8> = taken.iter().flat_map(|t| t.contents.iter().copied()).collect();
        if concat != contents {
            ex.violation("bytes-lost-or-duplicated", format!("concat has {} bytes, original {}", concat.len(), contents.len()));
        }
        let mut rechunked: Vec<Vec<u8>> = Vec::new();
        for (i, t) in taken.iter().enumerate() {
            if ecn_code(t.ecn) != ecn_in & 3 {
                ex.violation("ecn-changed", format!("batch {i}: ecn {}", ecn_code(t.ecn)));
            }
            let held = datagrams_of(seg_in, &t.contents).len();
            if held as u128 > n as u128 {
                ex.violation("more-than-n-segments", format!("batch {i} holds {held} datagrams, n = {n}"));
            }
            match t.segment_size {
                Some(s) => {
                    if u16::from(s) != seg_in {
                        ex.violation("segment-size-changed", format!("batch {i}: {s} vs {seg_in}"));
                    }
                    if held <= 1 {
                        ex.violation("segment-size-on-single-datagram", format!("batch {i} holds {held} datagram(s) but carries size {s}"));
                    }
                }
                None => {
                    if held > 1 {
                        ex.violation("segment-size-missing", format!("batch {i} holds {held} datagrams without a segment size"));
                    }
                }
            }
            for c in datagrams_of(seg_code(t.segment_size), &t.contents) {
                rechunked.push(c.to_vec());
            }
        }
        let original: Vec<Vec<u8>> = datagrams_of(seg_in, &contents).into_iter().map(|c| c.to_vec()).collect();
        if rechunked != original {
            ex.violation("boundaries-moved", format!("{} datagrams after re-batching, {} originally", rechunked.len(), original.len()));
        }
        ex.nontrivial = taken.len() > 1 || taken[0].segment_size.is_some();
        ex
    }
}

fn main() {
    run(C16);
}
