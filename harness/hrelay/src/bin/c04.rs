//! C04 — relay forwards datagrams only to the addressed endpoint, with the true sender.
//!
//! payload: a registry script (grammar in `../relayreg.rs`), e.g.
//!   `2;reg 0 2;reg 1 2;send 1 0 b 3 1200 p2400.7;reg 0 1;send 1 0 s 0 0 aabb`
//! output : per operation (joined by `|`): result, frames every connection received,
//!   connections whose actor ended, registry snapshot, `sent_to`.
//!
//! The script drives the REAL `Clients` registry (public API, in-memory streams) on a
//! current-thread runtime, each operation run to quiescence (one script = one schedule;
//! every case is executed twice and must reproduce).  Datagram frames are encoded by hand
//! from the wire format (type, 32-byte destination, ECN byte, optional segment size,
//! contents) and the frames the relay writes are decoded by hand.
//!
//! Oracle (independent of the Lean model), the property statement evaluated on every datagram
//! frame any connection received:
//!  * `unsolicited`     — it matches no datagram a client sent to the receiver's endpoint id with
//!                        that sender id, ECN, segment size and contents (or it was delivered
//!                        before: at most once);
//!  * `wrong-connection`— it was delivered on a connection other than the one that was active
//!                        for the destination when the relay read the frame;
//!  * `reordered`       — datagrams of one sending connection to one connection overtook each other;
//!  * `wrong-endpoint`  — the receiving connection belongs to another endpoint id;
//!  * `forwardable-dropped` (completeness) — a datagram frame that the REAL decoder accepted, whose
//!                        relay→client frame passes the REAL forwarder check (`ensure_sendable` via
//!                        `RelayedStream::start_send`), addressed to an endpoint whose active
//!                        connection was registered, running and had queue room at that moment,
//!                        was not delivered on that connection although its actor ran (the
//!                        connection stayed alive, was not cancelled and is not stalled at the end).
#[path = "../relayreg.rs"]
mod relayreg;
use bytes::Bytes;
use iroh_relay::{
    KeyCache,
    http::ProtocolVersion,
    protos::relay::{ClientToRelayMsg, Datagrams, RelayToClientMsg, Status, verif_hooks as hooks},
};
use noq_proto::EcnCodepoint;
use relayreg::*;
use std::collections::BTreeMap;
use std::num::NonZeroU16;
use vcommon::*;

struct C04;

// ---------------------------------------------------------------------------------------------
// WIRE mode: payload `W <cap> <keys>;op;…` — the honest client's REAL encoder
// (`ClientToRelayMsg::to_bytes` via `protos::relay::verif_hooks`) produces the bytes that are fed
// into the real relay, and every byte string a connection receives is decoded with the REAL
// client-side decoder (`RelayToClientMsg::from_bytes`) in that connection's protocol version.
//   wsend c dst ecn seg tok                 honest datagram message (ecn 0..3, seg 0 = none)
//   wmut  c dst ecn seg tok kind a b        the honest encoding, then: `trunc` to a bytes |
//                                           `flip` byte a by xor b | `app`end a bytes of value b
//   wraw  c hex                             arbitrary bytes
// `<keys>`: the 32-byte keys of endpoints 0..7 and one invalid key (hex, comma separated), so
// that the Lean side knows which key bytes are valid and whose they are.

fn invalid_key() -> [u8; 32] {
    for i in 2u8..=255 {
        let b = [i; 32];
        if iroh_base::PublicKey::try_from(&b[..]).is_err() {
            return b;
        }
    }
    panic!("no invalid key found");
}

fn keys_field() -> String {
    let mut v: Vec<String> = (0..NUM_IDS).map(|i| hex(key(i).as_bytes())).collect();
    v.push(hex(&invalid_key()));
    v.join(",")
}

fn honest_bytes(dst: usize, ecn: u8, seg: u16, contents: &[u8]) -> Vec<u8> {
    let msg = ClientToRelayMsg::Datagrams {
        dst_endpoint_id: key(dst),
        datagrams: Datagrams {
            ecn: EcnCodepoint::from_bits(ecn).filter(|_| ecn & 3 != 0),
            segment_size: NonZeroU16::new(seg),
            contents: Bytes::copy_from_slice(contents),
        },
    };
    hooks::client_to_relay_to_bytes(&msg).to_vec()
}

fn parse_wire_op(s: &str) -> Option<Op> {
    let t: Vec<&str> = s.split(' ').filter(|x| !x.is_empty()).collect();
    let n = |i: usize| -> Option<usize> { t.get(i)?.parse().ok() };
    let bytes = match *t.first()? {
        "wsend" if t.len() == 6 => honest_bytes(n(2)?, n(3)? as u8, n(4)? as u16, &tok_bytes(t[5])?),
        "wmut" if t.len() == 9 => {
            let mut b = honest_bytes(n(2)?, n(3)? as u8, n(4)? as u16, &tok_bytes(t[5])?);
            let (a, x) = (n(7)?, n(8)? as u8);
            match t[6] {
                "trunc" => b.truncate(a),
                "flip" => {
                    if a < b.len() {
                        b[a] ^= x;
                    }
                }
                "app" => b.extend(std::iter::repeat_n(x, a)),
                _ => return None,
            }
            b
        }
        "wraw" if t.len() == 3 => unhex(t[2])?,
        _ => return None,
    };
    Some(Op::Raw { c: n(1)?, desc: s.to_string(), bytes, contents: None })
}

fn cstr(bs: &[u8]) -> String {
    let mut sum: u64 = 0;
    for (i, b) in bs.iter().enumerate() {
        sum = (sum + (i as u64 + 1) * *b as u64) % 4294967296;
    }
    format!("{}:{}", bs.len(), sum)
}

fn id_of(k: &iroh_base::EndpointId) -> usize {
    (0..NUM_IDS).find(|i| key(*i) == *k).unwrap_or(999)
}

/// What the receiving client makes of the bytes (the real decoder, in its version).
fn client_decode(bytes: &[u8], v1: bool) -> Result<RelayToClientMsg, String> {
    let v = if v1 { ProtocolVersion::V1 } else { ProtocolVersion::V2 };
    hooks::relay_to_client_from_bytes(Bytes::copy_from_slice(bytes), &KeyCache::new(0), v).map_err(|e| format!("{e}"))
}

fn show_client(m: &Result<RelayToClientMsg, String>) -> String {
    match m {
        Ok(RelayToClientMsg::Datagrams { remote_endpoint_id, datagrams }) => format!(
            "D{}.{}.{}.{}",
            id_of(remote_endpoint_id),
            datagrams.ecn.map_or(0, |e| e as u8),
            datagrams.segment_size.map_or(0, u16::from),
            cstr(&datagrams.contents)
        ),
        Ok(RelayToClientMsg::EndpointGone(k)) => format!("G{}", id_of(k)),
        Ok(RelayToClientMsg::Status(Status::Healthy)) => "S0".into(),
        Ok(RelayToClientMsg::Status(Status::SameEndpointIdConnected)) => "S1".into(),
        Ok(RelayToClientMsg::Status(_)) => "S?".into(),
        Ok(RelayToClientMsg::Health { problem }) => match HEALTH_TEXTS.iter().position(|x| *x == problem) {
            Some(n) => format!("H{n}"),
            None => "H?".into(),
        },
        Ok(RelayToClientMsg::Pong(d)) => format!("P{}", hex(d)),
        Ok(RelayToClientMsg::Ping(d)) => format!("I{}", hex(d)),
        Ok(RelayToClientMsg::Restarting { .. }) => "R".into(),
        Ok(_) => "?".into(),
        Err(_) => "E".into(),
    }
}

fn wire_render(tr: &Trace) -> String {
    let mut parts = Vec::new();
    for st in &tr.steps {
        if st.timeout {
            parts.push("timeout".to_string());
            continue;
        }
        let frames = if st.raw.is_empty() {
            "-".to_string()
        } else {
            st.raw
                .iter()
                .map(|(c, fs)| {
                    let v: Vec<String> = fs.iter().map(|b| show_client(&client_decode(b, tr.v1[*c]))).collect();
                    format!("c{c}[{}]", v.join(","))
                })
                .collect::<Vec<_>>()
                .join("")
        };
        let ended = if st.ended.is_empty() {
            "-".to_string()
        } else {
            st.ended.iter().map(|x| x.to_string()).collect::<Vec<_>>().join(",")
        };
        parts.push(format!("{} {} X{} {}", st.res, frames, ended, Trace::snap_str(&st.snap)));
    }
    parts.join("|")
}

/// The receiving client's real decoder must see exactly what the hand decoder of the harness sees.
fn check_client_decode(tr: &Trace, ex: &mut Exec) {
    for (i, st) in tr.steps.iter().enumerate() {
        for (c, fs) in &st.raw {
            for (j, b) in fs.iter().enumerate() {
                let real = client_decode(b, tr.v1[*c]);
                let hand = &st.frames[c][j];
                let same = match (&real, hand) {
                    (Ok(RelayToClientMsg::Datagrams { remote_endpoint_id, datagrams }), Frame::Datagrams { src, ecn, seg, contents }) => {
                        remote_endpoint_id.as_bytes() == src
                            && datagrams.ecn.map_or(0, |e| e as u8) == *ecn
                            && datagrams.segment_size.map_or(0, u16::from) == *seg
                            && datagrams.contents[..] == contents[..]
                    }
                    (Ok(RelayToClientMsg::EndpointGone(k)), Frame::Gone(g)) => k.as_bytes() == g,
                    (Ok(RelayToClientMsg::Status(_)), Frame::Status(_)) => true,
                    (Ok(RelayToClientMsg::Health { problem }), Frame::Health(t)) => problem.as_bytes() == &t[..],
                    (Ok(RelayToClientMsg::Pong(d)), Frame::Pong(p)) => d == p,
                    (Ok(RelayToClientMsg::Ping(d)), Frame::Ping(p)) => d == p,
                    _ => false,
                };
                if !same {
                    ex.violation(
                        "client-decode-mismatch",
                        format!("step {i} conn {c}: client decodes {} but the wire says {}", show_client(&real), tr.frame_str(hand)),
                    );
                }
            }
        }
    }
}

enum Wire {
    /// a datagram frame the relay's decoder accepts: (dst, ecn, seg, contents)
    Datagram(usize, u8, u16, Vec<u8>),
    /// ping / pong
    Harmless,
    Reject,
}

/// Client → relay frame, decoded by hand from the wire format.
fn parse_c2r(b: &[u8]) -> Wire {
    let Some(&b0) = b.first() else { return Wire::Reject };
    let w = 1usize << (b0 >> 6);
    if b.len() < w {
        return Wire::Reject;
    }
    let mut tag = (b0 & 0x3f) as u64;
    for x in &b[1..w] {
        tag = tag << 8 | *x as u64;
    }
    let rest = &b[w..];
    if tag > 13 || rest.len() > 65536 {
        return Wire::Reject;
    }
    match tag {
        4 | 5 => {
            if rest.len() < 32 {
                return Wire::Reject;
            }
            let Some(dst) = (0..NUM_IDS).find(|i| key(*i).as_bytes()[..] == rest[..32]) else {
                return Wire::Reject;
            };
            let d = &rest[32..];
            if tag == 5 {
                if d.len() < 3 {
                    return Wire::Reject;
                }
                Wire::Datagram(dst, d[0] & 3, u16::from_be_bytes([d[1], d[2]]), d[3..].to_vec())
            } else {
                if d.is_empty() {
                    return Wire::Reject;
                }
                Wire::Datagram(dst, d[0] & 3, 0, d[1..].to_vec())
            }
        }
        9 | 10 if rest.len() == 8 => Wire::Harmless,
        _ => Wire::Reject,
    }
}

const LIMIT_SINGLE: usize = 65536 - 32 - 1; // largest contents the decoder accepts (single)
const LIMIT_BATCH: usize = 65536 - 32 - 3;

#[derive(Default)]
struct Gen {
    owner: Vec<usize>,
    dead: Vec<bool>,
    stalled: Vec<bool>,
}

impl Gen {
    fn alive(&self) -> Vec<usize> {
        (0..self.owner.len()).filter(|c| !self.dead[*c]).collect()
    }
    fn reg(&mut self, id: usize) {
        self.owner.push(id);
        self.dead.push(false);
        self.stalled.push(false);
    }
}

fn contents_tok(rng: &mut Rng, batch: bool, big: bool) -> String {
    let limit = if batch { LIMIT_BATCH } else { LIMIT_SINGLE };
    match rng.below(if big { 12 } else { 9 }) {
        0..=5 => hex(&{
            let n = rng.range(1, 6) as usize;
            rng.bytes(n)
        }),
        6 => format!("p{}.{}", rng.range(33, 1500), rng.below(100)),
        7 => format!("p{}.{}", rng.range(1200, 9000), rng.below(100)),
        8 => "-".to_string(),
        // around the size limits of decoder and forwarder
        9 => format!("p{}.{}", limit - rng.range(0, 3) as usize, rng.below(10)),
        10 => format!("p{}.{}", limit + 1, rng.below(10)),
        _ => format!("p{}.{}", rng.range(20000, 65000), rng.below(10)),
    }
}

fn send_op(rng: &mut Rng, c: usize, dst: usize, big: bool) -> Op {
    let batch = rng.chance(1, 3);
    let ecn = match rng.below(4) {
        0 => rng.byte(),
        _ => rng.below(4) as u8,
    };
    let seg = if batch {
        let r = rng.below(65536) as u16;
        *rng.pick(&[0u16, 1, 2, 1200, 1452, 65535, r])
    } else {
        0
    };
    Op::Send { c, dst, batch, ecn, seg, tok: contents_tok(rng, batch, big) }
}

fn random_script(rng: &mut Rng, max_ops: usize, big: bool) -> Script {
    let cap = *rng.pick(&[1usize, 2, 2, 3, 4, 0]);
    let mut g = Gen::default();
    let mut ops = Vec::new();
    let nids = rng.range(2, 3) as usize;
    for id in 0..nids {
        g.reg(id);
        ops.push(Op::Reg { id, v1: rng.chance(1, 5) });
    }
    let nops = rng.range(5, max_ops as u64) as usize;
    while ops.len() < nops {
        let pick_conn = |rng: &mut Rng, g: &Gen| -> usize {
            let alive = g.alive();
            if alive.is_empty() || rng.chance(1, 15) {
                rng.usize_below(g.owner.len() + 1)
            } else {
                *rng.pick(&alive)
            }
        };
        match rng.below(100) {
            0..=54 => {
                let c = pick_conn(rng, &g);
                let dst = if rng.chance(9, 10) { rng.usize_below(nids) } else { rng.range(0, 5) as usize };
                ops.push(send_op(rng, c, dst, big));
                // bursts keep the order interesting
                if rng.chance(1, 3) {
                    ops.push(send_op(rng, c, dst, false));
                }
            }
            55..=66 => {
                let id = rng.usize_below(nids);
                g.reg(id);
                ops.push(Op::Reg { id, v1: rng.chance(1, 5) });
            }
            67..=74 => {
                let c = pick_conn(rng, &g);
                if c < g.dead.len() && !g.stalled[c] {
                    g.dead[c] = true;
                }
                ops.push(if rng.chance(1, 6) { Op::Bad { c } } else { Op::Close { c } });
            }
            75..=79 => {
                let id = rng.usize_below(nids);
                let sel = match rng.below(3) {
                    0 => DiscSel::All,
                    _ => DiscSel::Conn(pick_conn(rng, &g)),
                };
                ops.push(Op::Disc { id, sel });
            }
            80..=88 => {
                let c = pick_conn(rng, &g);
                if c < g.stalled.len() {
                    g.stalled[c] = true;
                }
                ops.push(Op::Stall { c });
            }
            89..=97 => {
                let st: Vec<usize> = (0..g.owner.len()).filter(|c| g.stalled[*c]).collect();
                let c = if st.is_empty() { pick_conn(rng, &g) } else { *rng.pick(&st) };
                if c < g.stalled.len() {
                    g.stalled[c] = false;
                }
                ops.push(Op::Unstall { c });
            }
            98 => {
                let c = pick_conn(rng, &g);
                let mut d = [0u8; 8];
                rng.fill(&mut d);
                ops.push(Op::Ping { c, data: d });
            }
            _ => {
                let id = rng.usize_below(nids);
                for d in g.dead.iter_mut() {
                    *d = true;
                }
                g.reg(id);
                ops.push(Op::ShutReg { id, v1: false });
            }
        }
    }
    // let everything drain at the end
    for c in 0..g.owner.len() {
        if g.stalled[c] {
            ops.push(Op::Unstall { c });
        }
    }
    Script { cap, write_timeout_ms: None, ops }
}

fn wire_tok(rng: &mut Rng) -> String {
    match rng.below(12) {
        0..=7 => {
            let n = rng.range(1, 8) as usize;
            hex(&rng.bytes(n))
        }
        8 => format!("p{}.{}", rng.range(33, 2000), rng.below(50)),
        9 => format!("p{}.{}", 65499 + rng.range(0, 5), rng.below(5)),
        10 => "-".into(),
        _ => format!("p{}.{}", rng.range(2000, 40000), rng.below(5)),
    }
}

/// One wire-mode script: two or three endpoints (V1 and V2 receivers, a duplicate), honest
/// messages, mutated encodings and raw bytes, an occasional stall.
fn wire_case(rng: &mut Rng, kf: &str) -> String {
    let cap = *rng.pick(&[1usize, 2, 4, 0]);
    let mut ops: Vec<String> = Vec::new();
    let nids = rng.range(2, 3) as usize;
    let mut nconn = 0;
    for id in 0..nids {
        ops.push(format!("reg {id} {}", rng.range(1, 2)));
        nconn += 1;
    }
    let k = rng.range(3, 12);
    for _ in 0..k {
        let c = rng.usize_below(nconn);
        let dst = if rng.chance(9, 10) { rng.usize_below(nids) } else { rng.range(3, 6) as usize };
        let ecn = rng.below(4);
        let seg = *rng.pick(&[0u16, 0, 1, 3, 1200, 65535]);
        match rng.below(100) {
            0..=54 => ops.push(format!("wsend {c} {dst} {ecn} {seg} {}", wire_tok(rng))),
            55..=69 => {
                // mutate the honest encoding, never inside the key (offsets 1..=32)
                let tok = hex(&{
                    let n = rng.range(1, 6) as usize;
                    rng.bytes(n)
                });
                let hdr = 33 + 1 + if seg != 0 { 2 } else { 0 };
                match rng.below(4) {
                    0 => ops.push(format!("wmut {c} {dst} {ecn} {seg} {tok} trunc {} 0", rng.below(hdr as u64 + 4))),
                    1 => ops.push(format!("wmut {c} {dst} {ecn} {seg} {tok} flip 0 {}", rng.range(1, 255))),
                    2 => ops.push(format!("wmut {c} {dst} {ecn} {seg} {tok} flip {} {}", 33 + rng.below(hdr as u64 - 33 + 2), rng.range(1, 255))),
                    _ => ops.push(format!("wmut {c} {dst} {ecn} {seg} {tok} app {} {}", rng.range(1, 40), rng.byte())),
                }
            }
            70..=77 => {
                let n = rng.range(0, 12) as usize;
                ops.push(format!("wraw {c} {}", hex(&rng.bytes(n))));
            }
            78..=83 => {
                ops.push(format!("reg {} {}", rng.usize_below(nids), rng.range(1, 2)));
                nconn += 1;
            }
            84..=88 => ops.push(format!("close {c}")),
            89..=93 => ops.push(format!("stall {c}")),
            94..=97 => ops.push(format!("unstall {c}")),
            _ => ops.push(format!("ping {c} {}", hex(&rng.bytes(8)))),
        }
    }
    for c in 0..nconn {
        ops.push(format!("unstall {c}"));
    }
    format!("W {cap} {kf};{}", ops.join(";"))
}

/// Alphabet of the exhaustive enumeration (prelude: `reg 0 2;reg 1 2`).
fn alphabet() -> Vec<Op> {
    let send = |c: usize, dst: usize, t: &str| Op::Send { c, dst, batch: false, ecn: 1, seg: 0, tok: t.into() };
    vec![
        send(1, 0, "a1"),
        send(1, 0, "a2"),
        send(0, 1, "b1"),
        send(0, 0, "c1"),
        Op::Send { c: 2, dst: 0, batch: true, ecn: 2, seg: 1, tok: "d1d2".into() },
        Op::Reg { id: 0, v1: false },
        Op::Close { c: 0 },
        Op::Close { c: 2 },
        Op::Stall { c: 0 },
        Op::Unstall { c: 0 },
        Op::Stall { c: 1 },
        Op::Unstall { c: 1 },
    ]
}

impl Prop for C04 {
    fn id(&self) -> &'static str {
        "C04"
    }

    fn generate(&mut self, rng: &mut Rng, tier: Tier, n: usize, out: &mut Vec<String>) {
        for s in [
            // every ECN codepoint, single and batch, segment sizes, a self-send
            "4;reg 0 2;reg 1 2;send 1 0 s 0 0 aa;send 1 0 s 1 0 bb;send 1 0 s 2 0 cc;send 1 0 s 3 0 dd;send 1 0 s 255 0 ee;send 1 0 b 3 1200 p2400.1;send 1 0 b 1 0 ff;send 1 0 b 2 65535 0102;send 0 0 s 0 0 0a",
            // queued for the old connection, delivered there after it was displaced
            "2;reg 0 2;reg 1 2;stall 0;send 1 0 s 0 0 01;send 1 0 s 0 0 02;send 1 0 s 0 0 03;reg 0 2;send 1 0 s 0 0 04;unstall 0;send 1 0 s 0 0 05",
            // an inactive duplicate still sends, under its own id
            "2;reg 0 2;reg 0 2;reg 1 2;send 0 1 s 0 0 aa;send 1 1 s 0 0 bb;close 1;send 0 1 s 0 0 cc",
            // two senders, one receiver, full queue
            "1;reg 0 2;reg 1 2;reg 2 2;stall 0;send 1 0 s 0 0 a1;send 2 0 s 0 0 b1;send 1 0 s 0 0 a2;unstall 0;send 2 0 s 0 0 b2",
            // sizes at the limits of the decoder (65503 / 65501) and of the forwarder (65502 / 65500)
            "2;reg 0 2;reg 1 2;send 1 0 s 0 0 p65502.1;send 1 0 s 0 0 p65503.1;send 1 0 b 0 9 p65500.1;send 1 0 b 0 9 p65501.1;send 1 0 b 0 0 p65501.2;send 1 0 s 0 0 -;send 1 0 s 0 0 aa",
            // completeness at the limits: single 65500..65503, batch 65499..65501 (with and without a segment size)
            "2;reg 0 2;reg 1 2;send 1 0 s 0 0 p65500.2;send 1 0 s 1 0 p65501.2;send 1 0 s 2 0 p65502.2;send 1 0 s 3 0 p65503.2;send 1 0 b 0 7 p65499.2;send 1 0 b 1 7 p65500.2;send 1 0 b 2 7 p65501.3;send 1 0 b 0 0 p65499.3;send 1 0 b 0 0 p65500.3",
            "4;reg 0 2;reg 1 2;stall 0;send 1 0 s 0 0 p65500.2;send 1 0 s 1 0 p65501.2;send 1 0 s 2 0 p65502.2;send 1 0 b 1 7 p65500.2;send 1 0 s 0 0 aa;unstall 0",
            // one byte too long for the decoder: the SENDER's connection ends
            "2;reg 0 2;reg 1 2;send 1 0 s 0 0 p65504.1;send 1 0 s 0 0 aa",
            "2;reg 0 2;reg 1 2;send 1 0 b 0 5 p65502.1;send 1 0 s 0 0 aa",
            // stalled sender: frames are handled on resume, for the then-active connection
            "2;reg 0 2;reg 1 2;stall 1;send 1 0 s 0 0 01;reg 0 2;send 1 0 s 0 0 02;unstall 1",
        ] {
            out.push(s.to_string());
        }
        let alpha = alphabet();
        let depth = if tier == Tier::Thorough { 4 } else { 2 };
        let mut stack: Vec<Vec<usize>> = vec![vec![]];
        while let Some(seq) = stack.pop() {
            if !seq.is_empty() {
                let mut ops = vec![Op::Reg { id: 0, v1: false }, Op::Reg { id: 1, v1: false }];
                ops.extend(seq.iter().map(|i| alpha[*i].clone()));
                out.push(Script { cap: 1, write_timeout_ms: None, ops }.render());
            }
            if seq.len() < depth {
                for i in 0..alpha.len() {
                    let mut s = seq.clone();
                    s.push(i);
                    stack.push(s);
                }
            }
        }
        // wire mode: real client encoder -> relay -> real client decoder
        let kf = keys_field();
        for s in [
            "2;reg 0 2;reg 1 1;wsend 0 1 0 0 aa;wsend 0 1 1 0 bb;wsend 0 1 2 1200 p2400.1;wsend 0 1 3 65535 0102;wsend 1 0 3 1 cc;wsend 0 0 1 0 dd",
            "2;reg 0 2;reg 1 2;wsend 1 0 0 0 p65502.1;wsend 1 0 0 0 p65503.1;wsend 1 0 0 9 p65500.1;wsend 1 0 0 9 p65501.1;wsend 1 0 0 0 -;wsend 1 0 1 0 aa",
            "2;reg 0 1;reg 1 2;wsend 1 0 0 0 p65500.2;wsend 1 0 1 0 p65501.2;wsend 1 0 2 0 p65502.2;wsend 1 0 3 0 p65503.2;wsend 1 0 0 7 p65499.2;wsend 1 0 1 7 p65500.2;wsend 1 0 2 7 p65501.3",
            "2;reg 0 2;reg 1 2;wsend 1 0 0 0 p65504.1;wsend 0 1 0 0 aa",
            "2;reg 0 2;reg 1 2;wraw 1 0401;ping 0 0102030405060708;wsend 0 1 0 0 aa",
            "2;reg 0 1;reg 1 2;reg 0 2;stall 2;wsend 1 0 2 3 010203040506;reg 0 1;wsend 1 0 1 0 0a;unstall 2;close 3;wsend 1 0 3 0 0b;close 1",
            "1;reg 0 2;reg 1 2;wmut 1 0 1 0 aabbcc trunc 20 0;reg 1 2;wmut 2 0 1 7 aabbcc flip 0 1;wmut 2 0 1 7 aabbcc flip 0 3;wmut 2 0 2 0 aabbcc app 3 9",
        ] {
            out.push(format!("W {} {kf};{}", s.split_once(';').unwrap().0, s.split_once(';').unwrap().1));
        }
        let nwire = if tier == Tier::Thorough { n / 4 } else { 120 };
        for _ in 0..nwire {
            out.push(wire_case(rng, &kf));
        }
        let max_ops = if tier == Tier::Thorough { 40 } else { 30 };
        let target = out.len() + n;
        while out.len() < target {
            let big = out.len() % 16 == 0;
            out.push(random_script(rng, max_ops, big).render());
        }
    }

    fn execute(&mut self, payload: &str) -> Exec {
        if let Some(rest) = payload.strip_prefix("W ") {
            // wire mode: `W <cap> <keys>;ops`
            let Some((hd, ops)) = rest.split_once(';') else {
                return Exec::new("bad-input").tag("bad-input");
            };
            let Some((cap, keys)) = hd.trim().split_once(' ') else {
                return Exec::new("bad-input").tag("bad-input");
            };
            if keys.trim() != keys_field() {
                return Exec::new("bad-input").tag("bad-keys");
            }
            let Some(script) = Script::parse_with(&format!("{cap};{ops}"), &parse_wire_op) else {
                return Exec::new("bad-input").tag("bad-input");
            };
            let tr = match run_checked(&script) {
                Ok(tr) => tr,
                Err(e) => return Exec::new(e).tag("nondeterministic"),
            };
            let mut ex = Exec::new(wire_render(&tr));
            check_client_decode(&tr, &mut ex);
            oracle(&script, &tr, &mut ex);
            ex.tags.push("wire-mode".into());
            return ex;
        }
        let Some(script) = Script::parse(payload) else {
            return Exec::new("bad-input").tag("bad-input");
        };
        let tr = match run_checked(&script) {
            Ok(tr) => tr,
            Err(e) => return Exec::new(e).tag("nondeterministic"),
        };
        let mut ex = Exec::new(tr.render());
        oracle(&script, &tr, &mut ex);
        ex
    }
}

/// The relay reads record `ri`'s frame now: decide, independently of the model, whether it has
/// to queue it — the REAL decoder accepts the frame, the REAL forwarder check accepts the frame
/// the relay would build, the destination's active connection exists and has queue room.
fn accept(
    recs: &mut [Rec],
    ri: usize,
    prev: &Snapshot,
    stalled: &[bool],
    queued: &mut [usize],
    used: &mut BTreeMap<usize, usize>,
    cap: usize,
) {
    let dst = recs[ri].dst;
    let target = prev.entries.get(&dst).map(|e| e.0);
    recs[ri].target = target;
    let Some(t) = target else { return };
    let Some((k, ecn, seg, contents)) = real_decode_datagram(&recs[ri].frame) else { return };
    if k != *key(dst).as_bytes() || !real_forwardable(recs[ri].src, ecn, seg, &contents) {
        return;
    }
    // a stalled connection's queue keeps what was accepted earlier; an unstalled one only holds
    // what arrived within this step (its actor has not run yet)
    let occupied = if stalled[t] { &mut queued[t] } else { used.entry(t).or_insert(0) };
    if *occupied < cap {
        *occupied += 1;
        recs[ri].must = true;
    }
}

struct Rec {
    /// the sending connection (order is kept per sending connection: two connections of one
    /// endpoint id are read by two independent actors)
    sender: usize,
    src: usize,
    dst: usize,
    ecn: u8,
    seg: u16,
    contents: Vec<u8>,
    /// connection that was active for `dst` when the relay read the frame
    target: Option<usize>,
    consumed: bool,
    skipped: bool,
    /// the bytes of the client → relay frame
    frame: Vec<u8>,
    /// the relay accepted it for `target` (decoder ok, forwardable, queue room): it must arrive
    must: bool,
}

fn oracle(script: &Script, tr: &Trace, ex: &mut Exec) {
    let mut recs: Vec<Rec> = Vec::new();
    let mut nconn = 0usize;
    let mut ended: Vec<bool> = Vec::new();
    let mut stalled: Vec<bool> = Vec::new();
    let mut cancelled: Vec<bool> = Vec::new();
    // per stalled connection: record indices not yet read by the relay; None = stream ended
    let mut backlog: Vec<Vec<Option<usize>>> = Vec::new();
    // completeness bookkeeping: packets waiting in a stalled connection's queue; connections
    // that may legitimately not deliver what is queued for them (ended, cancelled, shut down)
    let mut queued: Vec<usize> = Vec::new();
    let mut excused: Vec<bool> = Vec::new();
    let cap = if script.cap == 0 { iroh_relay::protos::relay::PER_CLIENT_SEND_QUEUE_DEPTH } else { script.cap };
    let mut prev = Snapshot::default();
    let mut delivered = 0usize;
    let mut displaced_delivery = false;
    for (i, st) in tr.steps.iter().enumerate() {
        if st.timeout {
            ex.violation("timeout", format!("step {i} did not reach quiescence"));
            return;
        }
        // packets accepted in this step for connections that are not stalled
        let mut used: BTreeMap<usize, usize> = BTreeMap::new();
        if matches!(st.op, Op::Shutdown | Op::ShutReg { .. }) {
            for e in excused.iter_mut() {
                *e = true;
            }
            // `Clients::shutdown` cancels every actor: a stalled one exits when it resumes,
            // without reading what its client sent meanwhile
            for c in cancelled.iter_mut() {
                *c = true;
            }
        }
        match &st.op {
            Op::Reg { .. } | Op::ShutReg { .. } => {
                nconn += 1;
                ended.push(false);
                stalled.push(false);
                cancelled.push(false);
                backlog.push(Vec::new());
                queued.push(0);
                excused.push(false);
            }
            Op::Stall { c } if *c < nconn && !ended[*c] => stalled[*c] = true,
            Op::Close { c } | Op::Bad { c } if *c < nconn && stalled[*c] => backlog[*c].push(None),
            Op::Close { c } | Op::Bad { c } if *c < nconn => excused[*c] = true,
            Op::Disc { id, sel } => {
                if let Some((a, ina)) = prev.entries.get(id) {
                    for c in ina.iter().chain([a]) {
                        let hit = match sel {
                            DiscSel::All => true,
                            DiscSel::Conn(x) => x == c,
                            DiscSel::Unknown => false,
                        };
                        if hit {
                            excused[*c] = true;
                        }
                        if hit && stalled[*c] {
                            cancelled[*c] = true;
                        }
                    }
                }
            }
            Op::Send { c, .. } | Op::Raw { c, .. } if *c < nconn && !ended[*c] => {
                let (w, frame) = match &st.op {
                    Op::Send { dst, batch, ecn, seg, tok, .. } => {
                        let contents = tok_bytes(tok).unwrap();
                        let frame = encode_datagram(key(*dst).as_bytes(), *batch, *ecn, *seg, &contents);
                        if 32 + 1 + if *batch { 2 } else { 0 } + contents.len() <= 65536 {
                            // what a receiver is entitled to see: ECN reduced to its two bits, segment
                            // size only for batch frames (0 = a single datagram)
                            (Wire::Datagram(*dst, ecn & 3, if *batch { *seg } else { 0 }, contents), frame)
                        } else {
                            (Wire::Reject, frame)
                        }
                    }
                    Op::Raw { bytes, .. } => (parse_c2r(bytes), bytes.clone()),
                    _ => unreachable!(),
                };
                match w {
                    Wire::Harmless => {}
                    Wire::Reject => {
                        if stalled[*c] {
                            backlog[*c].push(None);
                        }
                    }
                    Wire::Datagram(dst, ecn, seg, contents) => {
                        recs.push(Rec {
                            sender: *c,
                            src: tr.owner[*c],
                            dst,
                            ecn,
                            seg,
                            contents,
                            target: None,
                            consumed: false,
                            skipped: false,
                            frame,
                            must: false,
                        });
                        let ri = recs.len() - 1;
                        if stalled[*c] {
                            backlog[*c].push(Some(ri));
                        } else {
                            accept(&mut recs, ri, &prev, &stalled, &mut queued, &mut used, cap);
                        }
                    }
                }
            }
            Op::Unstall { c } if *c < nconn && stalled[*c] => {
                // the resumed actor first reads what its client sent meanwhile — its own packet
                // queue still holds what was queued while it was stalled — and only then delivers
                let items = std::mem::take(&mut backlog[*c]);
                if !cancelled[*c] {
                    for it in items {
                        let Some(ri) = it else {
                            // the stream ended / an undecodable frame: the actor exits before it
                            // writes anything that is queued for it
                            excused[*c] = true;
                            break;
                        };
                        accept(&mut recs, ri, &prev, &stalled, &mut queued, &mut used, cap);
                    }
                } else {
                    excused[*c] = true;
                }
                stalled[*c] = false;
                queued[*c] = 0;
            }
            _ => {}
        }
        // every datagram frame received in this step
        for (r, fs) in &st.frames {
            for f in fs {
                let Frame::Datagrams { src, ecn, seg, contents } = f else { continue };
                delivered += 1;
                let src_id = (0..NUM_IDS).find(|k| key(*k).as_bytes() == src);
                let same = |x: &Rec| Some(x.src) == src_id && x.ecn == *ecn && x.seg == *seg && x.contents == *contents;
                let what = format!("step {i}: conn {r} got {}", tr.frame_str(f));
                // first unconsumed matching record that was accepted for this connection
                let hit = recs.iter().position(|x| !x.consumed && !x.skipped && x.target == Some(*r) && same(x));
                match hit {
                    Some(h) => {
                        if recs[h].dst != tr.owner[*r] {
                            ex.violation("wrong-endpoint", what.clone());
                        }
                        if prev.entries.get(&recs[h].dst).map(|e| e.0) != Some(*r)
                            && st.snap.entries.get(&recs[h].dst).map(|e| e.0) != Some(*r)
                        {
                            displaced_delivery = true;
                        }
                        let sender_of = recs[h].sender;
                        // anything older from the same sending connection for this connection can no longer arrive
                        for x in recs[..h].iter_mut() {
                            if !x.consumed && x.target == Some(*r) && x.sender == sender_of {
                                x.skipped = true;
                            }
                        }
                        recs[h].consumed = true;
                    }
                    None => {
                        if recs.iter().any(|x| !x.consumed && x.skipped && x.target == Some(*r) && same(x)) {
                            ex.violation("reordered", what);
                        } else if recs.iter().any(|x| !x.consumed && x.target != Some(*r) && same(x)) {
                            ex.violation("wrong-connection", what);
                        } else {
                            ex.violation("unsolicited", what);
                        }
                    }
                }
            }
        }
        for &c in &st.ended {
            ended[c] = true;
            stalled[c] = false;
            excused[c] = true;
        }
        prev = st.snap.clone();
    }
    // completeness: everything the relay accepted for a connection that stayed alive and is not
    // stalled at the end has been delivered on it
    let mut must_total = 0usize;
    for x in &recs {
        if !x.must {
            continue;
        }
        must_total += 1;
        let Some(t) = x.target else { continue };
        if !x.consumed && !excused[t] && !stalled[t] {
            ex.violation(
                "forwardable-dropped",
                format!(
                    "datagram from connection {} (endpoint {}) to endpoint {} with {} bytes (segment size {}) was accepted for connection {t} but never delivered",
                    x.sender, x.src, x.dst, x.contents.len(), x.seg
                ),
            );
        }
    }
    if must_total > 0 {
        ex.tags.push("completeness-checked".into());
    }
    ex.nontrivial = delivered > 0;
    ex.tags.push(match delivered {
        0 => "delivered:0",
        1..=3 => "delivered:1-3",
        4..=10 => "delivered:4-10",
        _ => "delivered:>10",
    }
    .into());
    if displaced_delivery {
        ex.tags.push("delivered-on-displaced-connection".into());
    }
    if recs.iter().any(|x| x.target.is_some() && !x.consumed) {
        ex.tags.push("some-dropped".into());
    }
    if recs.iter().any(|x| x.contents.len() > 60000) {
        ex.tags.push("near-limit-sizes".into());
    }
    let _ = BTreeMap::<u8, u8>::new();
}

fn main() {
    run(C04);
}
