//! C04 — relay forwards datagrams only to the addressed endpoint, with the true sender.
//!
//! payload: a registry script (grammar in `../relayreg.rs`), e.g.
//!   `2;reg 0 2;reg 1 2;send 1 0 b 3 1200 p2400.7;reg 0 1;send 1 0 s 0 0 aabb`
//! output : per operation (joined by `|`): result, frames every connection received,
//!   connections whose actor ended, registry snapshot, `sent_to`.
//!
//! The script drives the REAL `Clients` registry (public API, in-memory streams) on a
//! current-thread runtime, each operation run to quiescence (one script = one schedule;
//! every case is executed twice and must reproduce).  Datagram frames are encoded by hand
//! from the wire format (type, 32-byte destination, ECN byte, optional segment size,
//! contents) and the frames the relay writes are decoded by hand.
//!
//! Oracle (independent of the Lean model), the property statement evaluated on every datagram
//! frame any connection received:
//!  * `unsolicited`     — it matches no datagram a client sent to the receiver's endpoint id with
//!                        that sender id, ECN, segment size and contents (or it was delivered
//!                        before: at most once);
//!  * `wrong-connection`— it was delivered on a connection other than the one that was active
//!                        for the destination when the relay read the frame;
//!  * `reordered`       — datagrams of one sending connection to one connection overtook each other;
//!  * `wrong-endpoint`  — the receiving connection belongs to another endpoint id.
#[path = "../relayreg.rs"]
mod relayreg;
use relayreg::*;
use std::collections::BTreeMap;
use vcommon::*;

struct C04;

const LIMIT_SINGLE: usize = 65536 - 32 - 1; // largest contents the decoder accepts (single)
const LIMIT_BATCH: usize = 65536 - 32 - 3;

#[derive(Default)]
struct Gen {
    owner: Vec<usize>,
    dead: Vec<bool>,
    stalled: Vec<bool>,
}

impl Gen {
    fn alive(&self) -> Vec<usize> {
        (0..self.owner.len()).filter(|c| !self.dead[*c]).collect()
    }
    fn reg(&mut self, id: usize) {
        self.owner.push(id);
        self.dead.push(false);
        self.stalled.push(false);
    }
}

fn contents_tok(rng: &mut Rng, batch: bool, big: bool) -> String {
    let limit = if batch { LIMIT_BATCH } else { LIMIT_SINGLE };
    match rng.below(if big { 12 } else { 9 }) {
        0..=5 => hex(&{
            let n = rng.range(1, 6) as usize;
            rng.bytes(n)
        }),
        6 => format!("p{}.{}", rng.range(33, 1500), rng.below(100)),
        7 => format!("p{}.{}", rng.range(1200, 9000), rng.below(100)),
        8 => "-".to_string(),
        // around the size limits of decoder and forwarder
        9 => format!("p{}.{}", limit - rng.range(0, 3) as usize, rng.below(10)),
        10 => format!("p{}.{}", limit + 1, rng.below(10)),
        _ => format!("p{}.{}", rng.range(20000, 65000), rng.below(10)),
    }
}

fn send_op(rng: &mut Rng, c: usize, dst: usize, big: bool) -> Op {
    let batch = rng.chance(1, 3);
    let ecn = match rng.below(4) {
        0 => rng.byte(),
        _ => rng.below(4) as u8,
    };
    let seg = if batch {
        let r = rng.below(65536) as u16;
        *rng.pick(&[0u16, 1, 2, 1200, 1452, 65535, r])
    } else {
        0
    };
    Op::Send { c, dst, batch, ecn, seg, tok: contents_tok(rng, batch, big) }
}

fn random_script(rng: &mut Rng, max_ops: usize, big: bool) -> Script {
    let cap = *rng.pick(&[1usize, 2, 2, 3, 4, 0]);
    let mut g = Gen::default();
    let mut ops = Vec::new();
    let nids = rng.range(2, 3) as usize;
    for id in 0..nids {
        g.reg(id);
        ops.push(Op::Reg { id, v1: rng.chance(1, 5) });
    }
    let nops = rng.range(5, max_ops as u64) as usize;
    while ops.len() < nops {
        let pick_conn = |rng: &mut Rng, g: &Gen| -> usize {
            let alive = g.alive();
            if alive.is_empty() || rng.chance(1, 15) {
                rng.usize_below(g.owner.len() + 1)
            } else {
                *rng.pick(&alive)
            }
        };
        match rng.below(100) {
            0..=54 => {
                let c = pick_conn(rng, &g);
                let dst = if rng.chance(9, 10) { rng.usize_below(nids) } else { rng.range(0, 5) as usize };
                ops.push(send_op(rng, c, dst, big));
                // bursts keep the order interesting
                if rng.chance(1, 3) {
                    ops.push(send_op(rng, c, dst, false));
                }
            }
            55..=66 => {
                let id = rng.usize_below(nids);
                g.reg(id);
                ops.push(Op::Reg { id, v1: rng.chance(1, 5) });
            }
            67..=74 => {
                let c = pick_conn(rng, &g);
                if c < g.dead.len() && !g.stalled[c] {
                    g.dead[c] = true;
                }
                ops.push(if rng.chance(1, 6) { Op::Bad { c } } else { Op::Close { c } });
            }
            75..=79 => {
                let id = rng.usize_below(nids);
                let sel = match rng.below(3) {
                    0 => DiscSel::All,
                    _ => DiscSel::Conn(pick_conn(rng, &g)),
                };
                ops.push(Op::Disc { id, sel });
            }
            80..=88 => {
                let c = pick_conn(rng, &g);
                if c < g.stalled.len() {
                    g.stalled[c] = true;
                }
                ops.push(Op::Stall { c });
            }
            89..=97 => {
                let st: Vec<usize> = (0..g.owner.len()).filter(|c| g.stalled[*c]).collect();
                let c = if st.is_empty() { pick_conn(rng, &g) } else { *rng.pick(&st) };
                if c < g.stalled.len() {
                    g.stalled[c] = false;
                }
                ops.push(Op::Unstall { c });
            }
            98 => {
                let c = pick_conn(rng, &g);
                let mut d = [0u8; 8];
                rng.fill(&mut d);
                ops.push(Op::Ping { c, data: d });
            }
            _ => {
                let id = rng.usize_below(nids);
                for d in g.dead.iter_mut() {
                    *d = true;
                }
                g.reg(id);
                ops.push(Op::ShutReg { id, v1: false });
            }
        }
    }
    // let everything drain at the end
    for c in 0..g.owner.len() {
        if g.stalled[c] {
            ops.push(Op::Unstall { c });
        }
    }
    Script { cap, ops }
}

/// Alphabet of the exhaustive enumeration (prelude: `reg 0 2;reg 1 2`).
fn alphabet() -> Vec<Op> {
    let send = |c: usize, dst: usize, t: &str| Op::Send { c, dst, batch: false, ecn: 1, seg: 0, tok: t.into() };
    vec![
        send(1, 0, "a1"),
        send(1, 0, "a2"),
        send(0, 1, "b1"),
        send(0, 0, "c1"),
        Op::Send { c: 2, dst: 0, batch: true, ecn: 2, seg: 1, tok: "d1d2".into() },
        Op::Reg { id: 0, v1: false },
        Op::Close { c: 0 },
        Op::Close { c: 2 },
        Op::Stall { c: 0 },
        Op::Unstall { c: 0 },
        Op::Stall { c: 1 },
        Op::Unstall { c: 1 },
    ]
}

impl Prop for C04 {
    fn id(&self) -> &'static str {
        "C04"
    }

    fn generate(&mut self, rng: &mut Rng, tier: Tier, n: usize, out: &mut Vec<String>) {
        for s in [
            // every ECN codepoint, single and batch, segment sizes, a self-send
            "4;reg 0 2;reg 1 2;send 1 0 s 0 0 aa;send 1 0 s 1 0 bb;send 1 0 s 2 0 cc;send 1 0 s 3 0 dd;send 1 0 s 255 0 ee;send 1 0 b 3 1200 p2400.1;send 1 0 b 1 0 ff;send 1 0 b 2 65535 0102;send 0 0 s 0 0 0a",
            // queued for the old connection, delivered there after it was displaced
            "2;reg 0 2;reg 1 2;stall 0;send 1 0 s 0 0 01;send 1 0 s 0 0 02;send 1 0 s 0 0 03;reg 0 2;send 1 0 s 0 0 04;unstall 0;send 1 0 s 0 0 05",
            // an inactive duplicate still sends, under its own id
            "2;reg 0 2;reg 0 2;reg 1 2;send 0 1 s 0 0 aa;send 1 1 s 0 0 bb;close 1;send 0 1 s 0 0 cc",
            // two senders, one receiver, full queue
            "1;reg 0 2;reg 1 2;reg 2 2;stall 0;send 1 0 s 0 0 a1;send 2 0 s 0 0 b1;send 1 0 s 0 0 a2;unstall 0;send 2 0 s 0 0 b2",
            // sizes at the limits of the decoder (65503 / 65501) and of the forwarder (65502 / 65500)
            "2;reg 0 2;reg 1 2;send 1 0 s 0 0 p65502.1;send 1 0 s 0 0 p65503.1;send 1 0 b 0 9 p65500.1;send 1 0 b 0 9 p65501.1;send 1 0 b 0 0 p65501.2;send 1 0 s 0 0 -;send 1 0 s 0 0 aa",
            // one byte too long for the decoder: the SENDER's connection ends
            "2;reg 0 2;reg 1 2;send 1 0 s 0 0 p65504.1;send 1 0 s 0 0 aa",
            "2;reg 0 2;reg 1 2;send 1 0 b 0 5 p65502.1;send 1 0 s 0 0 aa",
            // stalled sender: frames are handled on resume, for the then-active connection
            "2;reg 0 2;reg 1 2;stall 1;send 1 0 s 0 0 01;reg 0 2;send 1 0 s 0 0 02;unstall 1",
        ] {
            out.push(s.to_string());
        }
        let alpha = alphabet();
        let depth = if tier == Tier::Thorough { 4 } else { 2 };
        let mut stack: Vec<Vec<usize>> = vec![vec![]];
        while let Some(seq) = stack.pop() {
            if !seq.is_empty() {
                let mut ops = vec![Op::Reg { id: 0, v1: false }, Op::Reg { id: 1, v1: false }];
                ops.extend(seq.iter().map(|i| alpha[*i].clone()));
                out.push(Script { cap: 1, ops }.render());
            }
            if seq.len() < depth {
                for i in 0..alpha.len() {
                    let mut s = seq.clone();
                    s.push(i);
                    stack.push(s);
                }
            }
        }
        let max_ops = if tier == Tier::Thorough { 40 } else { 30 };
        let target = out.len() + n;
        while out.len() < target {
            let big = out.len() % 16 == 0;
            out.push(random_script(rng, max_ops, big).render());
        }
    }

    fn execute(&mut self, payload: &str) -> Exec {
        let Some(script) = Script::parse(payload) else {
            return Exec::new("bad-input").tag("bad-input");
        };
        let tr = match run_checked(&script) {
            Ok(tr) => tr,
            Err(e) => return Exec::new(e).tag("nondeterministic"),
        };
        let mut ex = Exec::new(tr.render());
        oracle(&script, &tr, &mut ex);
        ex
    }
}

struct Rec {
    /// the sending connection (order is kept per sending connection: two connections of one
    /// endpoint id are read by two independent actors)
    sender: usize,
    src: usize,
    dst: usize,
    ecn: u8,
    seg: u16,
    contents: Vec<u8>,
    /// connection that was active for `dst` when the relay read the frame
    target: Option<usize>,
    consumed: bool,
    skipped: bool,
}

fn oracle(_script: &Script, tr: &Trace, ex: &mut Exec) {
    let mut recs: Vec<Rec> = Vec::new();
    let mut nconn = 0usize;
    let mut ended: Vec<bool> = Vec::new();
    let mut stalled: Vec<bool> = Vec::new();
    let mut cancelled: Vec<bool> = Vec::new();
    // per stalled connection: record indices not yet read by the relay; None = stream ended
    let mut backlog: Vec<Vec<Option<usize>>> = Vec::new();
    let mut prev = Snapshot::default();
    let mut delivered = 0usize;
    let mut displaced_delivery = false;
    for (i, st) in tr.steps.iter().enumerate() {
        if st.timeout {
            ex.violation("timeout", format!("step {i} did not reach quiescence"));
            return;
        }
        match &st.op {
            Op::Reg { .. } | Op::ShutReg { .. } => {
                nconn += 1;
                ended.push(false);
                stalled.push(false);
                cancelled.push(false);
                backlog.push(Vec::new());
            }
            Op::Stall { c } if *c < nconn && !ended[*c] => stalled[*c] = true,
            Op::Close { c } | Op::Bad { c } if *c < nconn && stalled[*c] => backlog[*c].push(None),
            Op::Disc { id, sel } => {
                if let Some((a, ina)) = prev.entries.get(id) {
                    for c in ina.iter().chain([a]) {
                        let hit = match sel {
                            DiscSel::All => true,
                            DiscSel::Conn(x) => x == c,
                            DiscSel::Unknown => false,
                        };
                        if hit && stalled[*c] {
                            cancelled[*c] = true;
                        }
                    }
                }
            }
            Op::Send { c, dst, batch, ecn, seg, tok } if *c < nconn && !ended[*c] => {
                let contents = tok_bytes(tok).unwrap();
                let decodable = 32 + 1 + if *batch { 2 } else { 0 } + contents.len() <= 65536;
                if !decodable {
                    if stalled[*c] {
                        backlog[*c].push(None);
                    }
                } else {
                    // what a receiver is entitled to see: ECN reduced to its two bits, segment
                    // size only for batch frames (0 = a single datagram)
                    let rec = Rec {
                        sender: *c,
                        src: tr.owner[*c],
                        dst: *dst,
                        ecn: ecn & 3,
                        seg: if *batch { *seg } else { 0 },
                        contents,
                        target: None,
                        consumed: false,
                        skipped: false,
                    };
                    recs.push(rec);
                    let ri = recs.len() - 1;
                    if stalled[*c] {
                        backlog[*c].push(Some(ri));
                    } else {
                        recs[ri].target = prev.entries.get(dst).map(|e| e.0);
                    }
                }
            }
            Op::Unstall { c } if *c < nconn && stalled[*c] => {
                stalled[*c] = false;
                let items = std::mem::take(&mut backlog[*c]);
                if !cancelled[*c] {
                    for it in items {
                        let Some(ri) = it else { break };
                        let dst = recs[ri].dst;
                        recs[ri].target = prev.entries.get(&dst).map(|e| e.0);
                    }
                }
            }
            _ => {}
        }
        // every datagram frame received in this step
        for (r, fs) in &st.frames {
            for f in fs {
                let Frame::Datagrams { src, ecn, seg, contents } = f else { continue };
                delivered += 1;
                let src_id = (0..NUM_IDS).find(|k| key(*k).as_bytes() == src);
                let same = |x: &Rec| Some(x.src) == src_id && x.ecn == *ecn && x.seg == *seg && x.contents == *contents;
                let what = format!("step {i}: conn {r} got {}", tr.frame_str(f));
                // first unconsumed matching record that was accepted for this connection
                let hit = recs.iter().position(|x| !x.consumed && !x.skipped && x.target == Some(*r) && same(x));
                match hit {
                    Some(h) => {
                        if recs[h].dst != tr.owner[*r] {
                            ex.violation("wrong-endpoint", what.clone());
                        }
                        if prev.entries.get(&recs[h].dst).map(|e| e.0) != Some(*r)
                            && st.snap.entries.get(&recs[h].dst).map(|e| e.0) != Some(*r)
                        {
                            displaced_delivery = true;
                        }
                        let sender_of = recs[h].sender;
                        // anything older from the same sending connection for this connection can no longer arrive
                        for x in recs[..h].iter_mut() {
                            if !x.consumed && x.target == Some(*r) && x.sender == sender_of {
                                x.skipped = true;
                            }
                        }
                        recs[h].consumed = true;
                    }
                    None => {
                        if recs.iter().any(|x| !x.consumed && x.skipped && x.target == Some(*r) && same(x)) {
                            ex.violation("reordered", what);
                        } else if recs.iter().any(|x| !x.consumed && x.target != Some(*r) && same(x)) {
                            ex.violation("wrong-connection", what);
                        } else {
                            ex.violation("unsolicited", what);
                        }
                    }
                }
            }
        }
        for &c in &st.ended {
            ended[c] = true;
            stalled[c] = false;
        }
        prev = st.snap.clone();
    }
    ex.nontrivial = delivered > 0;
    ex.tags.push(match delivered {
        0 => "delivered:0",
        1..=3 => "delivered:1-3",
        4..=10 => "delivered:4-10",
        _ => "delivered:>10",
    }
    .into());
    if displaced_delivery {
        ex.tags.push("delivered-on-displaced-connection".into());
    }
    if recs.iter().any(|x| x.target.is_some() && !x.consumed) {
        ex.tags.push("some-dropped".into());
    }
    if recs.iter().any(|x| x.contents.len() > 60000) {
        ex.tags.push("near-limit-sizes".into());
    }
    let _ = BTreeMap::<u8, u8>::new();
}

fn main() {
    run(C04);
}
