//! C10 — relay frames encode/decode exactly; decoding is total.
//!
//! payloads
//!   `dr <1|2> <kbits> <frame hex>`   decode a relay→client frame under protocol version 1|2
//!   `dc <kbits> <frame hex>`         decode a client→relay frame
//!   `er <msg>`                       encode a relay→client message, run the server's send check,
//!                                    decode the encoding under both versions
//!   `ec <msg>`                       the same for a client→relay message
//!   `h <cap> <frame> <frame> …`      a history: the frames are decoded one after the other through ONE
//!                                    `KeyCache::new(cap)`; `<frame>` = `r1:<kbits>:<hex>` | `r2:<kbits>:<hex>` |
//!                                    `c:<kbits>:<hex>`; output `<decode> ; <decode> ; … | cache=<keys, MRU first>|off`
//! `<kbits>`: four characters 0/1 — whether the 32 bytes at offset 1, 2, 4, 8 of the frame are a
//! valid Ed25519 public key (curve arithmetic is not modelled; the model is told the answer).
//! `<msg>`: `dg <key> <ecn> <seg> <contents>` | `gone <key>` | `status h|s|r|u<n>` |
//!          `restart <ns> <ns>` | `ping <8 bytes>` | `pong <8 bytes>` | `health <utf8 bytes>`
//! outputs
//!   decode: `ok <msg>` | `err <class>`   (long byte strings as `#<len>:<fnv64>`)
//!   encode: `len=<encoded_len> bytes=<frame> send=<ok|too-large:<n>|empty> | <decode>[ | <decode>]`
use std::{
    io::Read,
    num::NonZeroU16,
    pin::Pin,
    task::{Context, Poll},
    time::Duration,
};

use bytes::Bytes;
use futures_util::SinkExt;
use iroh_base::{PublicKey, SecretKey};
use iroh_relay::{
    KeyCache,
    http::ProtocolVersion,
    protos::{
        common::{FrameType, FrameTypeError},
        relay::{
            ClientToRelayMsg, Datagrams, Error, MAX_PACKET_SIZE, RelayToClientMsg, Status,
            verif_hooks as hooks,
        },
    },
    server::streams::RelayedStream,
};
use noq_proto::EcnCodepoint;
use vcommon::*;

// ---------------------------------------------------------------------------------------------
// canonical text

fn fnv64(bs: &[u8]) -> u64 {
    let mut h: u64 = 0xcbf29ce484222325;
    for b in bs {
        h ^= *b as u64;
        h = h.wrapping_mul(0x100000001b3);
    }
    h
}

fn compact(bs: &[u8]) -> String {
    if bs.len() <= 48 {
        hex(bs)
    } else {
        format!("#{}:{}", bs.len(), fnv64(bs))
    }
}

fn ecn_code(e: Option<EcnCodepoint>) -> u8 {
    e.map_or(0, |e| e as u8)
}

fn show_datagrams(key: &PublicKey, d: &Datagrams) -> String {
    format!(
        "dg {} {} {} {}",
        hex(key.as_bytes()),
        ecn_code(d.ecn),
        d.segment_size.map_or(0, u16::from),
        compact(&d.contents)
    )
}

fn dur_ns(d: &Duration) -> u128 {
    d.as_nanos()
}

fn show_r2c(m: &RelayToClientMsg) -> String {
    match m {
        RelayToClientMsg::Datagrams { remote_endpoint_id, datagrams } => show_datagrams(remote_endpoint_id, datagrams),
        RelayToClientMsg::EndpointGone(k) => format!("gone {}", hex(k.as_bytes())),
        RelayToClientMsg::Status(s) => format!(
            "status {}",
            match s {
                Status::Healthy => "h".to_string(),
                Status::SameEndpointIdConnected => "s".to_string(),
                Status::RateLimited => "r".to_string(),
                Status::Unknown(n) => format!("u{n}"),
                _ => "other".to_string(),
            }
        ),
        RelayToClientMsg::Restarting { reconnect_in, try_for } => format!("restart {} {}", dur_ns(reconnect_in), dur_ns(try_for)),
        RelayToClientMsg::Ping(d) => format!("ping {}", hex(d)),
        RelayToClientMsg::Pong(d) => format!("pong {}", hex(d)),
        RelayToClientMsg::Health { problem } => format!("health {}", compact(problem.as_bytes())),
        _ => "other".to_string(),
    }
}

fn show_c2r(m: &ClientToRelayMsg) -> String {
    match m {
        ClientToRelayMsg::Datagrams { dst_endpoint_id, datagrams } => show_datagrams(dst_endpoint_id, datagrams),
        ClientToRelayMsg::Ping(d) => format!("ping {}", hex(d)),
        ClientToRelayMsg::Pong(d) => format!("pong {}", hex(d)),
        _ => "other".to_string(),
    }
}

fn show_err(e: &Error) -> String {
    match e {
        Error::UnexpectedFrame { .. } => "unexpected-frame".into(),
        Error::FrameTooLarge { frame_len, .. } => format!("too-large:{frame_len}"),
        Error::FrameTypeError { source, .. } => match source {
            FrameTypeError::UnexpectedEnd { .. } => "frame-type-eof".into(),
            FrameTypeError::UnknownFrameType { tag, .. } => format!("unknown-frame-type:{}", u64::from(*tag)),
            _ => "frame-type-other".into(),
        },
        Error::InvalidPublicKey { .. } => "invalid-key".into(),
        Error::InvalidFrame { .. } => "invalid-frame".into(),
        Error::InvalidFrameType { frame_type, .. } => format!("invalid-frame-type:{}", u32::from(*frame_type)),
        Error::InvalidProtocolMessageEncoding { .. } => "invalid-utf8".into(),
        Error::FrameNotAllowedInVersion { .. } => "not-allowed-in-version".into(),
        Error::TooSmall { .. } => "too-small".into(),
        _ => "other".into(),
    }
}

fn show_res<T>(r: &Result<T, Error>, show: impl Fn(&T) -> String) -> String {
    match r {
        Ok(m) => format!("ok {}", show(m)),
        Err(e) => format!("err {}", show_err(e)),
    }
}

// ---------------------------------------------------------------------------------------------
// parsing message payloads

fn parse_key(s: &str) -> PublicKey {
    let b = unhex(s).expect("key hex");
    PublicKey::try_from(b.as_slice()).expect("message payloads carry valid keys")
}

fn parse_datagrams(t: &[&str]) -> (PublicKey, Datagrams) {
    let key = parse_key(t[0]);
    let ecn: u8 = t[1].parse().expect("ecn");
    let seg: u16 = t[2].parse().expect("seg");
    let contents = unhex(t[3]).expect("contents");
    (
        key,
        Datagrams {
            ecn: EcnCodepoint::from_bits(ecn),
            segment_size: NonZeroU16::new(seg),
            contents: Bytes::from(contents),
        },
    )
}

fn arr8(s: &str) -> [u8; 8] {
    unhex(s).expect("hex").try_into().expect("8 bytes")
}

fn dur_of_ns(s: &str) -> Duration {
    let ns: u128 = s.parse().expect("ns");
    Duration::new((ns / 1_000_000_000) as u64, (ns % 1_000_000_000) as u32)
}

fn parse_r2c(t: &[&str]) -> RelayToClientMsg {
    match t[0] {
        "dg" => {
            let (remote_endpoint_id, datagrams) = parse_datagrams(&t[1..]);
            RelayToClientMsg::Datagrams { remote_endpoint_id, datagrams }
        }
        "gone" => RelayToClientMsg::EndpointGone(parse_key(t[1])),
        "status" => RelayToClientMsg::Status(match t[1] {
            "h" => Status::Healthy,
            "s" => Status::SameEndpointIdConnected,
            "r" => Status::RateLimited,
            u => Status::Unknown(u[1..].parse().expect("u<n>")),
        }),
        "restart" => RelayToClientMsg::Restarting { reconnect_in: dur_of_ns(t[1]), try_for: dur_of_ns(t[2]) },
        "ping" => RelayToClientMsg::Ping(arr8(t[1])),
        "pong" => RelayToClientMsg::Pong(arr8(t[1])),
        "health" => RelayToClientMsg::Health { problem: String::from_utf8(unhex(t[1]).expect("hex")).expect("message payloads carry valid utf-8") },
        other => panic!("unknown message kind {other}"),
    }
}

fn parse_c2r(t: &[&str]) -> ClientToRelayMsg {
    match t[0] {
        "dg" => {
            let (dst_endpoint_id, datagrams) = parse_datagrams(&t[1..]);
            ClientToRelayMsg::Datagrams { dst_endpoint_id, datagrams }
        }
        "ping" => ClientToRelayMsg::Ping(arr8(t[1])),
        "pong" => ClientToRelayMsg::Pong(arr8(t[1])),
        other => panic!("unknown message kind {other}"),
    }
}

// ---------------------------------------------------------------------------------------------
// the real senders

/// In-memory sink standing in for the websocket below `RelayedStream`.
#[derive(Default, Clone)]
struct RecSink {
    last: std::sync::Arc<std::sync::Mutex<Option<Bytes>>>,
}

impl n0_future::Sink<Bytes> for RecSink {
    type Error = n0_error::AnyError;
    fn poll_ready(self: Pin<&mut Self>, _: &mut Context<'_>) -> Poll<Result<(), Self::Error>> {
        Poll::Ready(Ok(()))
    }
    fn start_send(self: Pin<&mut Self>, item: Bytes) -> Result<(), Self::Error> {
        *self.last.lock().unwrap() = Some(item);
        Ok(())
    }
    fn poll_flush(self: Pin<&mut Self>, _: &mut Context<'_>) -> Poll<Result<(), Self::Error>> {
        Poll::Ready(Ok(()))
    }
    fn poll_close(self: Pin<&mut Self>, _: &mut Context<'_>) -> Poll<Result<(), Self::Error>> {
        Poll::Ready(Ok(()))
    }
}

trait ClientSink: n0_future::Sink<ClientToRelayMsg, Error = iroh_relay::client::SendError> + Unpin + Send {}
impl<T> ClientSink for T where T: n0_future::Sink<ClientToRelayMsg, Error = iroh_relay::client::SendError> + Unpin + Send {}

struct ClientSide {
    rt: tokio::runtime::Runtime,
    conn: Box<dyn ClientSink>,
}

impl ClientSide {
    fn new() -> Self {
        let listener = std::net::TcpListener::bind("127.0.0.1:0").expect("bind loopback");
        let addr = listener.local_addr().expect("addr");
        let client = std::net::TcpStream::connect(addr).expect("connect loopback");
        let (mut server, _) = listener.accept().expect("accept");
        std::thread::spawn(move || {
            let mut buf = vec![0u8; 1 << 16];
            while let Ok(n) = server.read(&mut buf) {
                if n == 0 {
                    break;
                }
            }
        });
        client.set_nonblocking(true).expect("nonblocking");
        let rt = tokio::runtime::Builder::new_current_thread().enable_all().build().expect("runtime");
        let conn = {
            let _g = rt.enter();
            let io = tokio::net::TcpStream::from_std(client).expect("tokio tcp");
            Box::new(hooks::client_conn(io, ProtocolVersion::V2)) as Box<dyn ClientSink>
        };
        ClientSide { rt, conn }
    }

    /// `Conn::start_send` (+ flush): the client's send check on the real sink.
    fn send(&mut self, msg: ClientToRelayMsg) -> String {
        use iroh_relay::client::SendError;
        let conn = &mut self.conn;
        match self.rt.block_on(async move { conn.send(msg).await }) {
            Ok(()) => "ok".into(),
            Err(SendError::ExceedsMaxPacketSize { size, .. }) => format!("too-large:{size}"),
            Err(SendError::EmptyPacket { .. }) => "empty".into(),
            Err(e) => panic!("harness fault: loopback stream error {e:?}"),
        }
    }
}

/// `RelayedStream::start_send` over an in-memory sink: the server's send check on the real sink.
fn server_send(msg: RelayToClientMsg) -> (String, Option<Bytes>) {
    use iroh_relay::server::streams::SendError;
    use n0_future::Sink;
    let sink = RecSink::default();
    let mut rs = RelayedStream::new(sink.clone(), KeyCache::new(0));
    let res = Pin::new(&mut rs).start_send(msg);
    let s = match res {
        Ok(()) => "ok".into(),
        Err(SendError::ExceedsMaxPacketSize { size, .. }) => format!("too-large:{size}"),
        Err(SendError::EmptyPacket { .. }) => "empty".into(),
        Err(e) => panic!("harness fault: in-memory sink error {e:?}"),
    };
    let last = sink.last.lock().unwrap().take();
    (s, last)
}

// ---------------------------------------------------------------------------------------------
// oracle helpers: the statement's side conditions, computed on the Rust values

fn r2c_allowed(m: &RelayToClientMsg, v: ProtocolVersion) -> bool {
    match m {
        RelayToClientMsg::Health { .. } => v == ProtocolVersion::V1,
        RelayToClientMsg::Status(_) => v == ProtocolVersion::V2,
        _ => true,
    }
}

/// Fields within the wire format's ranges: whole milliseconds below 2^32, a status code that is
/// not the code of a named status.
fn r2c_in_range(m: &RelayToClientMsg) -> bool {
    let ms_ok = |d: &Duration| d.subsec_nanos() % 1_000_000 == 0 && d.as_millis() < (1u128 << 32);
    match m {
        RelayToClientMsg::Restarting { reconnect_in, try_for } => ms_ok(reconnect_in) && ms_ok(try_for),
        RelayToClientMsg::Status(Status::Unknown(n)) => *n >= 3,
        _ => true,
    }
}

fn keybits(frame: &[u8]) -> String {
    [1usize, 2, 4, 8]
        .iter()
        .map(|&o| {
            if frame.len() >= o + 32 && PublicKey::try_from(&frame[o..o + 32]).is_ok() {
                '1'
            } else {
                '0'
            }
        })
        .collect()
}

fn cache(frame: &[u8]) -> KeyCache {
    // both implementations of the key cache must give the same answers
    if frame.len() % 2 == 0 { KeyCache::new(0) } else { KeyCache::new(8) }
}

struct C10 {
    client: Option<ClientSide>,
}

// ---------------------------------------------------------------------------------------------
// generators

fn valid_key(rng: &mut Rng) -> PublicKey {
    let mut sk = [0u8; 32];
    rng.fill(&mut sk);
    SecretKey::from_bytes(&sk).public()
}

fn invalid_key(rng: &mut Rng) -> [u8; 32] {
    loop {
        let mut k = [0u8; 32];
        rng.fill(&mut k);
        if PublicKey::try_from(&k[..]).is_err() {
            return k;
        }
    }
}

fn utf8_text(rng: &mut Rng, len: usize) -> Vec<u8> {
    // exactly `len` bytes of valid UTF-8 with multi-byte characters mixed in
    let mut s = String::new();
    while s.len() < len {
        let room = len - s.len();
        let c = match rng.below(12) {
            0 if room >= 2 => 'é',
            1 if room >= 3 => '€',
            2 if room >= 4 => '🦀',
            3 if room >= 2 => '\u{80}',
            4 if room >= 2 => '\u{7ff}',
            5 if room >= 3 => '\u{800}',
            6 if room >= 3 => '\u{d7ff}',
            7 if room >= 3 => '\u{e000}',
            8 if room >= 3 => '\u{ffff}',
            9 if room >= 4 => '\u{10000}',
            10 if room >= 4 => '\u{10ffff}',
            _ => (b' ' + rng.below(95) as u8) as char,
        };
        s.push(c);
    }
    s.into_bytes()
}

const UTF8_EDGE: &[&[u8]] = &[
    b"", b"\x00", b"\x7f", b"\x80", b"\xbf", b"\xc0\x80", b"\xc1\xbf", b"\xc2\x80", b"\xc2", b"\xc2\x7f", b"\xc2\xc0",
    b"\xdf\xbf", b"\xe0\x80\x80", b"\xe0\x9f\xbf", b"\xe0\xa0\x80", b"\xe0\xa0", b"\xe0", b"\xe1\x80\x80", b"\xe1\x80",
    b"\xec\xbf\xbf", b"\xed\x9f\xbf", b"\xed\xa0\x80", b"\xed\xbf\xbf", b"\xee\x80\x80", b"\xef\xbf\xbf", b"\xef\xbf",
    b"\xf0\x80\x80\x80", b"\xf0\x8f\xbf\xbf", b"\xf0\x90\x80\x80", b"\xf0\x90\x80", b"\xf0\x90", b"\xf0",
    b"\xf1\x80\x80\x80", b"\xf3\xbf\xbf\xbf", b"\xf4\x80\x80\x80", b"\xf4\x8f\xbf\xbf", b"\xf4\x90\x80\x80",
    b"\xf5\x80\x80\x80", b"\xf8\x88\x80\x80\x80", b"\xff", b"\xfe", b"a\xc2", b"a\xe2\x82", b"a\xf0\x9f\xa6",
    b"\xe2\x82\xac", b"\xf0\x9f\xa6\x80", b"ok \xe2\x82\xac ok", b"\xe2\x28\xa1", b"\xf0\x28\x8c\xbc", b"\xf0\x90\x28\xbc",
    b"\xf0\x28\x8c\x28", b"\xc2\x80\x80", b"\xe1\x80\xc0", b"\xf1\x80\x80\xc0", b"\xf1\x80\xc0\x80", b"\xf1\xc0\x80\x80",
];

fn msg_dg(key: &PublicKey, ecn: u64, seg: u64, contents: &[u8]) -> String {
    format!("dg {} {} {} {}", hex(key.as_bytes()), ecn, seg, hex(contents))
}

fn varint(x: u64, width: usize) -> Vec<u8> {
    match width {
        1 => vec![x as u8 & 0x3f],
        2 => ((x as u16 & 0x3fff) | 0x4000).to_be_bytes().to_vec(),
        4 => ((x as u32 & 0x3fff_ffff) | 0x8000_0000).to_be_bytes().to_vec(),
        _ => ((x & 0x3fff_ffff_ffff_ffff) | 0xc000_0000_0000_0000).to_be_bytes().to_vec(),
    }
}

impl C10 {
    fn push_dec(out: &mut Vec<String>, frame: &[u8]) {
        let kb = keybits(frame);
        out.push(format!("dr 1 {kb} {}", hex(frame)));
        out.push(format!("dr 2 {kb} {}", hex(frame)));
        out.push(format!("dc {kb} {}", hex(frame)));
    }

    /// A history of frames for one key cache: few distinct keys so that hits, misses and
    /// evictions all occur; invalid keys and keys one bit away from a cached key in between.
    fn history(rng: &mut Rng) -> String {
        let cap = *rng.pick(&[0usize, 1, 1, 2, 2, 3, 4]);
        let pool: Vec<[u8; 32]> = (0..rng.range(2, 6)).map(|_| *valid_key(rng).as_bytes()).collect();
        let bad: Vec<[u8; 32]> = (0..3).map(|_| invalid_key(rng)).collect();
        let mut last = pool[0];
        let mut toks = vec![format!("h {cap}")];
        for _ in 0..rng.range(2, 14) {
            let key: [u8; 32] = match rng.below(20) {
                0..=9 => *rng.pick(&pool),
                10 | 11 => last,
                12..=14 => {
                    // near miss: one bit away from a key that may be cached
                    let mut k = *rng.pick(&pool);
                    k[rng.usize_below(32)] ^= 1 << rng.below(8);
                    k
                }
                15..=17 => *rng.pick(&bad),
                _ => {
                    let mut k = [0u8; 32];
                    rng.fill(&mut k);
                    k
                }
            };
            last = key;
            let ty = *rng.pick(&[4u64, 5, 6, 7, 8, 8]);
            let mut f = varint(ty, 1);
            let mut body = Self::body_for(rng, ty);
            body[..32].copy_from_slice(&key);
            match rng.below(12) {
                0 => body.truncate(rng.range(0, 33) as usize), // too short for the key / for the datagram header
                1 => body.truncate(32),
                2 => {
                    f = varint(*rng.pick(&[9u64, 10, 12, 13, 11, 0, 3]), 1);
                    body = Self::body_for(rng, 9);
                }
                _ => {}
            }
            f.extend(body);
            let dir = *rng.pick(&["r1", "r2", "c"]);
            toks.push(format!("{dir}:{}:{}", keybits(&f), hex(&f)));
        }
        toks.join(" ")
    }

    /// A frame body that is valid for frame type `ty` (any direction), small contents.
    fn body_for(rng: &mut Rng, ty: u64) -> Vec<u8> {
        match ty {
            4 | 6 => {
                let mut b = valid_key(rng).as_bytes().to_vec();
                b.push(rng.below(4) as u8);
                let n = rng.range(0, 40) as usize;
                b.extend(rng.bytes(n));
                b
            }
            5 | 7 => {
                let mut b = valid_key(rng).as_bytes().to_vec();
                b.push(rng.byte());
                let seg = match rng.below(4) {
                    0 => 0u16,
                    1 => 65535,
                    _ => rng.range(1, 50) as u16,
                };
                b.extend(seg.to_be_bytes());
                let n = rng.range(0, 60) as usize;
                b.extend(rng.bytes(n));
                b
            }
            8 => valid_key(rng).as_bytes().to_vec(),
            9 | 10 => rng.bytes(8),
            11 => {
                let n = rng.range(0, 30) as usize;
                utf8_text(rng, n)
            }
            12 => rng.bytes(8),
            13 => {
                let mut b = vec![match rng.below(3) {
                    0 => rng.below(4) as u8,
                    _ => rng.byte(),
                }];
                if rng.chance(1, 4) {
                    let n = rng.range(1, 4) as usize;
                    b.extend(rng.bytes(n));
                }
                b
            }
            _ => {
                let n = rng.range(0, 40) as usize;
                rng.bytes(n)
            }
        }
    }
}

impl Prop for C10 {
    fn id(&self) -> &'static str {
        "C10"
    }

    fn generate(&mut self, rng: &mut Rng, tier: Tier, n: usize, out: &mut Vec<String>) {
        let thorough = tier == Tier::Thorough;
        let key = valid_key(rng);
        let max = MAX_PACKET_SIZE as u64;

        // ---- A. structured messages: every type, payload lengths at and around every limit ----
        // datagrams: encoded_len = 1 + 32 + 1 (+2) + contents; sender limit 65536 on encoded_len,
        // decoder limit 65536 on the bytes after the frame type.
        let mut lens: Vec<u64> = vec![0, 1, 2, 3, 31, 32, 33, 1200];
        lens.extend(max - 40..=max - 28);
        if thorough {
            lens.extend([max - 100, max - 41, max - 27, max - 1, max, max + 1]);
        }
        for &len in &lens {
            let contents = rng.bytes(len as usize);
            let segs: Vec<u64> = if thorough { vec![0, 1, 2, 1200, 65535, len.min(65535), (len + 1).min(65535)] } else { vec![0, 1200, 65535] };
            for seg in segs {
                let ecn = rng.below(4);
                let k = if rng.chance(1, 2) { key } else { valid_key(rng) };
                out.push(format!("er {}", msg_dg(&k, ecn, seg, &contents)));
                out.push(format!("ec {}", msg_dg(&k, (ecn + 1) % 4, seg, &contents)));
            }
        }
        // health: payload = the string
        let mut hlens: Vec<u64> = vec![0, 1, 2, 3, 4, 5, 100];
        hlens.extend(max - 3..=max + 2);
        for &len in &hlens {
            out.push(format!("er health {}", hex(&utf8_text(rng, len as usize))));
            out.push(format!("er health {}", hex(&vec![b'a'; len as usize])));
        }
        for e in UTF8_EDGE {
            if let Ok(s) = std::str::from_utf8(e) {
                out.push(format!("er health {}", hex(s.as_bytes())));
            }
        }
        // status: every code
        for s in ["h", "s", "r"] {
            out.push(format!("er status {s}"));
        }
        for u in 0..=255 {
            out.push(format!("er status u{u}"));
        }
        // restarting: whole and fractional milliseconds around 2^32 ms, and the extremes of Duration
        let ms = 1_000_000u128;
        let edge_ns: Vec<u128> = vec![
            0, 1, 999_999, ms, ms + 1, 2 * ms - 1, 10 * ms, 20 * ms, 1_000 * ms,
            ((1u128 << 32) - 1) * ms, ((1u128 << 32) - 1) * ms + 1, ((1u128 << 32) - 1) * ms + 999_999,
            (1u128 << 32) * ms, (1u128 << 32) * ms + ms, ((1u128 << 33) + 5) * ms,
            (1u128 << 64) * ms, u64::MAX as u128 * 1_000_000_000 + 999_999_999, u64::MAX as u128 * 1_000_000_000,
        ];
        for &a in &edge_ns {
            for &b in &edge_ns {
                if thorough || a == 0 || b == 10 * ms || a == b {
                    out.push(format!("er restart {a} {b}"));
                }
            }
        }
        for _ in 0..20 {
            out.push(format!("er restart {} {}", rng.below(1 << 32) as u128 * ms, rng.below(1 << 32) as u128 * ms));
            out.push(format!("er gone {}", hex(valid_key(rng).as_bytes())));
            out.push(format!("er ping {}", hex(&rng.bytes(8))));
            out.push(format!("er pong {}", hex(&rng.bytes(8))));
            out.push(format!("ec ping {}", hex(&rng.bytes(8))));
            out.push(format!("ec pong {}", hex(&rng.bytes(8))));
        }

        // ---- B. frames: every tag × body lengths around every length check ---------------------
        for ty in 0..=16u64 {
            for width in [1usize, 2, 4, 8] {
                let blens: Vec<usize> = if width == 1 { (0..=44).collect() } else { vec![0, 1, 8, 32, 33, 34, 35, 36] };
                for blen in blens {
                    let mut body = Self::body_for(rng, ty);
                    body.resize(blen, 0x61);
                    let mut f = varint(ty, width);
                    f.extend(&body);
                    Self::push_dec(out, &f);
                }
                // an intact frame of this type
                let mut f = varint(ty, width);
                f.extend(Self::body_for(rng, ty));
                Self::push_dec(out, &f);
            }
        }
        // truncated and extreme frame type varints
        for f in [
            &[][..], &[0x40][..], &[0x80][..], &[0x80, 0, 0][..], &[0xc0][..], &[0xc0, 0, 0, 0, 0, 0, 0][..],
            &[0x3f][..], &[0x7f, 0xff][..], &[0xbf, 0xff, 0xff, 0xff][..], &[0xff; 8][..], &[0xc0, 0, 0, 1, 0, 0, 0, 9, 1, 2, 3, 4, 5, 6, 7, 8][..],
            &[0xc0, 0, 0, 0, 0xff, 0xff, 0xff, 0xff][..], &[0xc0, 0, 0, 0, 0, 0, 0, 9, 1, 2, 3, 4, 5, 6, 7, 8][..],
        ] {
            Self::push_dec(out, f);
        }
        // keys: invalid key in every keyed frame type
        for ty in [4u64, 5, 6, 7, 8] {
            for _ in 0..(if thorough { 40 } else { 6 }) {
                let mut f = varint(ty, 1);
                let mut body = Self::body_for(rng, ty);
                let bad = if rng.chance(1, 2) { invalid_key(rng).to_vec() } else { rng.bytes(32) };
                body[..32].copy_from_slice(&bad);
                f.extend(body);
                Self::push_dec(out, &f);
            }
        }
        // health payloads: UTF-8 edge cases
        for e in UTF8_EDGE {
            let mut f = vec![11u8];
            f.extend_from_slice(e);
            Self::push_dec(out, &f);
            let mut f = vec![11u8];
            f.extend(utf8_text(rng, 5));
            f.extend_from_slice(e);
            f.extend(utf8_text(rng, 3));
            Self::push_dec(out, &f);
        }
        // the decoder's size limit, for every frame type that carries a payload
        for ty in [4u64, 5, 6, 7, 11, 13, 2, 20] {
            for blen in [max - 1, max, max + 1] {
                let mut f = varint(ty, 1);
                let mut body = Self::body_for(rng, ty);
                body.resize(blen as usize, 0x62);
                f.extend(body);
                Self::push_dec(out, &f);
            }
        }

        // ---- H. histories through one key cache ------------------------------------------------
        let n_hist = if thorough { n / 12 } else { n / 10 };
        for _ in 0..n_hist {
            out.push(Self::history(rng));
        }

        // ---- C/D. mutated valid frames and arbitrary bytes -------------------------------------
        while out.len() < n {
            let ty = match rng.below(10) {
                0 => rng.below(20),
                _ => *rng.pick(&[4u64, 5, 6, 7, 8, 9, 10, 11, 12, 13]),
            };
            let mut f = varint(ty, if rng.chance(1, 12) { *rng.pick(&[2usize, 4, 8]) } else { 1 });
            f.extend(Self::body_for(rng, ty));
            match rng.below(8) {
                0 => {}
                1 | 2 => {
                    // flip bits
                    for _ in 0..rng.range(1, 4) {
                        if !f.is_empty() {
                            let i = rng.usize_below(f.len());
                            f[i] ^= 1 << rng.below(8);
                        }
                    }
                }
                3 | 4 => {
                    let keep = rng.usize_below(f.len() + 1);
                    f.truncate(keep);
                }
                5 => {
                    // splice: cut a range out
                    if f.len() > 2 {
                        let a = rng.usize_below(f.len());
                        let b = (a + rng.range(1, 8) as usize).min(f.len());
                        f.drain(a..b);
                    }
                }
                6 => {
                    // splice: insert bytes
                    let a = rng.usize_below(f.len() + 1);
                    let k = rng.range(1, 6) as usize;
                    let ins = rng.bytes(k);
                    f.splice(a..a, ins);
                }
                _ => {
                    let len = rng.range(0, 64) as usize;
                    f = rng.bytes(len);
                    if !f.is_empty() && rng.chance(3, 4) {
                        f[0] = rng.below(16) as u8;
                    }
                }
            }
            Self::push_dec(out, &f);
            // and a random small structured message
            if rng.chance(1, 3) {
                let n = rng.range(0, 80) as usize;
                let contents = rng.bytes(n);
                let seg = match rng.below(3) {
                    0 => 0,
                    _ => rng.range(1, 100),
                };
                let k = valid_key(rng);
                let dir = if rng.bool() { "er" } else { "ec" };
                out.push(format!("{dir} {}", msg_dg(&k, rng.below(4), seg, &contents)));
            }
        }
    }

    fn execute(&mut self, payload: &str) -> Exec {
        let t: Vec<&str> = payload.split(' ').collect();
        match t[0] {
            "dr" => {
                let v = if t[1] == "1" { ProtocolVersion::V1 } else { ProtocolVersion::V2 };
                let frame = unhex(t[3]).expect("hex");
                assert_eq!(t[2], keybits(&frame), "key bits in payload are stale");
                let res = hooks::relay_to_client_from_bytes(Bytes::from(frame.clone()), &cache(&frame), v);
                let mut ex = Exec::new(show_res(&res, show_r2c));
                ex.nontrivial = res.is_ok();
                ex.tags.push(format!("dr-{}", match &res { Ok(m) => format!("ok-{m}"), Err(e) => class_only(&show_err(e)) }));
                ex
            }
            "dc" => {
                let frame = unhex(t[2]).expect("hex");
                assert_eq!(t[1], keybits(&frame), "key bits in payload are stale");
                let res = hooks::client_to_relay_from_bytes(Bytes::from(frame.clone()), &cache(&frame));
                let mut ex = Exec::new(show_res(&res, show_c2r));
                ex.nontrivial = res.is_ok();
                ex.tags.push(format!("dc-{}", match &res { Ok(_) => "ok".to_string(), Err(e) => class_only(&show_err(e)) }));
                ex
            }
            "er" => {
                let m = parse_r2c(&t[1..]);
                let len = hooks::relay_to_client_encoded_len(&m);
                let bytes = hooks::relay_to_client_to_bytes(&m).freeze();
                let (send, sunk) = server_send(m.clone());
                let d1 = hooks::relay_to_client_from_bytes(bytes.clone(), &cache(&bytes), ProtocolVersion::V1);
                let d2 = hooks::relay_to_client_from_bytes(bytes.clone(), &cache(&bytes[1..]), ProtocolVersion::V2);
                let mut ex = Exec::new(format!(
                    "len={len} bytes={} send={send} | {} | {}",
                    compact(&bytes),
                    show_res(&d1, show_r2c),
                    show_res(&d2, show_r2c)
                ));
                ex.nontrivial = true;
                ex.tags.push(format!("er-{m}-send-{}", class_only(&send)));
                // ---- oracle ----
                if len != bytes.len() {
                    ex.violation("encoded-len-wrong", format!("encoded_len {len}, actual {}", bytes.len()));
                }
                if send == "ok" && sunk.as_deref() != Some(&bytes[..]) {
                    ex.violation("sent-bytes-differ", "RelayedStream wrote other bytes than to_bytes()");
                }
                let fits = bytes.len() - 1 <= MAX_PACKET_SIZE;
                for (v, d) in [(ProtocolVersion::V1, &d1), (ProtocolVersion::V2, &d2)] {
                    let allowed = r2c_allowed(&m, v);
                    if allowed && fits && r2c_in_range(&m) && d.as_ref().ok() != Some(&m) {
                        ex.violation("roundtrip-failed", format!("{v:?}: {}", show_res(d, show_r2c)));
                    }
                    if !allowed {
                        match d {
                            Ok(_) => ex.violation("other-version-frame-accepted", format!("{v:?}")),
                            Err(Error::FrameNotAllowedInVersion { .. }) => {}
                            Err(e) if fits => ex.violation("other-version-frame-wrong-error", format!("{v:?}: {}", show_err(e))),
                            Err(_) => {}
                        }
                    }
                    if allowed && send == "ok" && d.is_err() {
                        ex.violation("sender-accepted-decoder-rejected", format!("{v:?}: {}", show_res(d, show_r2c)));
                    }
                }
                ex
            }
            "ec" => {
                let m = parse_c2r(&t[1..]);
                let len = hooks::client_to_relay_encoded_len(&m);
                let bytes = hooks::client_to_relay_to_bytes(&m).freeze();
                let send = self.client.get_or_insert_with(ClientSide::new).send(m.clone());
                let d = hooks::client_to_relay_from_bytes(bytes.clone(), &cache(&bytes));
                let mut ex = Exec::new(format!("len={len} bytes={} send={send} | {}", compact(&bytes), show_res(&d, show_c2r)));
                ex.nontrivial = true;
                ex.tags.push(format!("ec-{}-send-{}", t[1], class_only(&send)));
                if len != bytes.len() {
                    ex.violation("encoded-len-wrong", format!("encoded_len {len}, actual {}", bytes.len()));
                }
                let fits = bytes.len() - 1 <= MAX_PACKET_SIZE;
                if fits && d.as_ref().ok() != Some(&m) {
                    ex.violation("roundtrip-failed", show_res(&d, show_c2r));
                }
                if send == "ok" && d.is_err() {
                    ex.violation("sender-accepted-decoder-rejected", show_res(&d, show_c2r));
                }
                ex
            }
            "h" => {
                let cap: usize = t[1].parse().expect("cap");
                let shared = KeyCache::new(cap);
                let direct = KeyCache::new(0);
                let mut outs = Vec::new();
                let mut ex = Exec::default();
                let mut oks = 0;
                for (i, tok) in t[2..].iter().enumerate() {
                    let p: Vec<&str> = tok.split(':').collect();
                    let frame = unhex(p[2]).expect("hex");
                    assert_eq!(p[1], keybits(&frame), "key bits in payload are stale");
                    let b = Bytes::from(frame);
                    let (with_cache, without) = match p[0] {
                        "c" => (
                            show_res(&hooks::client_to_relay_from_bytes(b.clone(), &shared), show_c2r),
                            show_res(&hooks::client_to_relay_from_bytes(b, &direct), show_c2r),
                        ),
                        r => {
                            let v = if r == "r1" { ProtocolVersion::V1 } else { ProtocolVersion::V2 };
                            (
                                show_res(&hooks::relay_to_client_from_bytes(b.clone(), &shared, v), show_r2c),
                                show_res(&hooks::relay_to_client_from_bytes(b, &direct, v), show_r2c),
                            )
                        }
                    };
                    // oracle: the cache must not change what a frame decodes to
                    if with_cache != without {
                        ex.violation("cache-changes-decode", format!("frame {i}: with cache `{with_cache}`, without `{without}`"));
                    }
                    if with_cache.starts_with("ok") {
                        oks += 1;
                    }
                    outs.push(with_cache);
                }
                let entries = shared.verif_entries();
                let cache = match &entries {
                    None => "off".to_string(),
                    Some(es) if es.is_empty() => "-".to_string(),
                    Some(es) => es.iter().map(|k| hex(k.as_bytes())).collect::<Vec<_>>().join(","),
                };
                if let Some(es) = &entries {
                    if es.len() > cap {
                        ex.violation("cache-exceeds-capacity", format!("{} entries, capacity {cap}", es.len()));
                    }
                }
                if entries.is_none() != (cap == 0) {
                    ex.violation("cache-mode", format!("capacity {cap} but snapshot {cache}"));
                }
                ex.out = format!("{} | cache={cache}", outs.join(" ; "));
                ex.nontrivial = oks > 0;
                ex.tags.push(format!("h-cap{cap}-entries{}", entries.map_or(0, |e| e.len())));
                ex
            }
            other => panic!("unknown payload kind {other}"),
        }
    }
}

fn class_only(s: &str) -> String {
    s.split(':').next().unwrap_or("").to_string()
}

fn main() {
    let _ = FrameType::Ping;
    run(C10 { client: None });
}
