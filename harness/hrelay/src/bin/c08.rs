//! C08 — a revoked relay connection does not stay connected.
//!
//! Every case spawns the REAL relay `Server` on loopback (public API) with a gate
//! `AccessControl`, connects REAL relay clients (`ClientBuilder::connect`) and forces one
//! interleaving of the accept tasks with `Clients::disconnect` calls:
//!   * `on_connect` of the gate blocks until the script decides (allow / deny),
//!   * the `cfg(iroh_verif)` pause points `authorize:allowed` (after `on_connect` returned
//!     `Allow`, before `ServerConfirmsAuth` is written) and `accept:admitted` (after
//!     `authorize_with` returned, before `Clients::register`) hold the accept task
//!     (`iroh_relay::server::verif_pause`).
//!
//! payload: ops separated by `;`
//!   `conn <id>`      next connection k (k = number of `conn` ops so far) dials as endpoint <id>;
//!                    runs until the server calls `on_connect` (connection id allocated)
//!   `allow <k>` | `deny <k>`   `on_connect` returns; allow runs to the pause point `authorize:allowed`
//!   `confirm <k>`    the confirmation is written; runs to the pause point `accept:admitted`
//!   `reg <k>`        `Clients::register` runs
//!   `disc <id> <k|*>` `Clients::disconnect(endpoint id, Some(connection id of k) | None)`, then the
//!                    cancelled actors are given time to exit
//!   `close <k>`      the client of a registered connection closes its socket
//!   `load <k> <dst> <n> <c|*> <b|f>`  revocation UNDER LOAD of registered connection k: its client has
//!                    `b`: a pipelined backlog of n datagram frames for endpoint <dst> already written to the
//!                    socket, or `f`: a writer task that keeps writing such frames until the socket closes,
//!                    at the moment `Clients::disconnect(endpoint of k, Some(cid of k) | None)` is called
//!                    (no await between the last write / the counter read and the call).  Observed: the
//!                    relay's `send_packets_recv` counter (inbound datagram frames handled) after the call
//!                    minus its value at the call, and whether the connection gets closed in bounded time.
//!                    result `true+q` = call returned true, at most SLACK frames handled afterwards, closed
//!   `load <k> <p> <n> <c|*> <t|T>`    the same with the load TOWARDS k: peer connection p (another endpoint) has
//!                    `t`: a burst of n datagrams for k's endpoint in its socket, `T`: a writer task sending them
//!                    for as long as it takes (k's client is read by a task); the call is made from inside p's
//!                    busy actor, so k's outbound queue is filled and keeps being filled.  Observed: packets
//!                    written to clients (`send_packets_sent`) after the call returned, what k's client received
//! After the script every open accept task is driven to its end (requested -> denied, admitted
//! -> confirmed -> registered, in index order) and the final state is observed.
//! output: `<result per op, comma separated> | <registry: id:active/inactive oldest first ...> | <served connections>`
//!   results: `req`, `ok`, `true`/`false` (disconnect), `-` (op not enabled: ignored)
//!   served k = a ping sent by client k after quiescence is answered with the matching pong.
use std::collections::HashMap;
use std::net::Ipv4Addr;
use std::sync::atomic::{AtomicBool, Ordering};
use std::sync::{Arc, Mutex, OnceLock};
use std::time::Duration;

use iroh_base::{EndpointId, SecretKey};
use iroh_relay::client::{Client, ClientBuilder, ConnectError};
use iroh_relay::protos::relay::{ClientToRelayMsg, Datagrams, RelayToClientMsg};
use iroh_relay::server::Metrics;
use iroh_relay::server::clients::Clients;
use iroh_relay::server::{
    Access, AccessControl, ClientRequest, ConnectionId, RelayConfig, Server, ServerConfig, verif_pause,
};
use n0_future::{SinkExt, StreamExt};
use tokio::sync::oneshot;
use tokio::task::JoinHandle;
use vcommon::*;

const P_ALLOWED: &str = "authorize:allowed";
const P_ADMITTED: &str = "accept:admitted";
/// Upper bound for every wait on the real server (an expiry is reported, never assumed).
const WAIT: Duration = Duration::from_secs(3);
const NUM_IDS: u64 = 4;
/// Frames that may still be handled after `disconnect` returned (the operation in flight).
const SLACK: u64 = 2;
/// `load`: the disconnect call is made when the actor takes its TRIGGER_AT-th inbound frame.
const TRIGGER_AT: usize = 20;

fn secret(i: u64) -> SecretKey {
    let mut b = [0x33u8; 32];
    b[..8].copy_from_slice(&(i + 1).to_le_bytes());
    SecretKey::from_bytes(&b)
}

struct Arrival {
    endpoint: EndpointId,
    cid: ConnectionId,
    decide: oneshot::Sender<bool>,
}

/// `on_connect` parks the accept task until the script decides.
#[derive(Default)]
struct Gate {
    arrivals: Mutex<Vec<Arrival>>,
    disconnects: Mutex<Vec<ConnectionId>>,
}

impl std::fmt::Debug for Gate {
    fn fmt(&self, f: &mut std::fmt::Formatter<'_>) -> std::fmt::Result {
        f.write_str("Gate")
    }
}

#[derive(Debug, Clone)]
struct GateAccess(Arc<Gate>);

impl AccessControl for GateAccess {
    async fn on_connect(&self, request: &ClientRequest) -> Access {
        let (tx, rx) = oneshot::channel();
        self.0.arrivals.lock().unwrap().push(Arrival {
            endpoint: request.endpoint_id(),
            cid: request.connection_id(),
            decide: tx,
        });
        match rx.await {
            Ok(true) => Access::Allow,
            _ => Access::Deny { reason: None },
        }
    }
    fn on_disconnect(&self, _endpoint_id: EndpointId, connection_id: ConnectionId) {
        self.0.disconnects.lock().unwrap().push(connection_id);
    }
}

// ---------------------------------------------------------------------------------------------
// A `disconnect` call placed INSIDE the run of a busy actor.
//
// On a one-thread runtime a harness task can never call `Clients::disconnect` while an actor is
// in the middle of draining a backlog (the actor does not yield between frames).  What another
// thread could do at that moment is done here from a `tracing` subscriber: the actor emits the
// event `handle incoming frame` (server/client.rs, `Actor::handle_frame`, no lock held) once per
// inbound frame, synchronously in its own loop; when the trigger is armed, the j-th such event
// calls `Clients::disconnect` and reads the relay's frame counter right after the call returned.

struct Armed {
    countdown: usize,
    clients: Clients,
    key: EndpointId,
    sel: Option<ConnectionId>,
    metrics: Arc<Metrics>,
}

#[derive(Default)]
struct Trigger {
    on: AtomicBool,
    armed: Mutex<Option<Armed>>,
    /// (result of the call, `send_packets_recv` and `send_packets_sent` right after the call returned)
    fired: Mutex<Option<(bool, u64, u64)>>,
}

fn trigger() -> &'static Trigger {
    static T: OnceLock<Trigger> = OnceLock::new();
    T.get_or_init(Trigger::default)
}

struct FrameEvents;

struct MsgIs<'a>(&'a str, bool);
impl tracing::field::Visit for MsgIs<'_> {
    fn record_debug(&mut self, field: &tracing::field::Field, value: &dyn std::fmt::Debug) {
        if field.name() == "message" && format!("{value:?}") == self.0 {
            self.1 = true;
        }
    }
}

fn wanted(m: &tracing::Metadata<'_>) -> bool {
    m.is_event() && *m.level() == tracing::Level::TRACE && m.target() == "iroh_relay::server::client"
}

impl tracing::Subscriber for FrameEvents {
    fn register_callsite(&self, m: &'static tracing::Metadata<'static>) -> tracing::subscriber::Interest {
        if wanted(m) { tracing::subscriber::Interest::sometimes() } else { tracing::subscriber::Interest::never() }
    }
    fn enabled(&self, m: &tracing::Metadata<'_>) -> bool {
        wanted(m) && trigger().on.load(Ordering::Relaxed)
    }
    fn new_span(&self, _: &tracing::span::Attributes<'_>) -> tracing::span::Id {
        tracing::span::Id::from_u64(1)
    }
    fn record(&self, _: &tracing::span::Id, _: &tracing::span::Record<'_>) {}
    fn record_follows_from(&self, _: &tracing::span::Id, _: &tracing::span::Id) {}
    fn enter(&self, _: &tracing::span::Id) {}
    fn exit(&self, _: &tracing::span::Id) {}
    fn event(&self, event: &tracing::Event<'_>) {
        let mut v = MsgIs("handle incoming frame", false);
        event.record(&mut v);
        if !v.1 {
            return;
        }
        let t = trigger();
        let mut armed = t.armed.lock().unwrap();
        let Some(a) = armed.as_mut() else { return };
        if a.countdown > 1 {
            a.countdown -= 1;
            return;
        }
        let a = armed.take().expect("armed");
        t.on.store(false, Ordering::Relaxed);
        let found = a.clients.disconnect(a.key, a.sel);
        let post = a.metrics.send_packets_recv.get();
        let post_sent = a.metrics.send_packets_sent.get();
        *t.fired.lock().unwrap() = Some((found, post, post_sent));
    }
}

#[derive(Clone, Copy, PartialEq, Eq, Debug)]
enum Phase {
    Requested,
    Admitted,
    Confirmed,
    Registered,
    Closed,
}

struct Conn {
    id: u64,
    cid: ConnectionId,
    phase: Phase,
    decide: Option<oneshot::Sender<bool>>,
    dial: Option<JoinHandle<Result<Client, ConnectError>>>,
    client: Option<Client>,
    /// the embedder asked to disconnect this connection after admitting it; bool = the request
    /// came before `Clients::register`
    revoked: Option<bool>,
}

async fn wait_until(mut cond: impl FnMut() -> bool) -> bool {
    let deadline = tokio::time::Instant::now() + WAIT;
    loop {
        if cond() {
            return true;
        }
        if tokio::time::Instant::now() >= deadline {
            return false;
        }
        tokio::time::sleep(Duration::from_micros(300)).await;
    }
}

fn registered_cids(clients: &Clients) -> Vec<ConnectionId> {
    let (snap, _) = clients.verif_snapshot();
    snap.into_iter().flat_map(|(_, a, ina)| std::iter::once(a).chain(ina)).collect()
}

struct Run {
    gate: Arc<Gate>,
    clients: Clients,
    url: url::Url,
    conns: Vec<Conn>,
    results: Vec<String>,
    faults: Vec<String>,
    metrics: Arc<Metrics>,
    /// oracle hits of `load` ops
    load_hits: Vec<(String, String)>,
    load_tags: Vec<String>,
}

impl Run {
    fn fault(&mut self, what: impl Into<String>) {
        self.faults.push(what.into());
    }

    async fn op_conn(&mut self, id: u64) {
        let builder = ClientBuilder::new(self.url.clone(), secret(id), iroh_dns::dns::DnsResolver::new())
            .tls_client_config(iroh_relay::tls::make_dangerous_client_config());
        let dial = tokio::spawn(async move { builder.connect().await });
        let gate = self.gate.clone();
        if !wait_until(|| !gate.arrivals.lock().unwrap().is_empty()).await {
            self.fault("on_connect-not-reached");
            self.results.push("timeout".into());
            return;
        }
        let a = self.gate.arrivals.lock().unwrap().remove(0);
        if a.endpoint != secret(id).public() {
            self.fault("on_connect-for-wrong-endpoint");
        }
        self.conns.push(Conn {
            id,
            cid: a.cid,
            phase: Phase::Requested,
            decide: Some(a.decide),
            dial: Some(dial),
            client: None,
            revoked: None,
        });
        self.results.push("req".into());
    }

    async fn at_point(&mut self, name: &'static str, cid: ConnectionId) -> bool {
        let tag = cid.verif_raw();
        let ok = wait_until(|| verif_pause::waiting().iter().any(|(n, t)| *n == name && *t == tag)).await;
        if !ok {
            self.fault(format!("pause-point-not-reached:{name}"));
        }
        ok
    }

    async fn op_allow(&mut self, k: usize) -> &'static str {
        if self.conns.get(k).map(|c| c.phase) != Some(Phase::Requested) {
            return "-";
        }
        let _ = self.conns[k].decide.take().expect("decide").send(true);
        let cid = self.conns[k].cid;
        self.at_point(P_ALLOWED, cid).await;
        self.conns[k].phase = Phase::Admitted;
        "ok"
    }

    async fn op_deny(&mut self, k: usize) -> &'static str {
        if self.conns.get(k).map(|c| c.phase) != Some(Phase::Requested) {
            return "-";
        }
        let _ = self.conns[k].decide.take().expect("decide").send(false);
        let dial = self.conns[k].dial.take().expect("dial");
        match tokio::time::timeout(WAIT, dial).await {
            Ok(Ok(Err(ConnectError::Handshake { .. }))) => {}
            Ok(Ok(Ok(_))) => self.fault("denied-client-connected"),
            Ok(_) => self.fault("denied-client-other-error"),
            Err(_) => self.fault("denied-client-hangs"),
        }
        self.conns[k].phase = Phase::Closed;
        "ok"
    }

    async fn op_confirm(&mut self, k: usize) -> &'static str {
        if self.conns.get(k).map(|c| c.phase) != Some(Phase::Admitted) {
            return "-";
        }
        let cid = self.conns[k].cid;
        if !verif_pause::release(P_ALLOWED, cid.verif_raw()) {
            self.fault("release-failed:authorize:allowed");
        }
        self.at_point(P_ADMITTED, cid).await;
        // the client has been told: its `connect()` returns
        let dial = self.conns[k].dial.take().expect("dial");
        match tokio::time::timeout(WAIT, dial).await {
            Ok(Ok(Ok(client))) => self.conns[k].client = Some(client),
            _ => self.fault("confirmed-client-did-not-connect"),
        }
        self.conns[k].phase = Phase::Confirmed;
        "ok"
    }

    async fn op_reg(&mut self, k: usize) -> &'static str {
        if self.conns.get(k).map(|c| c.phase) != Some(Phase::Confirmed) {
            return "-";
        }
        let cid = self.conns[k].cid;
        if !verif_pause::release(P_ADMITTED, cid.verif_raw()) {
            self.fault("release-failed:accept:admitted");
        }
        let clients = self.clients.clone();
        if !wait_until(|| registered_cids(&clients).contains(&cid)).await {
            self.fault("not-registered");
        }
        self.conns[k].phase = Phase::Registered;
        "ok"
    }

    /// Waits until the connections in `gone` have left the registry and books them as closed.
    async fn settle_gone(&mut self, gone: Vec<ConnectionId>) {
        let clients = self.clients.clone();
        let g = gone.clone();
        if !wait_until(|| {
            let reg = registered_cids(&clients);
            g.iter().all(|c| !reg.contains(c))
        })
        .await
        {
            self.fault("cancelled-connection-stays-registered");
        }
        let reg = registered_cids(&self.clients);
        for c in &mut self.conns {
            if gone.contains(&c.cid) && !reg.contains(&c.cid) {
                c.phase = Phase::Closed;
            }
        }
    }

    /// Books what the embedder means to revoke with `disconnect(id, sel)` and returns the call's
    /// arguments plus the registered connections it can reach. `None`: `sel` names no connection.
    fn prepare_disc(&mut self, id: u64, sel: Option<usize>) -> Option<(EndpointId, Option<ConnectionId>, Vec<ConnectionId>)> {
        let key = secret(id).public();
        let sel_cid = match sel {
            None => None,
            Some(k) => Some(self.conns.get(k)?.cid),
        };
        // what the embedder means to revoke: connections it admitted and has not been told the end of
        for (k, c) in self.conns.iter_mut().enumerate() {
            let targeted = c.id == id && sel.is_none_or(|s| s == k);
            let open = matches!(c.phase, Phase::Admitted | Phase::Confirmed | Phase::Registered);
            if targeted && open && c.revoked.is_none() {
                c.revoked = Some(c.phase != Phase::Registered);
            }
        }
        // connections the call can reach: registered for this endpoint
        let (snap, _) = self.clients.verif_snapshot();
        let mut reach: Vec<ConnectionId> = snap
            .into_iter()
            .filter(|(e, _, _)| *e == key)
            .flat_map(|(_, a, ina)| std::iter::once(a).chain(ina))
            .collect();
        if let Some(c) = sel_cid {
            reach.retain(|x| *x == c);
        }
        Some((key, sel_cid, reach))
    }

    async fn op_disc(&mut self, id: u64, sel: Option<usize>) -> String {
        let Some((key, sel_cid, reach)) = self.prepare_disc(id, sel) else { return "-".into() };
        let found = self.clients.disconnect(key, sel_cid);
        if found {
            self.settle_gone(reach).await;
        }
        found.to_string()
    }

    async fn op_load(&mut self, k: usize, dst: u64, n: usize, by_cid: bool, flood: bool) -> String {
        if self.conns.get(k).map(|c| c.phase) != Some(Phase::Registered) || self.conns[k].client.is_none() {
            return "-".into();
        }
        let id = self.conns[k].id;
        let dst_key = secret(dst).public();
        let frame = move |i: usize| ClientToRelayMsg::Datagrams {
            dst_endpoint_id: dst_key,
            datagrams: Datagrams::from(&[0xC0u8, 0x08, (i >> 8) as u8, i as u8, 1, 2, 3, 4][..]),
        };
        let (key, sel_cid, reach) = self.prepare_disc(id, if by_cid { Some(k) } else { None }).expect("k exists");
        // the call is made from inside the actor's run, at its TRIGGER_AT-th inbound frame from now
        let t = trigger();
        *t.fired.lock().unwrap() = None;
        let direct = !flood && n < TRIGGER_AT;
        if !direct {
            *t.armed.lock().unwrap() = Some(Armed {
                countdown: TRIGGER_AT,
                clients: self.clients.clone(),
                key,
                sel: sel_cid,
                metrics: self.metrics.clone(),
            });
            t.on.store(true, Ordering::Relaxed);
        }
        let start = self.metrics.send_packets_recv.get();
        let mut writer: Option<JoinHandle<usize>> = None;
        if flood {
            let client = self.conns[k].client.take().expect("client");
            let (_stream, mut sink) = client.split();
            writer = Some(tokio::spawn(async move {
                // bursts written without yielding, so that the relay-side stream is ready
                // whenever the actor polls it
                let mut sent = 0usize;
                loop {
                    let burst = tokio::task::unconstrained(async {
                        for i in 0..256 {
                            sink.feed(frame(sent + i)).await?;
                        }
                        sink.flush().await
                    })
                    .await;
                    if burst.is_err() {
                        return sent;
                    }
                    sent += 256;
                    tokio::task::yield_now().await;
                }
            }));
        } else {
            let client = self.conns[k].client.as_mut().expect("client");
            // one pipelined write, not interleaved with the actor
            let ok = tokio::task::unconstrained(async {
                let mut ok = true;
                for i in 0..n {
                    ok &= client.feed(frame(i)).await.is_ok();
                }
                ok & client.flush().await.is_ok()
            })
            .await;
            // a failed write is no fault: on a multi-thread runtime the call placed in the actor can
            // close the connection while the tail of the backlog is still being written
            let _ = ok;
        }
        let (found, post, _) = if direct {
            let found = self.clients.disconnect(key, sel_cid);
            (found, self.metrics.send_packets_recv.get(), 0)
        } else {
            let fired = wait_until(|| t.fired.lock().unwrap().is_some()).await;
            if !fired {
                // the actor never got to its TRIGGER_AT-th frame
                t.on.store(false, Ordering::Relaxed);
                *t.armed.lock().unwrap() = None;
                self.fault("trigger-not-fired");
                let found = self.clients.disconnect(key, sel_cid);
                (found, self.metrics.send_packets_recv.get(), 0)
            } else {
                t.fired.lock().unwrap().take().expect("fired")
            }
        };
        if found {
            self.settle_gone(reach).await;
        }
        let mut closed = self.conns[k].phase == Phase::Closed;
        if let Some(w) = writer {
            let abort = w.abort_handle();
            if tokio::time::timeout(Duration::from_secs(2), w).await.is_err() {
                closed = false;
                abort.abort();
            }
        }
        let after = self.metrics.send_packets_recv.get().saturating_sub(post);
        if flood {
            self.load_tags.push("flood".into());
        } else {
            // how much of the backlog was still unread when `disconnect` returned
            let unread = (n as u64).saturating_sub(post.saturating_sub(start));
            self.load_tags.push(if unread * 2 >= n as u64 && n > 0 { "backlog-unread-at-call".into() } else { "backlog-small-at-call".into() });
        }
        let mut tag = "q";
        if after > SLACK {
            tag = "served";
            self.load_hits.push((
                "C08:served-after-revocation".into(),
                format!("connection {k}: {after} inbound datagram frames handled after Clients::disconnect returned {found} ({})", if flood { "flooding writer".to_string() } else { format!("backlog of {n}") }),
            ));
        }
        if !closed {
            tag = "open";
            self.load_hits.push((
                "C08:revoked-not-closed-under-load".into(),
                format!("connection {k} still registered / its socket still accepts writes {} after Clients::disconnect returned {found}", if flood { "2 s under sustained flood" } else { "3 s" }),
            ));
        }
        format!("{found}+{tag}")
    }

    /// Revocation of connection `k` while peer connection `p` keeps `k`'s OUTBOUND packet queue
    /// non-empty: `p`'s client has a burst of `n` datagrams for `k`'s endpoint in its socket (`t`) or
    /// a writer task keeps sending them while a reader task drains `k`'s socket (`T`); the
    /// `disconnect` call is made from inside `p`'s busy actor (at its TRIGGER_AT-th frame), i.e.
    /// with `k`'s queue filled and more arriving.  Observed: packets written to clients
    /// (`send_packets_sent`; only `k` is sent anything) after the call returned.
    async fn op_load_towards(&mut self, k: usize, p: usize, n: usize, by_cid: bool, flood: bool) -> String {
        let ready = |c: Option<&Conn>| c.is_some_and(|c| c.phase == Phase::Registered && c.client.is_some());
        if p == k || !ready(self.conns.get(k)) || !ready(self.conns.get(p)) || self.conns[p].id == self.conns[k].id {
            return "-".into();
        }
        let id = self.conns[k].id;
        let k_key = secret(id).public();
        let k_cid = self.conns[k].cid;
        // datagrams for an endpoint go to its ACTIVE connection
        let (snap, _) = self.clients.verif_snapshot();
        if !snap.iter().any(|(e, a, _)| *e == k_key && *a == k_cid) {
            return "-".into();
        }
        let frame = move |i: usize| ClientToRelayMsg::Datagrams {
            dst_endpoint_id: k_key,
            datagrams: Datagrams::from(&[0xC0u8, 0x08, 0x70, (i >> 8) as u8, i as u8, 2, 3, 4][..]),
        };
        let (key, sel_cid, reach) = self.prepare_disc(id, if by_cid { Some(k) } else { None }).expect("k exists");
        let t = trigger();
        *t.fired.lock().unwrap() = None;
        let direct = !flood && n < TRIGGER_AT;
        if !direct {
            *t.armed.lock().unwrap() = Some(Armed {
                countdown: TRIGGER_AT,
                clients: self.clients.clone(),
                key,
                sel: sel_cid,
                metrics: self.metrics.clone(),
            });
            t.on.store(true, Ordering::Relaxed);
        }
        let stop = Arc::new(AtomicBool::new(false));
        let mut writer: Option<JoinHandle<Option<Client>>> = None;
        let mut reader: Option<JoinHandle<usize>> = None;
        if flood {
            let mut pc = self.conns[p].client.take().expect("client");
            let stop2 = stop.clone();
            writer = Some(tokio::spawn(async move {
                let mut sent = 0usize;
                while !stop2.load(Ordering::Relaxed) {
                    let burst = tokio::task::unconstrained(async {
                        for i in 0..64 {
                            pc.feed(frame(sent + i)).await?;
                        }
                        pc.flush().await
                    })
                    .await;
                    if burst.is_err() {
                        return None;
                    }
                    sent += 64;
                    tokio::task::yield_now().await;
                }
                Some(pc)
            }));
            let mut kc = self.conns[k].client.take().expect("client");
            reader = Some(tokio::spawn(async move {
                let mut got = 0usize;
                while let Some(Ok(m)) = kc.next().await {
                    if matches!(m, RelayToClientMsg::Datagrams { .. }) {
                        got += 1;
                    }
                }
                got
            }));
        } else {
            let pc = self.conns[p].client.as_mut().expect("client");
            let _ = tokio::task::unconstrained(async {
                let mut ok = true;
                for i in 0..n {
                    ok &= pc.feed(frame(i)).await.is_ok();
                }
                ok & pc.flush().await.is_ok()
            })
            .await;
        }
        let (found, _, post_sent) = if direct {
            let found = self.clients.disconnect(key, sel_cid);
            (found, 0, self.metrics.send_packets_sent.get())
        } else if wait_until(|| t.fired.lock().unwrap().is_some()).await {
            t.fired.lock().unwrap().take().expect("fired")
        } else {
            t.on.store(false, Ordering::Relaxed);
            *t.armed.lock().unwrap() = None;
            self.fault("trigger-not-fired");
            let found = self.clients.disconnect(key, sel_cid);
            (found, 0, self.metrics.send_packets_sent.get())
        };
        if found {
            self.settle_gone(reach).await;
        }
        let mut closed = self.conns[k].phase == Phase::Closed;
        // what the revoked client still gets: read its socket to the end
        let mut client_rx = 0usize;
        if let Some(r) = reader {
            let abort = r.abort_handle();
            match tokio::time::timeout(Duration::from_secs(2), r).await {
                Ok(Ok(g)) => client_rx = g,
                _ => {
                    closed = false;
                    abort.abort();
                }
            }
        } else if let Some(kc) = self.conns[k].client.as_mut() {
            let r = tokio::time::timeout(Duration::from_secs(2), async {
                let mut got = 0usize;
                while let Some(Ok(m)) = kc.next().await {
                    if matches!(m, RelayToClientMsg::Datagrams { .. }) {
                        got += 1;
                    }
                }
                got
            })
            .await;
            match r {
                Ok(g) => client_rx = g,
                Err(_) => closed = false,
            }
        }
        stop.store(true, Ordering::Relaxed);
        if let Some(w) = writer {
            match tokio::time::timeout(Duration::from_secs(2), w).await {
                Ok(Ok(Some(pc))) => self.conns[p].client = Some(pc),
                _ => self.fault("peer-writer-lost"),
            }
        }
        let after = self.metrics.send_packets_sent.get().saturating_sub(post_sent);
        self.load_tags.push(if flood { "flood-towards".into() } else { "burst-towards".into() });
        let mut tag = "q";
        // both views: the relay's counter after the call, and what the client can have received at all
        if after > SLACK || client_rx as u64 > post_sent + SLACK {
            tag = "served";
            self.load_hits.push((
                "C08:served-after-revocation".into(),
                format!("connection {k}: {after} datagrams written to the revoked client after Clients::disconnect returned {found} (client received {client_rx} in all, {post_sent} had been written at the call; {})", if flood { "peer keeps sending".to_string() } else { format!("peer burst of {n}") }),
            ));
        }
        if !closed {
            tag = "open";
            self.load_hits.push((
                "C08:revoked-not-closed-under-load".into(),
                format!("connection {k} still registered / its socket still open after Clients::disconnect returned {found}, under traffic towards it"),
            ));
        }
        format!("{found}+{tag}")
    }

    async fn op_close(&mut self, k: usize) -> &'static str {
        if self.conns.get(k).map(|c| c.phase) != Some(Phase::Registered) {
            return "-";
        }
        if let Some(mut client) = self.conns[k].client.take() {
            let _ = client.close().await;
            drop(client);
        }
        let cid = self.conns[k].cid;
        self.settle_gone(vec![cid]).await;
        "ok"
    }

    /// Is connection `k` served: does the relay answer its ping?
    async fn probe(&mut self, k: usize) -> bool {
        let Some(client) = self.conns[k].client.as_mut() else { return false };
        let data = [0xC0, 0x08, k as u8, 1, 2, 3, 4, 5];
        if client.send(ClientToRelayMsg::Ping(data)).await.is_err() {
            return false;
        }
        let r = tokio::time::timeout(WAIT, async {
            loop {
                match client.next().await {
                    Some(Ok(RelayToClientMsg::Pong(d))) if d == data => return true,
                    Some(Ok(RelayToClientMsg::Ping(p))) => {
                        let _ = client.send(ClientToRelayMsg::Pong(p)).await;
                    }
                    Some(Ok(_)) => {}
                    Some(Err(_)) | None => return false,
                }
            }
        })
        .await;
        match r {
            Ok(b) => b,
            Err(_) => {
                self.fault(format!("probe-timeout:{k}"));
                false
            }
        }
    }
}

#[derive(Debug, Clone)]
enum Op {
    Conn(u64),
    Allow(usize),
    Deny(usize),
    Confirm(usize),
    Reg(usize),
    Disc(u64, Option<usize>),
    Close(usize),
    /// k, dst endpoint (modes b f) or peer connection (modes t T), n, by connection id, mode
    Load(usize, u64, usize, bool, char),
}

fn parse(payload: &str) -> Option<Vec<Op>> {
    let mut ops = Vec::new();
    for part in payload.split(';') {
        let t: Vec<&str> = part.split_whitespace().collect();
        let op = match t.as_slice() {
            ["conn", id] => Op::Conn(id.parse::<u64>().ok().filter(|i| *i < NUM_IDS)?),
            ["allow", k] => Op::Allow(k.parse().ok()?),
            ["deny", k] => Op::Deny(k.parse().ok()?),
            ["confirm", k] => Op::Confirm(k.parse().ok()?),
            ["reg", k] => Op::Reg(k.parse().ok()?),
            ["disc", id, "*"] => Op::Disc(id.parse::<u64>().ok().filter(|i| *i < NUM_IDS)?, None),
            ["disc", id, k] => Op::Disc(id.parse::<u64>().ok().filter(|i| *i < NUM_IDS)?, Some(k.parse().ok()?)),
            ["close", k] => Op::Close(k.parse().ok()?),
            ["load", k, dst, n, sel, mode] => Op::Load(
                k.parse().ok()?,
                dst.parse::<u64>().ok().filter(|i| *i < NUM_IDS)?,
                n.parse::<usize>().ok().filter(|n| *n <= 2000)?,
                match *sel {
                    "c" => true,
                    "*" => false,
                    _ => return None,
                },
                match *mode {
                    "f" => 'f',
                    "b" => 'b',
                    "t" => 't',
                    "T" => 'T',
                    _ => return None,
                },
            ),
            _ => return None,
        };
        ops.push(op);
    }
    Some(ops)
}

async fn run_case(ops: Vec<Op>) -> Exec {
    verif_pause::reset();
    verif_pause::arm(P_ALLOWED);
    verif_pause::arm(P_ADMITTED);
    let gate = Arc::new(Gate::default());
    let mut relay = RelayConfig::new((Ipv4Addr::LOCALHOST, 0));
    relay.access = Arc::new(GateAccess(gate.clone()));
    let mut config = ServerConfig::default();
    config.relay = Some(relay);
    let server = match Server::spawn(config).await {
        Ok(s) => s,
        Err(e) => return Exec::new(format!("infra:spawn:{e}")).tag("infra"),
    };
    let url: url::Url = format!("http://{}", server.http_addr().expect("http addr")).parse().unwrap();
    let clients = server.relay_service().expect("relay").clients().clone();
    let metrics = server.metrics().server.clone();
    let mut run = Run {
        gate,
        clients,
        url,
        conns: Vec::new(),
        results: Vec::new(),
        faults: Vec::new(),
        metrics,
        load_hits: Vec::new(),
        load_tags: Vec::new(),
    };

    let mut window_discs = 0usize;
    for op in &ops {
        let r: String = match op {
            Op::Conn(id) => {
                run.op_conn(*id).await;
                continue;
            }
            Op::Allow(k) => run.op_allow(*k).await.into(),
            Op::Deny(k) => run.op_deny(*k).await.into(),
            Op::Confirm(k) => run.op_confirm(*k).await.into(),
            Op::Reg(k) => run.op_reg(*k).await.into(),
            Op::Disc(id, sel) => run.op_disc(*id, *sel).await,
            Op::Close(k) => run.op_close(*k).await.into(),
            Op::Load(k, x, n, by_cid, mode) => match mode {
                't' | 'T' => run.op_load_towards(*k, *x as usize, *n, *by_cid, *mode == 'T').await,
                _ => run.op_load(*k, *x, *n, *by_cid, *mode == 'f').await,
            },
        };
        run.results.push(r);
    }
    // drive every open accept task to its end
    for k in 0..run.conns.len() {
        match run.conns[k].phase {
            Phase::Requested => {
                run.op_deny(k).await;
            }
            Phase::Admitted => {
                run.op_confirm(k).await;
                run.op_reg(k).await;
            }
            Phase::Confirmed => {
                run.op_reg(k).await;
            }
            _ => {}
        }
    }
    // final observation
    let (snap, _) = run.clients.verif_snapshot();
    let by_cid: HashMap<ConnectionId, usize> = run.conns.iter().enumerate().map(|(k, c)| (c.cid, k)).collect();
    let name = |c: &ConnectionId| by_cid.get(c).map(|k| k.to_string()).unwrap_or_else(|| "?".into());
    let mut entries: Vec<(u64, String)> = snap
        .iter()
        .map(|(e, a, ina)| {
            let id = (0..NUM_IDS).find(|i| secret(*i).public() == *e).unwrap_or(99);
            (id, format!("{id}:{}/{}", name(a), ina.iter().map(&name).collect::<Vec<_>>().join(",")))
        })
        .collect();
    entries.sort();
    let mut served = Vec::new();
    for k in 0..run.conns.len() {
        if run.probe(k).await {
            served.push(k);
        }
    }
    let join = |v: Vec<String>| if v.is_empty() { "-".to_string() } else { v.join(" ") };
    let out = format!(
        "{} | {} | {}",
        if run.results.is_empty() { "-".into() } else { run.results.join(",") },
        join(entries.into_iter().map(|e| e.1).collect()),
        join(served.iter().map(|k| k.to_string()).collect()),
    );
    let mut ex = Exec::new(out);

    // ---- oracle: the statement of C08 on the implementation's behaviour -----------------
    for (k, c) in run.conns.iter().enumerate() {
        match c.revoked {
            Some(before_register) => {
                if before_register {
                    window_discs += 1;
                }
                if served.contains(&k) {
                    if before_register {
                        ex.violation(
                            "C08:disconnect-before-register",
                            format!("connection {k} (endpoint {}) was revoked after admission and before Clients::register; it is registered and answers pings", c.id),
                        );
                    } else {
                        ex.violation("C08:revoked-still-served", format!("connection {k} revoked while registered still answers pings"));
                    }
                }
            }
            None => {
                // never revoked: if it was registered and not closed by its client it must still be served
                if c.phase == Phase::Registered && !served.contains(&k) {
                    ex.violation("C08:other-affected", format!("connection {k} (endpoint {}) was never revoked but is not served", c.id));
                }
            }
        }
    }
    for (class, detail) in std::mem::take(&mut run.load_hits) {
        ex.violation(class, detail);
    }
    ex.tags.extend(std::mem::take(&mut run.load_tags));
    if ops.iter().any(|o| matches!(o, Op::Load(..))) {
        ex.tags.push("revoked-under-load".into());
    }
    let infra = !run.faults.is_empty();
    for f in &run.faults {
        ex.tags.push(format!("fault:{f}"));
    }
    if infra {
        // an expired wait is reported in the output (the model will disagree), never hidden
        ex.out = format!("{} !{}", ex.out, run.faults.join(","));
    }
    ex.tags.push(format!("conns:{}", run.conns.len().min(4)));
    if window_discs > 0 {
        ex.tags.push("disc-in-window".into());
    }
    if run.conns.iter().any(|c| c.revoked == Some(false)) {
        ex.tags.push("disc-after-register".into());
    }
    ex.nontrivial = run.conns.iter().any(|c| c.revoked.is_some());

    // tidy up: release everything, stop the server
    verif_pause::reset();
    for c in &mut run.conns {
        if let Some(d) = c.dial.take() {
            d.abort();
        }
        c.client = None;
    }
    let _ = tokio::time::timeout(WAIT, server.shutdown()).await;
    ex
}

struct C08;

fn thread_ops(k: usize, id: u64, deny: bool) -> Vec<String> {
    if deny {
        vec![format!("conn {id}"), format!("deny {k}")]
    } else {
        vec![format!("conn {id}"), format!("allow {k}"), format!("confirm {k}"), format!("reg {k}")]
    }
}

impl Prop for C08 {
    fn id(&self) -> &'static str {
        "C08"
    }

    fn generate(&mut self, rng: &mut Rng, tier: Tier, n: usize, out: &mut Vec<String>) {
        // (1) one connection, one disconnect request at every position of its accept thread,
        //     by connection id and by endpoint id; with and without a bystander of another endpoint
        for bystander in [false, true] {
            for pos in 1..=4usize {
                for sel in ["0", "*"] {
                    let mut ops: Vec<String> = Vec::new();
                    let k0 = if bystander {
                        ops.extend(thread_ops(0, 1, false));
                        1
                    } else {
                        0
                    };
                    let mut t = thread_ops(k0, 0, false);
                    let d = format!("disc 0 {}", if sel == "*" { "*".into() } else { k0.to_string() });
                    t.insert(pos, d);
                    ops.extend(t);
                    out.push(ops.join(";"));
                }
            }
        }
        // (2) two connections of ONE endpoint, the second one in its window while the first is registered
        for pos in 1..=4usize {
            for sel in ["0", "1", "*"] {
                let mut ops = thread_ops(0, 0, false);
                let mut t = thread_ops(1, 0, false);
                t.insert(pos, format!("disc 0 {sel}"));
                ops.extend(t);
                out.push(ops.join(";"));
            }
        }
        // (3) denied connection, requests for unknown things, ops that are not enabled
        out.push("conn 0;deny 0;disc 0 0;disc 0 *".into());
        out.push("conn 0;disc 0 0;allow 0;confirm 0;reg 0".into());
        out.push("disc 0 *;disc 1 3;reg 0;close 0;conn 2;reg 0;confirm 0;allow 0;allow 0;deny 0".into());
        out.push("conn 0;allow 0;confirm 0;reg 0;close 0;disc 0 0;disc 0 *".into());
        // (3b) three registered connections of one endpoint: promotion order, removal of inactive ones
        let three: String = (0..3).flat_map(|k| thread_ops(k, 0, false)).collect::<Vec<_>>().join(";");
        for tail in ["close 2", "disc 0 2", "disc 0 1", "disc 0 0", "close 1", "close 0;close 2", "close 2;close 1", "disc 0 2;disc 0 1", "disc 0 *", "disc 0 1;close 2"] {
            out.push(format!("{three};{tail}"));
        }
        // (3c) revocation under load: pipelined backlog / flooding writer, by connection id / endpoint id,
        //      towards a connected peer / an absent endpoint, alone and with a displaced duplicate
        let two: String = [thread_ops(0, 0, false), thread_ops(1, 1, false)].concat().join(";");
        for sel in ["c", "*"] {
            for (dst, n, mode) in [(1, 300, "b"), (3, 300, "b"), (3, 0, "f"), (1, 40, "b")] {
                out.push(format!("{two};load 0 {dst} {n} {sel} {mode}"));
            }
            out.push(format!("{three};conn 1;allow 3;confirm 3;reg 3;load 2 1 300 {sel} b"));
            out.push(format!("{three};load 1 3 300 {sel} b;load 2 3 0 {sel} f"));
        }
        // (3d) revocation with load TOWARDS the revoked connection (its outbound queue is kept non-empty)
        for sel in ["c", "*"] {
            out.push(format!("{two};load 0 1 300 {sel} t"));
            out.push(format!("{two};load 1 0 300 {sel} t"));
            out.push(format!("{two};load 0 1 40 {sel} t"));
            out.push(format!("{two};load 0 1 0 {sel} T"));
            out.push(format!("{three};conn 1;allow 3;confirm 3;reg 3;load 2 3 300 {sel} t"));
            out.push(format!("{three};conn 1;allow 3;confirm 3;reg 3;load 3 2 300 {sel} t;load 2 3 300 {sel} t"));
        }
        // (4) random interleavings of 1-4 accept threads over 1-3 endpoints with requests and closes
        let max_conns = if tier == Tier::Thorough { 4 } else { 3 };
        while out.len() < n {
            let nconn = rng.range(1, max_conns) as usize;
            let nids = if rng.chance(1, 3) { 1 } else { rng.range(1, 3) };
            let mut threads: Vec<Vec<String>> = Vec::new();
            let mut ids = Vec::new();
            for k in 0..nconn {
                let id = rng.below(nids);
                ids.push(id);
                let mut t = thread_ops(k, id, rng.chance(1, 8));
                // `conn` ops must come in index order: keep them out of the shuffle
                t.remove(0);
                if rng.chance(1, 5) {
                    t.push(format!("close {k}"));
                }
                threads.push(t);
            }
            // interleave
            let mut ops: Vec<String> = Vec::new();
            let mut started = 0usize;
            let mut pos = vec![0usize; nconn];
            loop {
                let mut choices: Vec<usize> = (0..started).filter(|k| pos[*k] < threads[*k].len()).collect();
                if started < nconn {
                    choices.push(usize::MAX);
                }
                if choices.is_empty() {
                    break;
                }
                let c = *rng.pick(&choices);
                if c == usize::MAX {
                    ops.push(format!("conn {}", ids[started]));
                    started += 1;
                } else {
                    // sometimes leave a thread unfinished (the harness completes it at the end)
                    ops.push(threads[c][pos[c]].clone());
                    pos[c] += 1;
                }
                if rng.chance(1, 4) {
                    let id = *rng.pick(&ids);
                    let sel = if rng.bool() || started == 0 { "*".to_string() } else { rng.usize_below(started).to_string() };
                    ops.push(format!("disc {id} {sel}"));
                }
                if started > 1 && rng.chance(1, 14) {
                    let flood = rng.chance(1, 5);
                    ops.push(format!(
                        "load {} {} {} {} {}",
                        rng.usize_below(started),
                        rng.usize_below(started),
                        if flood { 0 } else { *rng.pick(&[1u64, 64, 300]) },
                        if rng.bool() { "c" } else { "*" },
                        if flood { "T" } else { "t" }
                    ));
                }
                if started > 0 && rng.chance(1, 12) {
                    let flood = rng.chance(1, 4);
                    ops.push(format!(
                        "load {} {} {} {} {}",
                        rng.usize_below(started),
                        if flood { 3 } else { rng.below(NUM_IDS) },
                        if flood { 0 } else { *rng.pick(&[1u64, 64, 300]) },
                        if rng.bool() { "c" } else { "*" },
                        if flood { "f" } else { "b" }
                    ));
                }
                if rng.chance(1, 40) {
                    // an op that is not enabled
                    ops.push(format!("{} {}", rng.pick(&["allow", "confirm", "reg", "close", "deny"]), rng.usize_below(nconn + 1)));
                }
            }
            if rng.chance(1, 6) {
                ops.truncate(rng.range(1, ops.len() as u64) as usize);
            }
            out.push(ops.join(";"));
        }
    }

    fn execute(&mut self, payload: &str) -> Exec {
        let Some(ops) = parse(payload) else {
            return Exec::new("bad-input").tag("bad-input");
        };
        static SUB: OnceLock<()> = OnceLock::new();
        SUB.get_or_init(|| {
            let _ = tracing::subscriber::set_global_default(FrameEvents);
        });
        // a flooding writer needs a thread of its own to keep the relay-side socket non-empty
        let flood = ops.iter().any(|o| matches!(o, Op::Load(_, _, _, _, 'f' | 'T')));
        let rt = if flood {
            tokio::runtime::Builder::new_multi_thread().worker_threads(2).enable_all().build().expect("runtime")
        } else {
            tokio::runtime::Builder::new_current_thread().enable_all().build().expect("runtime")
        };
        let ex = rt.block_on(run_case(ops));
        rt.shutdown_timeout(Duration::from_millis(200));
        ex
    }
}

fn main() {
    run(C08);
}
