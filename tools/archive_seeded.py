#!/usr/bin/env python3
"""archive_seeded.py <mut-out dir e.g. /tmp/mut-out/C10/1> <name> <result text>
Copies patch/demo/meta into /verif/seeded/<name>/ and records what the checks reported."""
import json, os, shutil, sys
src, name, result = sys.argv[1], sys.argv[2], sys.argv[3]
dst = os.path.join("/verif/seeded", name)
os.makedirs(dst, exist_ok=True)
for f in ("patch.diff", "demo.diff"):
    if os.path.exists(os.path.join(src, f)):
        shutil.copy(os.path.join(src, f), dst)
m = json.load(open(os.path.join(src, "meta.json")))
m["origin"] = "independent sub-agent given only the property text and a scratch worktree"
m["check_result"] = result
m["ran"] = "tools/try_seeded.sh <scratch worktree> patch.diff <ID>  (scratch copy of /verif against the patched worktree)"
json.dump(m, open(os.path.join(dst, "meta.json"), "w"), indent=1)
