#!/usr/bin/env python3
"""Regenerate MANIFEST.json from props/*.json (claimed) and properties.jsonl (the
rest go under not_applicable with the reason recorded in tools/not_applicable.json)."""
import glob, json, os, subprocess
ROOT = os.path.join(os.path.dirname(os.path.abspath(__file__)), "..")
props = [json.loads(l) for l in open(os.path.join(ROOT, "properties.jsonl"))]
specs = {}
tracked = set(subprocess.run(["git", "-C", ROOT, "ls-files", "props", "evidence"], capture_output=True, text=True).stdout.split())
for f in sorted(glob.glob(os.path.join(ROOT, "props", "C*.json"))):
    if "props/" + os.path.basename(f) not in tracked or "evidence/" + os.path.basename(f) not in tracked:
        continue  # only committed work is claimed
    s = json.load(open(f))
    complete = all(k in s for k in ("level_text", "level_note", "technique", "theorems", "group")) and s["theorems"]
    evp = os.path.join(ROOT, "evidence", s["id"] + ".json")
    ok = False
    if os.path.exists(evp):
        try:
            ok = json.load(open(evp)).get("violations", 1) == 0
        except Exception:
            ok = False
    if s.get("claimed", True) and complete and ok:
        specs[s["id"]] = s
na_reasons = json.load(open(os.path.join(ROOT, "tools", "not_applicable.json")))
hooks = [l.split()[0] for l in subprocess.run(
    ["git", "-C", "/repo", "log", "--format=%H %s"], capture_output=True, text=True).stdout.splitlines()
    if "verif hook" in l]
checks = []
for p in props:
    s = specs.get(p["id"])
    if not s:
        continue
    pid = p["id"]
    checks.append({
        "property_id": pid,
        "quick_cmd": f"./check {pid} --tier quick",
        "thorough_cmd": f"./check {pid} --tier thorough",
        "evidence_file": f"/verif/evidence/{pid}.json",
        "replay_cmd_template": f"./check {pid} --replay {{path}}",
        "engine": "lean4+rust-diff",
        "level_claimed": {"category": "proof", "text": s["level_text"], "design_ref": s.get("design_ref", f"5 {pid}")},
        "level_note": s["level_note"],
        "technique": s["technique"],
    })
manifest = {
    "version": 1,
    "setup_cmd": "./setup.sh",
    "hooks": {
        "guard": "iroh_verif",
        "enable": "RUSTFLAGS='--cfg iroh_verif --check-cfg cfg(iroh_verif)' (set in /verif/harness/.cargo/config.toml; the harness crates depend on /repo's crates by path)",
        "baseline_off_cmd": "cd /repo && cargo nextest run --workspace --no-fail-fast --test-threads 8 --offline || cargo test --workspace --no-fail-fast --offline",
        "source_commits": hooks,
        "add_only": False,
    },
    "engines": [{
        "name": "lean4+rust-diff", "path": "/verif/check",
        "serves_properties": [c["property_id"] for c in checks],
        "kind_free_text": "Lean 4 theorems about hand-written executable models (lean/IrohModel/Cnn), constants regenerated from source, "
                          "models tied to /repo by a differential correspondence run (Rust harness in harness/, Lean driver lean/Driver) plus an independent oracle",
    }],
    "checks": checks,
    "not_applicable": [{"property_id": p["id"], "reason": na_reasons.get(p["id"], na_reasons["default"])}
                       for p in props if p["id"] not in specs],
    "notes": "Hook commits are additive except for a few lines whose attributes were changed so that cfg(iroh_verif) can see them (e.g. `cfg(test)` → `cfg(any(test, iroh_verif))` on synthetic constructors, a cfg-gated `use`, later edits of earlier hook lines); with the guard off the crates compile to the same code as the fix-only tree and the 218 baseline tests pass. See DESIGN.md. One entry point: ./check <ID> --tier quick|thorough [--replay file]. known_findings.json lists recorded defects.",
}
json.dump(manifest, open(os.path.join(ROOT, "MANIFEST.json"), "w"), indent=1)
print(f"{len(checks)} claimed, {len(manifest['not_applicable'])} not claimed")
