#!/bin/bash
# tools/mutant_run.sh <repo-worktree> <ID> [<ID>...] [-- extra check args]
# Runs ./check for the given properties against a *different* checkout of the
# repository (a scratch worktree carrying a seeded mutation) without touching
# /repo or /verif: copies /verif (incl. the warm cargo target dir and .lake) to a
# scratch directory, rewrites the harness' path dependencies, and runs the copied
# ./check there with VERIF_REPO pointing at the worktree.
# Used only for developing/validating the checks; registered checks always run in
# /verif against /repo.
set -u
WT=$(realpath "$1"); shift
IDS=(); EXTRA=()
while [ $# -gt 0 ]; do
  if [ "$1" = "--" ]; then shift; EXTRA=("$@"); break; fi
  IDS+=("$1"); shift
done
SCR=${VERIF_SCRATCH:-/tmp/vm-$(basename "$WT")}
mkdir -p "$SCR"
rsync -a --delete --exclude '.git' --exclude 'replays' --exclude '.work' /verif/ "$SCR/verif/"
sed -i "s#/repo/#$WT/#g" "$SCR"/verif/harness/*/Cargo.toml
cp -f "$WT/Cargo.lock" "$SCR/verif/harness/Cargo.lock"
rc=0
for id in "${IDS[@]}"; do
  ( cd "$SCR/verif" && VERIF_REPO="$WT" ./check "$id" "${EXTRA[@]}" ) || rc=1
done
echo "scratch: $SCR (remove when done)"
exit $rc
