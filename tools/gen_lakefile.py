#!/usr/bin/env python3
"""Regenerate lean/lakefile.toml: the library plus one `lean_exe` driver per
Driver/C*.lean (drivers import only Mathlib-free model files, so they link)."""
import os, re, sys
root = os.path.join(os.path.dirname(os.path.abspath(__file__)), "..", "lean")
drivers = sorted(f[:-5] for f in os.listdir(os.path.join(root, "Driver"))
                 if re.fullmatch(r"C\d+\.lean", f))
out = ['name = "IrohModel"', 'version = "0.1.0"', 'defaultTargets = ["IrohModel"]', "",
       "[[lean_lib]]", 'name = "IrohModel"', "", "[[lean_lib]]", 'name = "Driver"', ""]
for d in drivers:
    out += ["[[lean_exe]]", f'name = "drv_{d.lower()}"', f'root = "Driver.{d}"', ""]
path = os.path.join(root, "lakefile.toml")
new = "\n".join(out)
old = open(path).read() if os.path.exists(path) else ""
if old != new:
    open(path, "w").write(new)
