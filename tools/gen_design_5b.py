#!/usr/bin/env python3
"""Regenerate DESIGN.md §5b (per-property summary as built) from props/*.json."""
import json, glob
rows = []
for f in sorted(glob.glob('/verif/props/C*.json')):
    s = json.load(open(f))
    pid = s['id']
    a = "; ".join(s.get('assumptions', []))[:500].replace("|", "/").replace("\n", " ")
    rows.append(f"### {pid} (as built)\n\n* technique: {s.get('technique','')}\n* proof obligations (audited theorems): {len(s.get('theorems',[]))} — `" + "`, `".join(t.split('.')[-1] for t in s.get('theorems', [])) + f"`\n* correspondence: harness `harness/{s['group']}/src/bin/{pid.lower()}.rs`, {s.get('n_quick')} cases quick / {s.get('n_thorough')} thorough; constants regenerated from source: {len(s.get('consts',[]))}\n* what the level means: {s.get('level_text','')}\n* trusted / modelled-not-verified: {s.get('level_note','')}\n* assumptions: {a}\n")
out = "## 5b. Per-property summary as built (generated from props/*.json)\n\nThe plan in §5 was followed except where noted in §0/§6b; this section states, per property, what is actually proved and what is assumed.\n\n" + "\n".join(rows) + "\n"
s = open('/verif/DESIGN.md').read()
a = s.index("## 5b. Per-property summary"); b = s.index("## 6. Defects found")
open('/verif/DESIGN.md', 'w').write(s[:a] + out + s[b:])
