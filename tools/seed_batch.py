#!/usr/bin/env python3
"""seed_batch.py <worktree> <ID/n> [<ID/n> ...]
For each delivered seeded change /tmp/mut-out/<ID>/<n>: apply to the scratch worktree, run ./check <ID>
on a scratch copy of /verif (tools/try_seeded.sh), archive under seeded/<ID>-agent-<n>/ with the
outcome, and append a row to DESIGN.md §11."""
import json, os, re, subprocess, sys
wt = sys.argv[1]
rows = []
for item in sys.argv[2:]:
    pid, n = item.split("/")
    src = f"/tmp/mut-out/{pid}/{n}"
    if not (os.path.exists(f"{src}/meta.json") and os.path.exists(f"{src}/patch.diff")):
        print(item, "-> not delivered yet, skipped", flush=True)
        continue
    extra = os.environ.get("EXTRA_IDS", "").split()
    out = subprocess.run(["/verif/tools/try_seeded.sh", wt, f"{src}/patch.diff", pid] + extra,
                         capture_output=True, text=True).stdout
    classes = sorted(set(re.findall(r"^ORACLE class=(\S+)", out, re.M)))
    viol = "VIOLATION" in out
    nofail = "no-failing-input-found" in out
    extract = "BROKEN extract" in out
    dis = re.search(r"BROKEN disagreement: (\d+)", out)
    if viol and classes:
        res = "**caught** (quick): oracle " + ", ".join(f"`{c}`" for c in classes[:3])
    elif viol:
        res = "caught without a concrete input (`no-failing-input-found`)"
    else:
        res = "**MISSED** (check passed)"
    if extract:
        res += "; source-shape constant broke"
    if dis:
        res += f"; {dis.group(1)} model disagreements"
    m = json.load(open(f"{src}/meta.json"))
    name = f"{pid}-agent-{n}"
    subprocess.run(["/verif/tools/archive_seeded.py", src, name, re.sub(r"[*`]", "", res)])
    what = m.get("what", "")[:150].replace("|", "/").replace("\n", " ")
    need = m.get("needs_to_manifest", "")[:150].replace("|", "/").replace("\n", " ")
    rows.append(f"| {name}: {what} | {pid} | {need} | {res} |")
    print(name, "->", res, flush=True)
with open("/verif/DESIGN.md", "a") as f:
    f.write("\n".join(rows) + "\n")
