#!/bin/bash
# tools/try_seeded.sh <worktree> <patch.diff> <ID> [<ID>...]
# Apply a seeded change to a scratch worktree, run the given checks against it, restore the worktree.
WT=$1; PATCH=$2; shift 2
git -C "$WT" checkout -q -- . && git -C "$WT" clean -fdq
git -C "$WT" checkout -q --detach "$(git -C /repo rev-parse HEAD)"
git -C "$WT" apply "$PATCH" || { echo "patch does not apply"; exit 2; }
/verif/tools/mutant_run.sh "$WT" "$@" 2>&1 | grep -E "^(OK|VIOLATION|ORACLE|BROKEN|KNOWN)" | cut -c1-400 | awk '/^ORACLE/{n++; if(n>5) next} {print}' 
git -C "$WT" checkout -q -- . && git -C "$WT" clean -fdq
