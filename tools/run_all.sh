#!/bin/bash
# tools/run_all.sh [tier] — run every claimed check once (seed from VERIF_SEED), print a summary table.
cd "$(dirname "$0")/.."
TIER=${1:-quick}
for id in $(python3 -c "import json;print(' '.join(c['property_id'] for c in json.load(open('MANIFEST.json'))['checks']))"); do
  s=$(date +%s)
  out=$(./check $id --tier $TIER 2>&1 | tail -3)
  rc=$?
  e=$(date +%s)
  echo "$id $((e-s))s $(echo "$out" | grep -E '^(OK|VIOLATION)' | cut -c1-200)"
  echo "$out" | grep -E '^KNOWN' | cut -c1-160
done
